#!/usr/bin/env python3
"""
indwrappers.py -- classify the "wrapper shape" of every public jesse indicator.

Every public indicator `name(candles, ..., sequential=False)` of
`<repo>/jesse/indicators` conventionally (a) slices the candles with
`slice_candles(candles, sequential)` and (b) returns `E if sequential else E[-1]`
(or the field-wise namedtuple analogue).  This script walks the AST of every
indicator module, decides per public name whether that convention is followed
*literally*, and emits

  <out_dir>/IndWrappers.lean           the table as Lean data (core Lean only)
  <out_dir>/indwrappers_status.json    the same table + summaries as JSON

Usage:
  python3 py2lean/indwrappers.py <repo_root> <out_dir>
  python3 py2lean/indwrappers.py --diff <repo_root>     (compare with the committed baseline)

Importable: analyze(repo_root), generate(repo_root, out_dir), diff_against_baseline(repo_root).

Shapes (per result field; field "value" for single-valued indicators):
  std      sequential -> E, non sequential -> E[-1], the SAME E (ast.dump equal), literal -1
  stdpad   sequential -> same_length(_, E) | np.concatenate((np.full(.., nan), E)), non sequential -> E[-1]
  idx s    sequential -> E, non sequential -> E[s] with s other than -1
  other s  anything else (s = short description)
The classification is purely syntactic and conservative: when in doubt -> other.

stdlib only: ast, json, os, sys.
"""
import ast
import json
import os
import sys

HERE = os.path.dirname(os.path.abspath(__file__))
BASELINE_PATH = os.path.join(HERE, "indwrappers_baseline.json")

STD, STDPAD, IDX, OTHER = "std", "stdpad", "idx", "other"


# --------------------------------------------------------------------------- helpers

def _is_name(node, name):
    return isinstance(node, ast.Name) and node.id == name


def _dump(node):
    return ast.dump(node, annotate_fields=False, include_attributes=False)


def _clean(text, limit=160):
    """Make `text` a short one-line description that needs no escaping in Lean."""
    text = " ; ".join(line.strip() for line in text.splitlines() if line.strip())
    text = text.replace('"', "'").replace("\\", "")
    if len(text) > limit:
        text = text[: limit - 3] + "..."
    return text


def _unparse(nodes):
    if not isinstance(nodes, (list, tuple)):
        nodes = [nodes]
    return "\n".join(ast.unparse(n) for n in nodes if n is not None)


def _seq_test(test):
    """True for `sequential`, False for `not sequential`, None for anything else."""
    if _is_name(test, "sequential"):
        return True
    if isinstance(test, ast.UnaryOp) and isinstance(test.op, ast.Not) and _is_name(test.operand, "sequential"):
        return False
    return None


def _is_minus_one(node):
    if isinstance(node, ast.Constant) and type(node.value) is int and node.value == -1:
        return True
    return (isinstance(node, ast.UnaryOp) and isinstance(node.op, ast.USub)
            and isinstance(node.operand, ast.Constant) and type(node.operand.value) is int
            and node.operand.value == 1)


def _callee(call):
    """'f' for f(...), 'm.f' for m.f(...), None otherwise."""
    if not isinstance(call, ast.Call):
        return None
    f = call.func
    if isinstance(f, ast.Name):
        return f.id
    if isinstance(f, ast.Attribute) and isinstance(f.value, ast.Name):
        return f.value.id + "." + f.attr
    return None


def _is_nan_scalar(node):
    """np.nan / numpy.nan / math.nan / float('nan')"""
    if isinstance(node, ast.Attribute) and node.attr in ("nan", "NaN", "NAN") and isinstance(node.value, ast.Name):
        return node.value.id in ("np", "numpy", "math")
    if _callee(node) == "float" and len(node.args) == 1 and not node.keywords:
        a = node.args[0]
        return isinstance(a, ast.Constant) and isinstance(a.value, str) and a.value.lower() == "nan"
    return False


def _is_nan_array(node):
    """np.full(<shape>, nan) / np.full_like(<x>, nan) -- an array whose every entry is NaN"""
    if _callee(node) in ("np.full", "numpy.full", "np.full_like", "numpy.full_like"):
        if len(node.args) >= 2:
            return _is_nan_scalar(node.args[1])
        for kw in node.keywords:
            if kw.arg == "fill_value":
                return _is_nan_scalar(kw.value)
    return False


def _padded_inner(node):
    """E for same_length(_, E) / jh.same_length(_, E) / np.concatenate((np.full(.., nan), E)); else None."""
    c = _callee(node)
    if c is None or node.keywords:
        return None
    if c in ("same_length", "jh.same_length", "helpers.same_length") and len(node.args) == 2:
        return node.args[1]
    if c in ("np.concatenate", "numpy.concatenate") and len(node.args) == 1:
        seq = node.args[0]
        if isinstance(seq, (ast.Tuple, ast.List)) and len(seq.elts) == 2 and _is_nan_array(seq.elts[0]):
            return seq.elts[1]
    return None


# --------------------------------------------------------------------------- field classification

def classify_field(seq_e, non_e):
    """(shape, detail) for one field: sequential expression vs non-sequential expression."""
    desc = _clean("seq: %s | nonseq: %s" % (ast.unparse(seq_e), ast.unparse(non_e)))
    if isinstance(seq_e, ast.Starred) or isinstance(non_e, ast.Starred):
        return (OTHER, desc)
    if isinstance(non_e, ast.Subscript):
        base = _dump(non_e.value)
        minus_one = _is_minus_one(non_e.slice)
        if _dump(seq_e) == base:
            if minus_one:
                return (STD, "")
            return (IDX, _clean(ast.unparse(non_e.slice)))
        inner = _padded_inner(seq_e)
        if inner is not None and minus_one and _dump(inner) == base:
            return (STDPAD, "")
    return (OTHER, desc)


def _nan_pair(seq_e, non_e, env):
    """all-NaN array (directly, or a name bound to one in `env`) vs NaN scalar"""
    if isinstance(seq_e, ast.Name) and seq_e.id in env:
        seq_e = env[seq_e.id]
    return _is_nan_array(seq_e) and _is_nan_scalar(non_e)


def _split_fields(expr, ntdefs):
    """
    Decompose a returned expression into named fields.
    -> (kind, [(fname, expr)]) where kind is 'nt:<Name>', 'tuple' or 'value'; None when not decomposable.
    """
    if isinstance(expr, ast.Tuple):
        if any(isinstance(e, ast.Starred) for e in expr.elts):
            return None
        return ("tuple", [(str(i), e) for i, e in enumerate(expr.elts)])
    if isinstance(expr, ast.Call) and isinstance(expr.func, ast.Name) and expr.func.id in ntdefs:
        names = ntdefs[expr.func.id]
        if any(isinstance(a, ast.Starred) for a in expr.args) or any(kw.arg is None for kw in expr.keywords):
            return None
        got = {}
        for i, a in enumerate(expr.args):
            if i >= len(names):
                return None
            got[names[i]] = a
        for kw in expr.keywords:
            if kw.arg not in names or kw.arg in got:
                return None
            got[kw.arg] = kw.value
        if set(got) != set(names):
            return None
        return ("nt:" + expr.func.id, [(n, got[n]) for n in names])
    return ("value", [("value", expr)])


def classify_pair(seq_e, non_e, ntdefs, default_names):
    """Field list [(fname, shape, detail)] for a (sequential expr, non-sequential expr) pair."""
    a = _split_fields(seq_e, ntdefs)
    b = _split_fields(non_e, ntdefs)
    whole = _clean("seq: %s | nonseq: %s" % (ast.unparse(seq_e), ast.unparse(non_e)))
    if a is None or b is None or a[0] != b[0] or [n for n, _ in a[1]] != [n for n, _ in b[1]]:
        return [(n, OTHER, whole) for n in default_names]
    return [(n, ) + classify_field(x, y) for (n, x), (_, y) in zip(a[1], b[1])]


# --------------------------------------------------------------------------- return forms

class Form:
    """One syntactic "return site": a lone `return`, or an `if sequential:` pair of returns."""

    def __init__(self, kind, lineno, seq_ret=None, non_ret=None, ret=None, pre_seq=(), pre_non=(), stmts=(),
                 env=None, at_end=False):
        self.kind = kind          # 'single' | 'pair'
        self.lineno = lineno
        self.seq_ret = seq_ret    # ast.Return of the sequential branch (pair)
        self.non_ret = non_ret    # ast.Return of the non-sequential branch (pair)
        self.ret = ret            # ast.Return (single)
        self.pre_seq = list(pre_seq)  # statements of the sequential branch before its return
        self.pre_non = list(pre_non)  # statements of the non-sequential branch before its return
        self.pre = self.pre_seq + self.pre_non
        self.stmts = list(stmts)  # the statements to print in descriptions
        self.env = env or {}      # names bound to all-NaN arrays just before this form (same block)
        self.at_end = at_end      # last statement(s) of its block


def _sub_blocks(stmt):
    out = []
    for attr in ("body", "orelse", "finalbody"):
        blk = getattr(stmt, attr, None)
        if isinstance(blk, list) and blk and isinstance(blk[0], ast.stmt):
            out.append(blk)
    for h in getattr(stmt, "handlers", []) or []:
        out.append(h.body)
    for c in getattr(stmt, "cases", []) or []:
        out.append(c.body)
    return out


def _nan_env(stmts):
    """
    Names bound to an all-NaN array by the statements `stmts` (the part of a block before a return
    site), provided each such name is assigned exactly once and never otherwise touched there.
    """
    env, dirty = {}, set()
    for s in stmts:
        if (isinstance(s, ast.Assign) and len(s.targets) == 1 and isinstance(s.targets[0], ast.Name)
                and _is_nan_array(s.value) and s.targets[0].id not in env):
            env[s.targets[0].id] = s.value
            continue
        for n in ast.walk(s):
            if isinstance(n, ast.Name):
                dirty.add(n.id)
    return {k: v for k, v in env.items() if k not in dirty}


def _subst(node, env):
    """Copy of expression `node` with every loaded Name of `env` replaced by env[name] (no `copy` module)."""
    if isinstance(node, list):
        return [_subst(x, env) for x in node]
    if not isinstance(node, ast.AST):
        return node
    if isinstance(node, ast.Name) and isinstance(node.ctx, ast.Load) and node.id in env:
        return env[node.id]
    return type(node)(**{f: _subst(getattr(node, f, None), env) for f in node._fields})


_SCOPED = (ast.Lambda, ast.ListComp, ast.SetComp, ast.DictComp, ast.GeneratorExp, ast.NamedExpr)


def _rebind_env(body):
    """
    {name: expr} for a branch body made only of `name = expr` statements (sequentially composed),
    e.g. `if not sequential: a = a[-1]; b = b[-1]`; None when the body is anything else.
    """
    env = {}
    for s in body:
        if not (isinstance(s, ast.Assign) and len(s.targets) == 1 and isinstance(s.targets[0], ast.Name)):
            return None
        if any(isinstance(n, _SCOPED) for n in ast.walk(s.value)):
            return None
        env[s.targets[0].id] = _subst(s.value, env)
    return env


def collect_forms(stmts):
    """All return sites of a statement list (recursively; nested defs/lambdas/classes excluded)."""
    forms = []
    skip = set()
    n = len(stmts)
    for i, s in enumerate(stmts):
        if i in skip:
            continue
        if isinstance(s, (ast.FunctionDef, ast.AsyncFunctionDef, ast.ClassDef)):
            continue
        if isinstance(s, ast.Return):
            prev = stmts[i - 1] if i > 0 else None
            if (isinstance(prev, ast.If) and _seq_test(prev.test) is not None and not prev.orelse
                    and s.value is not None and not isinstance(s.value, ast.IfExp)
                    and not any(isinstance(x, _SCOPED) for x in ast.walk(s.value))):
                # `if not sequential: a = a[-1]` immediately followed by `return NT(a)`:
                # execute the rebinding symbolically to obtain the two returned expressions
                env = _rebind_env(prev.body)
                if env:
                    other = ast.Return(value=_subst(s.value, env))
                    seq_ret, non_ret = (other, s) if _seq_test(prev.test) else (s, other)
                    forms.append(Form("pair", prev.lineno, seq_ret=seq_ret, non_ret=non_ret,
                                      stmts=[prev, s], env=_nan_env(stmts[:i - 1]), at_end=(i == n - 1)))
                    continue
            forms.append(Form("single", s.lineno, ret=s, stmts=[s], env=_nan_env(stmts[:i]), at_end=(i == n - 1)))
            continue
        if isinstance(s, ast.If):
            pol = _seq_test(s.test)
            if pol is not None:
                body_ret = s.body[-1] if isinstance(s.body[-1], ast.Return) else None
                else_ret = s.orelse[-1] if s.orelse and isinstance(s.orelse[-1], ast.Return) else None
                pair = None
                if body_ret is not None and else_ret is not None:
                    pair = (body_ret, else_ret, s.body[:-1], s.orelse[:-1], [s], i == n - 1)
                elif (body_ret is not None and not s.orelse and i + 1 < n
                      and isinstance(stmts[i + 1], ast.Return)):
                    pair = (body_ret, stmts[i + 1], s.body[:-1], [], [s, stmts[i + 1]], i + 1 == n - 1)
                    skip.add(i + 1)
                if pair is not None:
                    first, second, pre1, pre2, shown, at_end = pair
                    seq_ret, non_ret = (first, second) if pol else (second, first)
                    pre_seq, pre_non = (pre1, pre2) if pol else (pre2, pre1)
                    forms.extend(collect_forms(pre1))      # returns buried deeper inside the branches
                    forms.extend(collect_forms(pre2))
                    forms.append(Form("pair", s.lineno, seq_ret=seq_ret, non_ret=non_ret, pre_seq=pre_seq,
                                      pre_non=pre_non, stmts=shown, env=_nan_env(stmts[:i]), at_end=at_end))
                    continue
        for blk in _sub_blocks(s):
            forms.extend(collect_forms(blk))
    return forms


def _stored_names(stmts):
    """Names (re)bound or mutated in place by simple statements; None when a statement is not simple."""
    names = set()
    for s in stmts:
        if isinstance(s, (ast.Import, ast.ImportFrom)):
            for a in s.names:
                names.add((a.asname or a.name).split(".")[0])
            continue
        if isinstance(s, (ast.Assign, ast.AugAssign, ast.AnnAssign)):
            targets = s.targets if isinstance(s, ast.Assign) else [s.target]
            for t in targets:
                for n in ast.walk(t):
                    if isinstance(n, ast.Name):
                        names.add(n.id)   # covers x = .., x[i] = .., x.a = .., (a, b) = ..
            continue
        if isinstance(s, ast.Expr) and isinstance(s.value, ast.Constant):
            continue
        return None
    return names


def form_exprs(form):
    """(sequential expr, non-sequential expr) of a form, or None when it is not sequential-dependent."""
    if form.kind == "pair":
        if form.seq_ret.value is None or form.non_ret.value is None:
            return None
        return (form.seq_ret.value, form.non_ret.value)
    v = form.ret.value
    if isinstance(v, ast.IfExp):
        pol = _seq_test(v.test)
        if pol is True:
            return (v.body, v.orelse)
        if pol is False:
            return (v.orelse, v.body)
    return None


def _lift_fieldwise(form, ntdefs):
    """`return NT(a if sequential else a[-1], ...)` -> per-field (seq, nonseq) pairs, else None."""
    v = form.ret.value if form.kind == "single" else None
    if v is None:
        return None
    sp = _split_fields(v, ntdefs)
    if sp is None or sp[0] == "value":
        return None
    out = []
    for fname, e in sp[1]:
        if not isinstance(e, ast.IfExp):
            return None
        pol = _seq_test(e.test)
        if pol is None:
            return None
        out.append((fname, e.body, e.orelse) if pol else (fname, e.orelse, e.body))
    return out


def classify_form(form, ntdefs, default_names):
    """Field list for a return site."""
    text = _clean(_unparse(form.stmts))
    exprs = form_exprs(form)
    if exprs is None:
        lifted = _lift_fieldwise(form, ntdefs)
        if lifted is not None:
            return [(n, ) + classify_field(a, b) for n, a, b in lifted]
        return [(n, OTHER, text) for n in default_names]
    if form.kind == "pair" and form.pre:
        env_seq, env_non = _rebind_env(form.pre_seq), _rebind_env(form.pre_non)
        scoped = any(isinstance(x, _SCOPED) for e in exprs for x in ast.walk(e))
        if env_seq is not None and env_non is not None and not scoped:
            # branches made of plain `name = expr` rebindings: execute them symbolically
            exprs = (_subst(exprs[0], env_seq), _subst(exprs[1], env_non))
            fields = classify_pair(exprs[0], exprs[1], ntdefs, default_names)
            # describe failures by the source statements, not by the (long) substituted expressions
            return [(n, sh, text if sh == OTHER else d) for n, sh, d in fields]
        else:
            stored = _stored_names(form.pre)
            used = set()
            for e in exprs:
                used |= {n.id for n in ast.walk(e) if isinstance(n, ast.Name)}
            if stored is None or (stored & used):
                # the branches compute their own values before returning: E is not "the same E"
                return [(n, OTHER, text) for n in default_names]
    return classify_pair(exprs[0], exprs[1], ntdefs, default_names)


def early_ok(form, ntdefs, default_names):
    """An early return site is harmless iff it is standard field-wise or an (all-NaN array, NaN) pair."""
    exprs = form_exprs(form)
    if exprs is None or (form.kind == "pair" and form.pre):
        fields = classify_form(form, ntdefs, default_names)
        return all(f[1] in (STD, STDPAD) for f in fields)
    a = _split_fields(exprs[0], ntdefs)
    b = _split_fields(exprs[1], ntdefs)
    if a is None or b is None or a[0] != b[0] or len(a[1]) != len(b[1]):
        return False
    for (_, x), (_, y) in zip(a[1], b[1]):
        if classify_field(x, y)[0] in (STD, STDPAD):
            continue
        if _nan_pair(x, y, form.env):
            continue
        return False
    return True


# --------------------------------------------------------------------------- module level

def namedtuple_defs(tree):
    """{Name: [field names]} for module-level `X = namedtuple('X', [...] | 'a b c')`."""
    defs = {}
    for s in tree.body:
        if not (isinstance(s, ast.Assign) and len(s.targets) == 1 and isinstance(s.targets[0], ast.Name)):
            continue
        c = _callee(s.value)
        if c not in ("namedtuple", "collections.namedtuple") or len(s.value.args) < 2:
            continue
        spec = s.value.args[1]
        names = None
        if isinstance(spec, (ast.List, ast.Tuple)):
            if all(isinstance(e, ast.Constant) and isinstance(e.value, str) for e in spec.elts):
                names = [e.value for e in spec.elts]
        elif isinstance(spec, ast.Constant) and isinstance(spec.value, str):
            names = spec.value.replace(",", " ").split()
        if names:
            defs[s.targets[0].id] = names
    return defs


def _walk_own(fn):
    """ast.walk over a function body without descending into nested defs / lambdas / classes."""
    stack = list(fn.body)
    while stack:
        n = stack.pop()
        yield n
        for c in ast.iter_child_nodes(n):
            if isinstance(c, (ast.FunctionDef, ast.AsyncFunctionDef, ast.Lambda, ast.ClassDef)):
                continue
            stack.append(c)


def slice_calls(fn):
    """every call of slice_candles in the function, as (call node, second argument is `sequential`)"""
    out = []
    for n in _walk_own(fn):
        if not isinstance(n, ast.Call):
            continue
        f = n.func
        fname = f.id if isinstance(f, ast.Name) else f.attr if isinstance(f, ast.Attribute) else None
        if fname != "slice_candles":
            continue
        second = n.args[1] if len(n.args) >= 2 else None
        if second is None:
            for kw in n.keywords:
                if kw.arg == "sequential":
                    second = kw.value
        out.append((n, second is not None and _is_name(second, "sequential")))
    return out


def _result_names(fn, ntdefs):
    """Field names of the function's result, guessed from the returned constructor calls."""
    counts = {}
    tuple_arity = None
    for n in _walk_own(fn):
        if not isinstance(n, ast.Return) or n.value is None:
            continue
        vals = [n.value]
        if isinstance(n.value, ast.IfExp):
            vals = [n.value.body, n.value.orelse]
        for v in vals:
            if isinstance(v, ast.Call) and isinstance(v.func, ast.Name) and v.func.id in ntdefs:
                counts[v.func.id] = counts.get(v.func.id, 0) + 1
            elif isinstance(v, ast.Tuple):
                tuple_arity = len(v.elts)
    if counts:
        best = sorted(counts.items(), key=lambda kv: (-kv[1], kv[0]))[0][0]
        return list(ntdefs[best])
    if tuple_arity:
        return [str(i) for i in range(tuple_arity)]
    return ["value"]


def classify_function(fn, tree):
    """-> dict(hasSeq, slices, fields, slice_calls)"""
    params = [a.arg for a in fn.args.posonlyargs + fn.args.args + fn.args.kwonlyargs]
    has_seq = "sequential" in params
    calls = slice_calls(fn)
    info = {
        "hasSeq": has_seq,
        "slices": any(ok for _, ok in calls),
        "slice_calls": [_clean(ast.unparse(c)) for c, _ in calls],
        "fields": [],
    }
    if not has_seq:
        return info
    ntdefs = namedtuple_defs(tree)
    default_names = _result_names(fn, ntdefs)
    forms = collect_forms(fn.body)
    final = None
    for f in forms:
        # the final form: the return site that ends the function's top-level statement list
        if f.at_end and (f.stmts[-1] is fn.body[-1]):
            final = f
    if final is None:
        text = _clean(_unparse(fn.body[-1])) if fn.body else "empty body"
        fields = [(n, OTHER, "no final return: " + text) for n in default_names]
    else:
        fields = classify_form(final, ntdefs, default_names)
    for f in forms:
        if f is final:
            continue
        if not early_ok(f, ntdefs, default_names):
            fields.append(("early@%d" % f.lineno, OTHER, _clean(_unparse(f.stmts))))
    info["fields"] = fields
    return info


def public_names(ind_dir):
    """[(public name, module, original name)] from jesse/indicators/__init__.py, sorted by public name."""
    with open(os.path.join(ind_dir, "__init__.py"), encoding="utf-8") as fh:
        tree = ast.parse(fh.read())
    out = {}
    for s in tree.body:
        if isinstance(s, ast.ImportFrom) and s.level == 1 and s.module:
            for a in s.names:
                if a.name == "*":
                    continue
                out[a.asname or a.name] = (s.module.split(".")[0], a.name)
    return [(k, out[k][0], out[k][1]) for k in sorted(out)]


# --------------------------------------------------------------------------- ma.py tables

def _matype_keys(test):
    """[K...] for `matype == K` or `matype == a or matype == b ...`; None otherwise."""
    def one(t):
        if (isinstance(t, ast.Compare) and _is_name(t.left, "matype") and len(t.ops) == 1
                and isinstance(t.ops[0], ast.Eq) and isinstance(t.comparators[0], ast.Constant)
                and type(t.comparators[0].value) is int and t.comparators[0].value >= 0):
            return t.comparators[0].value
        return None
    if isinstance(test, ast.BoolOp) and isinstance(test.op, ast.Or):
        ks = [one(v) for v in test.values]
        return None if any(k is None for k in ks) else ks
    k = one(test)
    return None if k is None else [k]


def ma_tables(ind_dir):
    """-> (dispatch [(K, F, passesPeriod)], docstring [(K, name)], invalid [K], error or None)"""
    path = os.path.join(ind_dir, "ma.py")
    try:
        with open(path, encoding="utf-8") as fh:
            tree = ast.parse(fh.read())
    except (OSError, SyntaxError, ValueError) as exc:
        return [], [], [], "ma.py: %s" % exc
    fn = next((s for s in tree.body if isinstance(s, ast.FunctionDef) and s.name == "ma"), None)
    if fn is None:
        return [], [], [], "ma.py: no function ma"
    # docstring
    doc_rows = []
    for line in (ast.get_docstring(fn, clean=False) or "").splitlines():
        t = line.strip()
        i = 0
        while i < len(t) and t[i].isdigit() and t[i].isascii():
            i += 1
        if i == 0 or i >= len(t) or t[i] != ":":
            continue
        rest = t[i + 1:].lstrip()
        j = 0
        while j < len(rest) and rest[j].isascii() and (rest[j].isalnum() or rest[j] in "_\\"):
            j += 1
        if j == 0:
            continue
        doc_rows.append((int(t[:i]), rest[:j].replace("\\", "")))
    # dispatch chain
    chain = next((s for s in fn.body if isinstance(s, ast.If) and _matype_keys(s.test) is not None), None)
    if chain is None:
        return [], doc_rows, [], "ma.py: no `if matype == K` chain found"
    dispatch, invalid = [], []
    node = chain
    while node is not None:
        keys = _matype_keys(node.test)
        if keys is None:
            return [], doc_rows, [], "ma.py: unexpected test at line %d: %s" % (node.lineno, _clean(ast.unparse(node.test)))
        if all(isinstance(b, ast.Raise) for b in node.body):
            invalid.extend(keys)
        else:
            imported = set()
            call = None
            for b in node.body:
                if isinstance(b, ast.ImportFrom) and b.level == 1 and b.module is None:
                    imported |= {a.asname or a.name for a in b.names}
                if (isinstance(b, ast.Assign) and len(b.targets) == 1 and _is_name(b.targets[0], "res")
                        and isinstance(b.value, ast.Call) and call is None):
                    call = b.value
            passes = False
            if (call is not None and isinstance(call.func, ast.Name) and call.func.id in imported
                    and call.args and _is_name(call.args[0], "candles")):
                fname = call.func.id
                passes = (len(call.args) >= 2 and _is_name(call.args[1], "period")) or any(
                    kw.arg == "period" and _is_name(kw.value, "period") for kw in call.keywords)
            else:
                what = call if call is not None else node.body[0]
                fname = "?" + _clean(ast.unparse(what))
            for k in keys:
                dispatch.append((k, fname, passes))
        nxt = node.orelse
        if len(nxt) == 1 and isinstance(nxt[0], ast.If):
            node = nxt[0]
        elif not nxt:
            node = None
        else:
            return [], doc_rows, [], "ma.py: chain ends in a non-trivial else at line %d" % nxt[0].lineno
    if not dispatch:
        return [], doc_rows, [], "ma.py: empty dispatch chain"
    return sorted(dispatch), doc_rows, sorted(invalid), None


# --------------------------------------------------------------------------- analysis

def analyze(repo_root):
    """-> status dict (see module docstring); pure, writes nothing."""
    ind_dir = os.path.join(repo_root, "jesse", "indicators")
    entries, errors = {}, {}
    trees = {}
    try:
        publics = public_names(ind_dir)
    except (OSError, SyntaxError, ValueError) as exc:
        publics = []
        errors["__init__"] = "cannot parse __init__.py: %s" % exc
    for public, module, orig in publics:
        fname = module + ".py"
        reason = None
        info = None
        if module not in trees:
            try:
                with open(os.path.join(ind_dir, fname), encoding="utf-8") as fh:
                    trees[module] = ast.parse(fh.read())
            except (OSError, SyntaxError, ValueError) as exc:
                trees[module] = "%s: %s" % (type(exc).__name__, exc)
        tree = trees[module]
        if isinstance(tree, str):
            reason = "cannot parse %s: %s" % (fname, tree)
        else:
            fn = next((s for s in tree.body
                       if isinstance(s, (ast.FunctionDef, ast.AsyncFunctionDef)) and s.name == orig), None)
            if fn is None:
                reason = "no function %s in %s" % (orig, fname)
            else:
                try:
                    info = classify_function(fn, tree)
                except Exception as exc:  # conservative: never let one odd file kill the table
                    reason = "classifier failed: %s: %s" % (type(exc).__name__, exc)
        if reason is not None:
            errors[public] = reason
            info = {"hasSeq": False, "slices": False, "slice_calls": [],
                    "fields": [("value", OTHER, _clean("unparsed: " + reason))]}
        fields = [list(f) for f in info["fields"]]
        standard = bool(info["hasSeq"] and fields and all(f[1] in (STD, STDPAD) for f in fields))
        entries[public] = {
            "file": fname,
            "hasSeq": info["hasSeq"],
            "slices": info["slices"],
            "standard": standard,
            "fields": fields,
            "slice_calls": info["slice_calls"],
        }
    dispatch, doc_rows, invalid, ma_err = ma_tables(ind_dir)
    if ma_err:
        errors["ma:dispatch"] = ma_err
    names = sorted(entries)
    no_seq = [n for n in names if not entries[n]["hasSeq"] and n not in errors]
    nonstandard = [n for n in names if (entries[n]["hasSeq"] or n in errors) and not entries[n]["standard"]]
    no_slice = [n for n in names if entries[n]["hasSeq"] and not entries[n]["slices"]]
    allf = [f for n in names for f in entries[n]["fields"]]
    counts = {
        "total": len(names),
        "standard": sum(1 for n in names if entries[n]["standard"]),
        "standard_all_std": sum(1 for n in names if entries[n]["standard"]
                                and all(f[1] == STD for f in entries[n]["fields"])),
        "standard_with_stdpad": sum(1 for n in names if entries[n]["standard"]
                                    and any(f[1] == STDPAD for f in entries[n]["fields"])),
        "nonstandard": len(nonstandard),
        "nonstandard_with_idx": sum(1 for n in nonstandard if any(f[1] == IDX for f in entries[n]["fields"])),
        "nonstandard_with_other": sum(1 for n in nonstandard if any(f[1] == OTHER for f in entries[n]["fields"])),
        "no_sequential": len(no_seq),
        "no_slice": len(no_slice),
        "errors": len(errors),
        "fields_std": sum(1 for f in allf if f[1] == STD),
        "fields_stdpad": sum(1 for f in allf if f[1] == STDPAD),
        "fields_idx": sum(1 for f in allf if f[1] == IDX),
        "fields_other": sum(1 for f in allf if f[1] == OTHER),
        "ma_dispatch": len(dispatch),
        "ma_docstring": len(doc_rows),
        "ma_invalid": len(invalid),
    }
    return {
        "entries": entries,
        "nonstandard": nonstandard,
        "no_sequential": no_seq,
        "no_slice": no_slice,
        "errors": errors,
        "counts": counts,
        "ma": {
            "dispatch": [list(r) for r in dispatch],
            "docstring": [list(r) for r in doc_rows],
            "invalid": invalid,
        },
    }


# --------------------------------------------------------------------------- Lean rendering

def lean_str(s):
    out = ['"']
    for ch in s:
        if ch == "\\":
            out.append("\\\\")
        elif ch == '"':
            out.append('\\"')
        elif ch == "\n":
            out.append("\\n")
        elif ch == "\t":
            out.append("\\t")
        elif ch == "\r":
            out.append("\\r")
        elif ord(ch) < 32 or ord(ch) == 127:
            out.append("\\x%02x" % ord(ch))
        else:
            out.append(ch)
    out.append('"')
    return "".join(out)


def lean_bool(b):
    return "true" if b else "false"


def lean_shape(shape, detail):
    if shape == STD:
        return ".std"
    if shape == STDPAD:
        return ".stdpad"
    if shape == IDX:
        return ".idx " + lean_str(detail)
    return ".other " + lean_str(detail)


LEAN_PRELUDE = """/-
  GENERATED by /verif/py2lean/indwrappers.py from /repo/jesse/indicators — do not edit.
-/
namespace Jesse.Gen

inductive WShape where
  | std
  | stdpad
  | idx (expr : String)
  | other (what : String)
deriving DecidableEq, Repr

structure WEntry where
  name : String
  file : String
  hasSeq : Bool
  slices : Bool
  fields : List (String × WShape)
deriving DecidableEq, Repr

def WShape.isStd : WShape → Bool
  | .std => true
  | .stdpad => true
  | _ => false

def WEntry.standard (e : WEntry) : Bool := e.hasSeq && e.fields.all (fun f => f.2.isStd) && !e.fields.isEmpty

"""


def render_lean(status):
    lines = [LEAN_PRELUDE]
    lines.append("/-- one entry per public name of jesse/indicators/__init__.py, sorted by name -/\n")
    lines.append("def indWrappers : List WEntry := [\n")
    rows = []
    for name in sorted(status["entries"]):
        e = status["entries"][name]
        fields = ", ".join("(%s, %s)" % (lean_str(f[0]), lean_shape(f[1], f[2])) for f in e["fields"])
        rows.append("  { name := %s, file := %s, hasSeq := %s, slices := %s, fields := [%s] }" % (
            lean_str(name), lean_str(e["file"]), lean_bool(e["hasSeq"]), lean_bool(e["slices"]), fields))
    lines.append(",\n".join(rows))
    lines.append("\n]\n\n" if rows else "]\n\n")
    ma = status["ma"]
    lines.append("/-- `ma.py`: matype ↦ (function called, the call passes `period`) — from the if/elif chain of `ma` -/\n")
    lines.append("def maDispatch : List (Nat × String × Bool) := [%s]\n\n" % ", ".join(
        "(%d, %s, %s)" % (k, lean_str(f), lean_bool(p)) for k, f, p in ma["dispatch"]))
    lines.append("/-- `ma.py` docstring: the lines `<n>: <name> (…)` -/\n")
    lines.append("def maDocstring : List (Nat × String) := [%s]\n\n" % ", ".join(
        "(%d, %s)" % (k, lean_str(n)) for k, n in ma["docstring"]))
    lines.append("/-- matypes for which `ma` raises ValueError -/\n")
    lines.append("def maInvalid : List Nat := [%s]\n\n" % ", ".join(str(k) for k in ma["invalid"]))
    lines.append("end Jesse.Gen\n")
    return "".join(lines)


def _write_if_changed(path, content):
    try:
        with open(path, encoding="utf-8") as fh:
            if fh.read() == content:
                return False
    except OSError:
        pass
    os.makedirs(os.path.dirname(path) or ".", exist_ok=True)
    with open(path, "w", encoding="utf-8") as fh:
        fh.write(content)
    return True


def generate(repo_root, out_dir):
    """Analyse `repo_root`, write IndWrappers.lean and indwrappers_status.json into `out_dir`; -> status."""
    status = analyze(repo_root)
    _write_if_changed(os.path.join(out_dir, "IndWrappers.lean"), render_lean(status))
    _write_if_changed(os.path.join(out_dir, "indwrappers_status.json"),
                      json.dumps(status, indent=1, sort_keys=True, ensure_ascii=False) + "\n")
    return status


# --------------------------------------------------------------------------- baseline diff

def _shapes(fields):
    return [[f[0], f[1], f[2]] for f in fields]


def diff_against_baseline(repo_root, baseline_path=None):
    """
    Entries whose classification differs from the committed baseline:
    [{"name", "now", "baseline"}], where now/baseline are
    {"kind": "standard"|"nonstandard"|"no_sequential"|"absent", "slices": bool, "fields": [...]}
    (None-free; "absent" = not a public name on that side).
    """
    with open(baseline_path or BASELINE_PATH, encoding="utf-8") as fh:
        base = json.load(fh)
    status = analyze(repo_root)
    entries = status["entries"]

    def now_view(name):
        e = entries.get(name)
        if e is None:
            return {"kind": "absent", "slices": False, "fields": []}
        kind = "standard" if e["standard"] else "no_sequential" if name in status["no_sequential"] else "nonstandard"
        if kind == "no_sequential":   # nothing to slice by: `slices` is not tracked for these
            return {"kind": kind, "slices": False, "fields": []}
        return {"kind": kind, "slices": e["slices"], "fields": _shapes(e["fields"])}

    base_views = {}
    for name, fields in base.get("standard", {}).items():
        base_views[name] = {"kind": "standard", "slices": True, "fields": _shapes(fields)}
    for name, rec in base.get("nonstandard", {}).items():
        base_views[name] = {"kind": "nonstandard", "slices": True, "fields": _shapes(rec["fields"])}
    for name in base.get("no_sequential", []):
        base_views[name] = {"kind": "no_sequential", "slices": False, "fields": []}
    for name in base.get("no_slice", {}):
        if name in base_views:
            base_views[name]["slices"] = False

    out = []
    for name in sorted(set(base_views) | set(entries)):
        now = now_view(name)
        was = base_views.get(name, {"kind": "absent", "slices": False, "fields": []})
        if now != was:
            out.append({"name": name, "now": now, "baseline": was})
    base_ma = base.get("ma")
    if base_ma is not None and base_ma != status["ma"]:
        out.append({"name": "ma:tables", "now": status["ma"], "baseline": base_ma})
    for key, reason in sorted(status["errors"].items()):
        if key not in entries:
            out.append({"name": key, "now": {"kind": "error", "reason": reason}, "baseline": {"kind": "ok"}})
    return out


# --------------------------------------------------------------------------- CLI

def main(argv):
    if len(argv) == 3 and argv[1] == "--diff":
        diffs = diff_against_baseline(argv[2])
        print(json.dumps(diffs, indent=1, sort_keys=True, ensure_ascii=False))
        return 1 if diffs else 0
    if len(argv) == 3 and not argv[1].startswith("-"):
        status = generate(argv[1], argv[2])
        print(json.dumps({"counts": status["counts"], "nonstandard": status["nonstandard"],
                          "no_sequential": status["no_sequential"], "no_slice": status["no_slice"],
                          "errors": status["errors"]}, indent=1, sort_keys=True, ensure_ascii=False))
        return 0
    sys.stderr.write(__doc__)
    return 2


if __name__ == "__main__":
    sys.exit(main(sys.argv))
