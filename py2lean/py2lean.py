#!/usr/bin/env python3
"""
py2lean — regenerate the Lean definitions of jesse's pure decision/arithmetic kernels from the
Python source in /repo (DESIGN.md 2.4, Appendix A).  Stdlib only (ast).

Usage: py2lean.py <repo_root> <out_dir>        (out_dir = lean/Jesse/Gen)

For every entry of SPEC the function's AST is translated into one Lean `def`.  A function that
falls outside the supported subset is *not* silently skipped: it is listed in `<out_dir>/status.json`
with the reason, its `def` is omitted, and every proof that mentions it stops compiling — which the
check treats as a broken tie (search for a failing input, DESIGN 2.7).
"""
import ast
import hashlib
import json
import os
import sys
from fractions import Fraction


class TErr(Exception):
    pass


# ------------------------------------------------------------------------------------------------
# string constants -> enum constructors (fully qualified, so no type context is needed)
STR_ENUM = {
    'long': 'Jesse.PosType.long', 'short': 'Jesse.PosType.short', 'close': 'Jesse.PosType.close',
    'buy': 'Jesse.Side.buy', 'sell': 'Jesse.Side.sell',
    'MARKET': 'Jesse.OrderType.market', 'LIMIT': 'Jesse.OrderType.limit', 'STOP': 'Jesse.OrderType.stop',
    'isolated': 'Jesse.Gen.Mode.isolated', 'cross': 'Jesse.Gen.Mode.cross', 'spot': 'Jesse.Gen.Mode.spot',
    '1m': 'Jesse.Timeframe.m1', '3m': 'Jesse.Timeframe.m3', '5m': 'Jesse.Timeframe.m5',
    '15m': 'Jesse.Timeframe.m15', '30m': 'Jesse.Timeframe.m30', '45m': 'Jesse.Timeframe.m45',
    '1h': 'Jesse.Timeframe.h1', '2h': 'Jesse.Timeframe.h2', '3h': 'Jesse.Timeframe.h3',
    '4h': 'Jesse.Timeframe.h4', '6h': 'Jesse.Timeframe.h6', '8h': 'Jesse.Timeframe.h8',
    '12h': 'Jesse.Timeframe.h12', '1D': 'Jesse.Timeframe.d1', '3D': 'Jesse.Timeframe.d3',
    '1W': 'Jesse.Timeframe.w1', '1M': 'Jesse.Timeframe.mo1',
}
# attribute constants of jesse.enums, resolved from the repo's own enums module at run time
ENUM_CLASSES = ('timeframes', 'sides', 'trade_types', 'order_types')

CANDLE_FIELDS = {0: 'ts', 1: 'o', 2: 'c', 3: 'h', 4: 'l', 5: 'v'}

ERR_NAMES = {
    'ValueError': 'ValueError', 'TypeError': 'TypeError', 'IndexError': 'IndexError', 'KeyError': 'KeyError',
    'InsufficientMargin': 'InsufficientMargin', 'InsufficientBalance': 'InsufficientBalance',
    'OrderNotAllowed': 'OrderNotAllowed', 'InvalidStrategy': 'InvalidStrategy',
    'EmptyPosition': 'EmptyPosition', 'OpenPositionError': 'OpenPositionError',
    'InvalidTimeframe': 'InvalidTimeframe', 'NotImplementedError': 'NotImplemented', 'Exception': 'Other',
}


def rat_literal(v):
    """exact rational literal for a Python int/float constant (decimal reading of the literal)."""
    if isinstance(v, bool):
        raise TErr('bool literal in numeric position')
    if isinstance(v, int):
        return f'({v} : Rat)' if v >= 0 else f'(-{-v} : Rat)'
    fr = Fraction(repr(v))
    if fr.denominator == 1:
        return rat_literal(fr.numerator)
    s = f'({abs(fr.numerator)} / {fr.denominator} : Rat)'
    return s if fr >= 0 else f'(-{s})'


REGISTRY = {}


class Fn:
    """configuration of one translated function"""

    def __init__(self, file, name, lean, params, ret, kind='plain', self_map=None, call_ctor=None,
                 const_calls=None, body='function', loop_vars=None, doc='', local_types=None,
                 call_map=None, prop=False, subscript_fields=None, skip_params=None,
                 yield_assign=None, skip_assign=None):
        self.file = file            # path relative to the repo
        self.name = name            # 'f' or 'Class.f'
        self.lean = lean            # Lean name (inside namespace Jesse.Gen)
        self.params = params        # list of (python name or None, lean binder name, lean type)
        self.ret = ret              # lean return type *inside* the wrapper
        self.kind = kind            # plain | option | except
        self.self_map = self_map or {}      # 'attr.path' -> lean expr
        self.call_ctor = call_ctor or {}    # 'dotted.call' -> (ctor, [arg selectors])
        self.const_calls = const_calls or {}  # 'dotted.call' -> python constant
        self.body = body            # 'function' | 'for-body'
        self.loop_vars = loop_vars or {}
        self.doc = doc
        self.local_types = local_types or {}
        self.call_map = call_map or {}      # 'dotted.call' -> lean function name (translated callee)
        self.prop = prop            # Bool-valued function emitted as Prop + Decidable instance
        self.subscript_fields = subscript_fields or {}   # var -> {const -> lean expr}
        self.skip_params = skip_params or []
        self.yield_assign = yield_assign
        self.skip_assign = skip_assign or []


def dotted(node):
    if isinstance(node, ast.Name):
        return node.id
    if isinstance(node, ast.Attribute):
        b = dotted(node.value)
        return None if b is None else b + '.' + node.attr
    return None


class Translator:
    def __init__(self, fn: Fn, enums):
        self.fn = fn
        self.enums = enums
        self.types = {}
        for (py, ln, ty) in fn.params:
            if py is not None:
                self.types[py] = ty
        self.types.update(fn.local_types)
        self.bound = {}
        self.fresh = 0
        self.mutates = False

    # ---------------------------------------------------------------- expressions
    def const(self, v):
        if isinstance(v, str):
            if v in STR_ENUM:
                return STR_ENUM[v]
            raise TErr(f'unknown string constant {v!r}')
        if isinstance(v, bool):
            return 'True' if v else 'False'
        if isinstance(v, (int, float)):
            return rat_literal(v)
        if v is None:
            raise TErr('None in expression position')
        raise TErr(f'constant {v!r}')

    def expr(self, n, env):
        f = self.fn
        if isinstance(n, ast.Constant):
            return self.const(n.value)
        if isinstance(n, ast.Name):
            if n.id in env:
                return env[n.id]
            raise TErr(f'unbound name {n.id}')
        if isinstance(n, ast.Attribute):
            d = dotted(n)
            if d is not None:
                if d in f.self_map:
                    return f.self_map[d]
                parts = d.split('.')
                if len(parts) == 2 and parts[0] in ENUM_CLASSES:
                    val = self.enums.get(parts[0], {}).get(parts[1])
                    if val is None:
                        raise TErr(f'unknown enum member {d}')
                    return self.const(val)
                if d == 'np.nan':
                    raise TErr('np.nan in expression position')
            raise TErr(f'attribute {ast.unparse(n)}')
        if isinstance(n, ast.BinOp):
            if isinstance(n.op, ast.Pow):
                base = n.left
                if isinstance(base, ast.Constant) and base.value == 10:
                    return f'(Jesse.pow10 ({self.int_expr(n.right, env)}))'
                raise TErr('power with base other than 10')
            a, b = self.expr(n.left, env), self.expr(n.right, env)
            op = {ast.Add: '+', ast.Sub: '-', ast.Mult: '*', ast.Div: '/'}.get(type(n.op))
            if op is None:
                raise TErr(f'binary operator {type(n.op).__name__}')
            return f'({a} {op} {b})'
        if isinstance(n, ast.UnaryOp):
            if isinstance(n.op, ast.USub):
                if isinstance(n.operand, ast.Constant) and isinstance(n.operand.value, (int, float)):
                    return self.const(-n.operand.value)
                return f'(-{self.expr(n.operand, env)})'
            if isinstance(n.op, ast.Not):
                return self.cond(n, env)
            raise TErr('unary operator')
        if isinstance(n, ast.IfExp):
            return f'(if {self.cond(n.test, env)} then {self.expr(n.body, env)} else {self.expr(n.orelse, env)})'
        if isinstance(n, ast.Subscript):
            return self.subscript(n, env)
        if isinstance(n, ast.Call):
            return self.call(n, env)
        if isinstance(n, ast.Tuple):
            return '(' + ', '.join(self.expr(e, env) for e in n.elts) + ')'
        if isinstance(n, (ast.Compare, ast.BoolOp)):
            return self.cond(n, env)
        raise TErr(f'expression {type(n).__name__}: {ast.unparse(n)}')

    def is_int(self, n):
        if isinstance(n, ast.Name):
            return self.types.get(n.id) == 'Int'
        if isinstance(n, ast.BinOp) and isinstance(n.op, (ast.Mult, ast.Add, ast.Sub)):
            return (self.is_int(n.left) and (self.is_int(n.right) or self.is_intlit(n.right))) or \
                   (self.is_intlit(n.left) and self.is_int(n.right))
        if isinstance(n, ast.UnaryOp) and isinstance(n.op, ast.USub):
            return self.is_int(n.operand)
        return False

    def is_intlit(self, n):
        if isinstance(n, ast.Constant) and isinstance(n.value, int) and not isinstance(n.value, bool):
            return True
        if isinstance(n, ast.UnaryOp) and isinstance(n.op, ast.USub):
            return self.is_intlit(n.operand)
        return False

    def int_expr(self, n, env):
        """an expression of Lean type Int (exponents)"""
        if isinstance(n, ast.Constant) and isinstance(n.value, int) and not isinstance(n.value, bool):
            return f'({n.value} : Int)'
        if isinstance(n, ast.Name) and self.types.get(n.id) == 'Int':
            return env[n.id]
        if isinstance(n, ast.BinOp) and isinstance(n.op, (ast.Mult, ast.Add, ast.Sub)):
            o = {ast.Mult: '*', ast.Add: '+', ast.Sub: '-'}[type(n.op)]
            return f'({self.int_expr(n.left, env)} {o} {self.int_expr(n.right, env)})'
        if isinstance(n, ast.UnaryOp) and isinstance(n.op, ast.USub):
            return f'(-{self.int_expr(n.operand, env)})'
        raise TErr(f'non-integer exponent {ast.unparse(n)}')

    def subscript(self, n, env):
        f = self.fn
        # candles[:, k].max() handled in call(); here: x[k] with constant k
        base = n.value
        idx = n.slice
        if isinstance(base, ast.Name) and base.id in f.subscript_fields:
            key = idx.value if isinstance(idx, ast.Constant) else None
            m = f.subscript_fields[base.id]
            if key in m:
                return m[key]
            raise TErr(f'subscript {ast.unparse(n)}')
        if isinstance(base, ast.Name) and self.types.get(base.id) == 'Jesse.Candle':
            if isinstance(idx, ast.Constant) and idx.value in CANDLE_FIELDS:
                fld = CANDLE_FIELDS[idx.value]
                e = f'{env[base.id]}.{fld}'
                return e
            raise TErr(f'candle subscript {ast.unparse(n)}')
        # candles[0][k] / candles[-1][k] on a non-empty list of candles
        if isinstance(base, ast.Subscript) and isinstance(base.value, ast.Name) \
                and self.types.get(base.value.id) == 'List Jesse.Candle':
            i = base.slice
            iv = None
            if isinstance(i, ast.Constant):
                iv = i.value
            elif isinstance(i, ast.UnaryOp) and isinstance(i.op, ast.USub) and isinstance(i.operand, ast.Constant):
                iv = -i.operand.value
            if iv in (0, -1) and isinstance(idx, ast.Constant) and idx.value in CANDLE_FIELDS:
                acc = 'Jesse.Gen.firstRow' if iv == 0 else 'Jesse.Gen.lastRow'
                return f'({acc} {env[base.value.id]}).{CANDLE_FIELDS[idx.value]}'
        raise TErr(f'subscript {ast.unparse(n)}')

    def call_args(self, n, lean_name, env):
        """positional + keyword arguments of a call to a translated callee, in the callee's order"""
        out = [self.expr(a, env) for a in n.args]
        if n.keywords:
            order = REGISTRY.get(lean_name)
            if order is None:
                raise TErr(f'keyword arguments to {lean_name} whose parameter list is unknown')
            names = order[len(n.args):]
            kws = {k.arg: k.value for k in n.keywords}
            for nm in names:
                if nm in kws:
                    out.append(self.expr(kws.pop(nm), env))
                else:
                    raise TErr(f'argument {nm} of {lean_name} not supplied (defaults are not translated)')
            if kws:
                raise TErr(f'unexpected keyword {list(kws)} for {lean_name}')
        else:
            order = REGISTRY.get(lean_name)
            if order is not None and len(out) != len(order):
                raise TErr(f'{lean_name} called with {len(out)} arguments, expects {len(order)} (defaults are not translated)')
        return ''.join(' ' + o for o in out)

    def hoist(self, nodes, env):
        binds = []

        def visit(n):
            for ch in ast.iter_child_nodes(n):
                visit(ch)
            if isinstance(n, ast.Call):
                d = dotted(n.func)
                tgt = self.fn.call_map.get(d) if d else None
                if tgt and tgt.startswith('?'):
                    if self.fn.kind not in ('except', 'exceptoption'):
                        raise TErr(f'call to raising function {d} from a non-raising function')
                    a = self.call_args(n, tgt[1:], env)
                    self.fresh += 1
                    v = f'v{self.fresh}'
                    self.bound[id(n)] = v
                    binds.append((v, '(' + tgt[1:] + a + ')'))
        for n in nodes:
            if n is not None:
                visit(n)
        return binds

    @staticmethod
    def wrap_binds(binds, inner):
        for v, c in reversed(binds):
            inner = f'(match {c} with | .error e => .error e | .ok {v} => {inner})'
        return inner

    def call(self, n, env):
        f = self.fn
        if id(n) in self.bound:
            return self.bound[id(n)]
        d = dotted(n.func)
        # column reductions candles[:, k].max()
        if isinstance(n.func, ast.Attribute) and n.func.attr in ('max', 'min', 'sum') \
                and isinstance(n.func.value, ast.Subscript):
            sub = n.func.value
            if isinstance(sub.value, ast.Name) and self.types.get(sub.value.id) == 'List Jesse.Candle' \
                    and isinstance(sub.slice, ast.Tuple) and len(sub.slice.elts) == 2 \
                    and isinstance(sub.slice.elts[0], ast.Slice) and sub.slice.elts[0].lower is None \
                    and sub.slice.elts[0].upper is None and isinstance(sub.slice.elts[1], ast.Constant) \
                    and sub.slice.elts[1].value in CANDLE_FIELDS:
                fld = CANDLE_FIELDS[sub.slice.elts[1].value]
                red = {'max': 'Jesse.Gen.colMax', 'min': 'Jesse.Gen.colMin', 'sum': 'Jesse.Gen.colSum'}[n.func.attr]
                return f'({red} ({env[sub.value.id]}.map (·.{fld})))'
            raise TErr(f'reduction {ast.unparse(n)}')
        if d is None:
            raise TErr(f'call {ast.unparse(n)}')
        if d in f.const_calls:
            return self.const(f.const_calls[d])
        if n.keywords and d not in f.call_ctor and d not in f.call_map:
            raise TErr(f'keyword arguments in {ast.unparse(n)}')
        args = n.args
        if d == 'abs' and len(args) == 1:
            return f'(Jesse.absR {self.expr(args[0], env)})'
        if d == 'min' and len(args) == 2:
            return f'(Jesse.minR {self.expr(args[0], env)} {self.expr(args[1], env)})'
        if d == 'max' and len(args) == 2:
            return f'(Jesse.maxR {self.expr(args[0], env)} {self.expr(args[1], env)})'
        if d in ('math.floor', 'np.floor') and len(args) == 1:
            return f'(Jesse.floorR {self.expr(args[0], env)})'
        if d == 'int' and len(args) == 1 and isinstance(args[0], ast.Call) and dotted(args[0].func) == 'round' \
                and len(args[0].args) == 1:
            return f'((Jesse.roundHalfEven {self.expr(args[0].args[0], env)} : Int) : Rat)'
        if d == 'ord' and len(args) == 1 and isinstance(args[0], ast.Name) and self.types.get(args[0].id) == 'Nat':
            return f'(({env[args[0].id]} : Nat) : Rat)'
        if d == 'np.array' and len(args) == 1 and isinstance(args[0], ast.List) and len(args[0].elts) == 6:
            es = args[0].elts
            ts = self.ts_expr(es[0], env)
            rest = ' '.join(self.expr(e, env) for e in es[1:])
            return f'(Jesse.Candle.mk {ts} {rest})'
        if d in f.call_ctor:
            ctor, sel = f.call_ctor[d]
            out = []
            for s in sel:
                if isinstance(s, int):
                    if s >= len(args):
                        raise TErr(f'missing positional argument {s} in {ast.unparse(n)}')
                    out.append(self.expr(args[s], env))
                else:   # keyword
                    kw = [k for k in n.keywords if k.arg == s]
                    if len(kw) != 1:
                        raise TErr(f'missing keyword {s} in {ast.unparse(n)}')
                    out.append(self.expr(kw[0].value, env))
            return '(' + ctor + ''.join(' ' + o for o in out) + ')'
        if d in f.call_map:
            tgt = f.call_map[d]
            if tgt.startswith('?') or tgt.startswith('!'):
                raise TErr(f'raising call {d} in a position that is not hoisted')
            return '(' + tgt + self.call_args(n, tgt, env) + ')'
        raise TErr(f'call to untranslated function {d}')

    def ts_expr(self, n, env):
        # timestamp slot of np.array([...]): either a name bound to candle.ts or candle[0]
        e = self.expr(n, env)
        return e

    # ---------------------------------------------------------------- conditions (Prop)
    def cond(self, n, env):
        if isinstance(n, ast.BoolOp):
            vals = [self.cond(v, env) for v in n.values]
            if isinstance(n.op, ast.And):
                if 'False' in vals:
                    return 'False'
                vals = [v for v in vals if v != 'True'] or ['True']
                return vals[0] if len(vals) == 1 else '(' + ' ∧ '.join(vals) + ')'
            if 'True' in vals:
                return 'True'
            vals = [v for v in vals if v != 'False'] or ['False']
            return vals[0] if len(vals) == 1 else '(' + ' ∨ '.join(vals) + ')'
        if isinstance(n, ast.UnaryOp) and isinstance(n.op, ast.Not):
            c = self.cond(n.operand, env)
            if c == 'True':
                return 'False'
            if c == 'False':
                return 'True'
            return f'(¬ {c})'
        if isinstance(n, ast.Compare):
            parts = []
            left = n.left
            for op, right in zip(n.ops, n.comparators):
                parts.append(self.compare(left, op, right, env))
                left = right
            return parts[0] if len(parts) == 1 else '(' + ' ∧ '.join(parts) + ')'
        if isinstance(n, ast.Constant) and isinstance(n.value, bool):
            return 'True' if n.value else 'False'
        if isinstance(n, ast.Call):
            d = dotted(n.func)
            if d in self.fn.const_calls:
                v = self.fn.const_calls[d]
                if isinstance(v, bool):
                    return 'True' if v else 'False'
            return self.call(n, env)
        if isinstance(n, ast.Attribute):
            d = dotted(n)
            if d in self.fn.self_map:
                return self.fn.self_map[d]
        if isinstance(n, ast.Name) and self.types.get(n.id) == 'Prop':
            return env[n.id]
        raise TErr(f'condition {ast.unparse(n)} (Python truthiness is not translated)')

    def compare(self, a, op, b, env):
        if isinstance(op, (ast.Is, ast.IsNot)):
            # `h['type'] is int`
            key = ast.unparse(a) + ' is ' + ast.unparse(b)
            if key in self.fn.self_map:
                r = self.fn.self_map[key]
                return r if isinstance(op, ast.Is) else f'(¬ {r})'
            raise TErr(f'identity test {ast.unparse(a)} is {ast.unparse(b)}')
        if isinstance(op, (ast.In, ast.NotIn)):
            if isinstance(b, (ast.List, ast.Tuple)):
                xs = '[' + ', '.join(self.expr(e, env) for e in b.elts) + ']'
            else:
                xs = self.expr(b, env)
            r = f'({self.expr(a, env)} ∈ {xs})'
            return r if isinstance(op, ast.In) else f'(¬ {r})'
        sym = {ast.Lt: '<', ast.LtE: '≤', ast.Gt: '>', ast.GtE: '≥', ast.Eq: '=', ast.NotEq: '≠'}.get(type(op))
        if sym is None:
            raise TErr('comparison operator')
        if self.is_int(a) or self.is_int(b):
            return f'({self.int_expr(a, env)} {sym} {self.int_expr(b, env)})'
        return f'({self.expr(a, env)} {sym} {self.expr(b, env)})'

    # ---------------------------------------------------------------- statements
    def ret_wrap(self, e):
        k = self.fn.kind
        if k == 'plain':
            return e
        if k == 'option':
            return f'some {e}'
        if k == 'exceptoption':
            return f'.ok (some {e})'
        return f'.ok {e}'

    def fallthrough(self):
        k = self.fn.kind
        if k == 'option':
            return 'none'
        if k == 'exceptoption':
            return '.ok none'
        if self.fn.ret == 'Unit' and k == 'except':
            return '.ok ()'
        if k == 'except':
            return '.error Jesse.Err.Other'      # Python would return None here (recorded in SEMANTICS.md)
        raise TErr('control reaches the end of the function without a return')

    def is_const_false(self, test):
        if isinstance(test, ast.Call):
            d = dotted(test.func)
            if d in self.fn.const_calls and self.fn.const_calls[d] is False:
                return True
        if isinstance(test, ast.UnaryOp) and isinstance(test.op, ast.Not):
            return self.is_const_true(test.operand)
        return False

    def is_const_true(self, test):
        if isinstance(test, ast.Call):
            d = dotted(test.func)
            if d in self.fn.const_calls and self.fn.const_calls[d] is True:
                return True
        if isinstance(test, ast.UnaryOp) and isinstance(test.op, ast.Not):
            return self.is_const_false(test.operand)
        return False

    def block(self, stmts, env, depth=0):
        if depth > 60:
            raise TErr('nesting too deep')
        if not stmts:
            return self.fallthrough()
        s, rest = stmts[0], stmts[1:]
        if isinstance(s, ast.Expr):
            if isinstance(s.value, ast.Constant) and isinstance(s.value.value, str):
                return self.block(rest, env, depth)          # docstring
            if isinstance(s.value, ast.Call):
                d = dotted(s.value.func)
                if d in self.fn.call_ctor:                     # action call: terminal
                    if rest:
                        raise TErr('statements after an action call')
                    return self.ret_wrap(self.call(s.value, env))
                if d in self.fn.call_map and self.fn.call_map[d].startswith('!'):
                    # validation call: `self._validate_qty(qty)` ↦ bind
                    fnm = self.fn.call_map[d][1:]
                    a = ''.join(' ' + self.expr(x, env) for x in s.value.args)
                    return f'(match ({fnm}{a}) with | .error e => .error e | .ok _ => {self.block(rest, env, depth + 1)})'
                if d in ('logger.info',):
                    return self.block(rest, env, depth)
            raise TErr(f'expression statement {ast.unparse(s)}')
        if isinstance(s, (ast.Import, ast.ImportFrom, ast.Pass)):
            return self.block(rest, env, depth)
        if isinstance(s, ast.Return):
            if s.value is None or (isinstance(s.value, ast.Constant) and s.value.value is None):
                return self.fallthrough()
            if isinstance(s.value, ast.Attribute) and dotted(s.value) == 'np.nan':
                if self.fn.kind == 'option':
                    return 'none'
                if self.fn.kind == 'exceptoption':
                    return '.ok none'
                raise TErr('np.nan returned from a non-optional function')
            if self.fn.prop:
                return self.cond(s.value, env)
            binds = self.hoist([s.value], env)
            return self.wrap_binds(binds, self.ret_wrap(self.expr(s.value, env)))
        if isinstance(s, ast.Raise):
            if self.fn.kind not in ('except', 'exceptoption'):
                raise TErr('raise in a function not declared as raising')
            exc = s.exc
            nm = None
            if isinstance(exc, ast.Call):
                nm = dotted(exc.func)
            elif exc is not None:
                nm = dotted(exc)
            if nm is None:
                raise TErr('bare raise')
            nm = nm.split('.')[-1]
            if nm not in ERR_NAMES:
                raise TErr(f'unknown exception class {nm}')
            return f'.error Jesse.Err.{ERR_NAMES[nm]}'
        if isinstance(s, ast.Assign):
            if len(s.targets) == 1 and isinstance(s.targets[0], ast.Subscript) \
                    and isinstance(s.targets[0].value, ast.Name) and s.targets[0].value.id == self.fn.yield_assign:
                # `hp[h['name']] = decoded_gene` : the loop body's result
                binds = self.hoist([s.value], env)
                return self.wrap_binds(binds, self.ret_wrap(self.expr(s.value, env)))
            if len(s.targets) == 1 and isinstance(s.targets[0], ast.Subscript) \
                    and isinstance(s.targets[0].value, ast.Name) \
                    and self.types.get(s.targets[0].value.id) == 'Jesse.Candle' \
                    and isinstance(s.targets[0].slice, ast.Constant) and s.targets[0].slice.value in CANDLE_FIELDS:
                # in-place mutation of a candle row: functional update (the callee mutates its argument)
                nm = s.targets[0].value.id
                fld = CANDLE_FIELDS[s.targets[0].slice.value]
                env2 = dict(env)
                env2[nm] = f'({{ {env[nm]} with {fld} := {self.expr(s.value, env)} }})'
                self.mutates = True
                return self.block(rest, env2, depth)
            if len(s.targets) != 1 or not isinstance(s.targets[0], ast.Name):
                raise TErr(f'assignment target {ast.unparse(s)}')
            if s.targets[0].id in self.fn.skip_assign:
                return self.block(rest, env, depth)
            binds = self.hoist([s.value], env)
            env2 = dict(env)
            env2[s.targets[0].id] = self.expr(s.value, env)
            return self.wrap_binds(binds, self.block(rest, env2, depth))
        if isinstance(s, ast.AugAssign):
            if not isinstance(s.target, ast.Name):
                raise TErr('augmented assignment target')
            op = {ast.Add: '+', ast.Sub: '-', ast.Mult: '*', ast.Div: '/'}.get(type(s.op))
            if op is None:
                raise TErr('augmented operator')
            binds = self.hoist([s.value], env)
            env2 = dict(env)
            env2[s.target.id] = f'({env[s.target.id]} {op} {self.expr(s.value, env)})'
            return self.wrap_binds(binds, self.block(rest, env2, depth))
        if isinstance(s, ast.If):
            if self.is_const_false(s.test):
                return self.block(list(s.orelse) + rest, env, depth)
            if self.is_const_true(s.test):
                return self.block(list(s.body) + rest, env, depth)
            binds = self.hoist([s.test], env)
            if binds:
                c = self.cond(s.test, env)
                t = self.block(list(s.body) + rest, env, depth + 1)
                e = self.block(list(s.orelse) + rest, env, depth + 1)
                return self.wrap_binds(binds, f'(if {c} then {t} else {e})')
            c = self.cond(s.test, env)
            if c == 'False':
                return self.block(list(s.orelse) + rest, env, depth)
            if c == 'True':
                return self.block(list(s.body) + rest, env, depth)
            # assignments-only branches: merge the environment instead of duplicating the rest
            merged = self.try_merge(s, env)
            if merged is not None:
                return self.block(rest, merged, depth)
            t = self.block(list(s.body) + rest, env, depth + 1)
            e = self.block(list(s.orelse) + rest, env, depth + 1)
            return f'(if {c} then {t} else {e})'
        raise TErr(f'statement {type(s).__name__}')

    def try_merge(self, s, env):
        def assigns_only(body):
            return all(isinstance(x, (ast.Assign, ast.AugAssign)) for x in body)
        if not (assigns_only(s.body) and assigns_only(s.orelse)):
            return None
        for x in list(s.body) + list(s.orelse):
            for c0 in ast.walk(x):
                if isinstance(c0, ast.Call):
                    d0 = dotted(c0.func)
                    if d0 and self.fn.call_map.get(d0, '').startswith('?'):
                        return None
            if isinstance(x, ast.Assign) and not (len(x.targets) == 1 and isinstance(x.targets[0], ast.Name)):
                return None
        c = self.cond(s.test, env)

        def run(body):
            e = dict(env)
            for x in body:
                if isinstance(x, ast.Assign):
                    if len(x.targets) != 1 or not isinstance(x.targets[0], ast.Name):
                        raise TErr('assignment target')
                    e[x.targets[0].id] = self.expr(x.value, e)
                else:
                    op = {ast.Add: '+', ast.Sub: '-', ast.Mult: '*', ast.Div: '/'}[type(x.op)]
                    e[x.target.id] = f'({e[x.target.id]} {op} {self.expr(x.value, e)})'
            return e
        e1, e2 = run(s.body), run(s.orelse)
        out = dict(env)
        for k in set(e1) | set(e2):
            a, b = e1.get(k), e2.get(k)
            if a == b:
                out[k] = a
            else:
                if a is None or b is None:
                    raise TErr(f'variable {k} assigned in one branch only and not before')
                out[k] = f'(if {c} then {a} else {b})'
        return out

    # ---------------------------------------------------------------- whole function
    def translate(self, fdef):
        f = self.fn
        env = {}
        pyparams = [a.arg for a in fdef.args.args]
        want = [p for (p, _, _) in f.params if p is not None]
        have = [p for p in pyparams if p != 'self' and p not in f.skip_params]
        if f.body == 'function' and want != have:
            raise TErr(f'parameter list changed: expected {want}, found {have}')
        for (py, ln, ty) in f.params:
            if py is not None:
                env[py] = ln
        env.update(f.loop_vars)
        body = fdef.body
        if f.body == 'for-body':
            loops = [s for s in body if isinstance(s, ast.For)]
            if len(loops) != 1:
                raise TErr('expected exactly one for loop')
            pre = body[:body.index(loops[0])]
            # statements before the loop are processed for their assignments
            # (constant-folded `if jh.is_livetrading()` etc.)
            body = [s for s in pre] + list(loops[0].body)
            if f.kind == 'except' and f.ret != 'Unit':
                pass
        binders = ' '.join((f'({ln} : Prop) [Decidable {ln}]' if ty == 'Prop' else f'({ln} : {ty})')
                           for (_, ln, ty) in f.params)
        e = self.block(body, env)
        if f.prop:
            rt = 'Prop'
        elif f.kind == 'plain':
            rt = f.ret
        elif f.kind == 'option':
            rt = f'Option ({f.ret})'
        elif f.kind == 'exceptoption':
            rt = f'Except Jesse.Err (Option ({f.ret}))'
        else:
            rt = f'Except Jesse.Err ({f.ret})'
        out = f'def {f.lean} {binders} : {rt} :=\n  {e}\n'
        if f.prop:
            names = ' '.join(ln for (_, ln, _) in f.params)
            out += f'\ninstance {f.lean}.dec {binders} : Decidable ({f.lean} {names}) := by\n  unfold {f.lean}; infer_instance\n'
        return out


def find_def(tree, name):
    parts = name.split('.')
    body = tree.body
    node = None
    for p in parts:
        node = None
        for s in body:
            if isinstance(s, (ast.FunctionDef, ast.ClassDef)) and s.name == p:
                node = s
                break
        if node is None:
            return None
        body = node.body
    return node


def ast_hash(node):
    return hashlib.sha256(ast.dump(node, annotate_fields=False).encode()).hexdigest()[:16]


def load_enums(repo):
    """read jesse/enums/__init__.py statically: class -> {NAME: 'value'}"""
    out = {}
    path = os.path.join(repo, 'jesse/enums/__init__.py')
    tree = ast.parse(open(path).read())
    for s in tree.body:
        if isinstance(s, ast.ClassDef):
            d = {}
            for x in s.body:
                if isinstance(x, ast.Assign) and len(x.targets) == 1 and isinstance(x.targets[0], ast.Name) \
                        and isinstance(x.value, ast.Constant):
                    d[x.targets[0].id] = x.value.value
            out[s.name] = d
    return out


def translate_dict_table(repo, file, func, lean, valty, enums, doc):
    """a function whose body contains `dic = {timeframes.X: value, ...}`: emit the table as an
    association list over Timeframe (value Nat or Timeframe)."""
    tree = ast.parse(open(os.path.join(repo, file)).read())
    if func.startswith('module:'):
        fd = None
        for s in tree.body:
            if isinstance(s, ast.Assign) and len(s.targets) == 1 and isinstance(s.targets[0], ast.Name) \
                    and s.targets[0].id == func[7:] and isinstance(s.value, ast.Dict):
                fd = s
    else:
        fd = find_def(tree, func)
    if fd is None:
        raise TErr(f'{func} not found')
    dic = None
    for s in ast.walk(fd):
        if isinstance(s, ast.Assign) and isinstance(s.value, ast.Dict):
            dic = s.value
    if dic is None:
        raise TErr('no dict literal')
    rows = []
    tr = Translator(Fn(file, func, lean, [], valty), enums)

    def nat(n):
        v = eval(compile(ast.Expression(n), '<tbl>', 'eval'), {'__builtins__': {}}, {})
        if not isinstance(v, int) or v < 0:
            raise TErr('table value is not a natural number')
        return str(v)
    for k, v in zip(dic.keys, dic.values):
        ke = tr.expr(k, {})
        ve = nat(v) if valty == 'Nat' else tr.expr(v, {})
        rows.append(f'({ke}, {ve})')
    txt = f'/-- {doc} ({file}:{fd.lineno}, ast {ast_hash(fd)}) -/\n'
    txt += f'def {lean} : List (Jesse.Timeframe × {valty if valty == "Nat" else "Jesse.Timeframe"}) :=\n  [' + ',\n   '.join(rows) + ']\n'
    return txt


PRELUDE = '''/-
  GENERATED by /verif/py2lean/py2lean.py from /repo — do not edit.
  Regenerated at the start of every check; the proofs in Proofs/ are re-checked against it.
-/
import Jesse.Basic
import Jesse.Py

namespace Jesse.Gen

inductive Mode where | isolated | cross | spot
deriving DecidableEq, Repr, Inhabited

/-- what a Position property can read (backtest mode: `_min_qty = 0`, not live) -/
structure PosView where
  qty : Rat
  entry : Rat
  current : Rat
  leverage : Rat
  mode : Mode
  hasStrategy : Prop
  [dec : Decidable hasStrategy]

instance (p : PosView) : Decidable p.hasStrategy := p.dec

/-- calls a strategy makes on its broker (the decision of `_submit_buy_orders` etc.) -/
inductive BrokerCall where
  | buyAtMarket (qty : Rat)
  | sellAtMarket (qty : Rat)
  | buyAt (qty price : Rat)
  | sellAt (qty price : Rat)
  | startProfitAt (side : Jesse.Side) (qty price : Rat)
deriving DecidableEq, Repr

/-- calls the broker makes on the exchange API: type, qty, price, side, reduce_only -/
structure ApiCall where
  type : Jesse.OrderType
  qty : Rat
  price : Rat
  side : Jesse.Side
  reduceOnly : Prop
  [dec : Decidable reduceOnly]

instance (a : ApiCall) : Decidable a.reduceOnly := a.dec

def ApiCall.market (qty price : Rat) (side : Jesse.Side) (ro : Prop) [Decidable ro] : ApiCall :=
  { type := .market, qty := qty, price := price, side := side, reduceOnly := ro }
def ApiCall.limit (qty price : Rat) (side : Jesse.Side) (ro : Prop) [Decidable ro] : ApiCall :=
  { type := .limit, qty := qty, price := price, side := side, reduceOnly := ro }
def ApiCall.stop (qty price : Rat) (side : Jesse.Side) (ro : Prop) [Decidable ro] : ApiCall :=
  { type := .stop, qty := qty, price := price, side := side, reduceOnly := ro }

inductive HpType where | int | float | other
deriving DecidableEq, Repr, Inhabited

structure HpDecl where
  type : HpType
  min : Rat
  max : Rat
deriving Repr

def firstRow (cs : List Jesse.Candle) : Jesse.Candle :=
  match cs with | [] => default | c :: _ => c
def lastRow (cs : List Jesse.Candle) : Jesse.Candle :=
  match cs.getLast? with | none => default | some c => c
def colMax (xs : List Rat) : Rat := (Py.colMax xs).getD 0
def colMin (xs : List Rat) : Rat := (Py.colMin xs).getD 0
def colSum (xs : List Rat) : Rat := Py.colSum xs

'''


def build_spec():
    C = 'Jesse.Candle'
    candle = 'jesse/services/candle.py'
    helpers = 'jesse/helpers.py'
    utils = 'jesse/utils.py'
    pos = 'jesse/models/Position.py'
    strat = 'jesse/strategies/Strategy.py'
    broker = 'jesse/services/broker.py'
    not_live = {'jh.is_livetrading': False, 'jh.is_live': False}
    posmap = {
        'self.qty': 'p.qty', 'self._min_qty': '(0 : Rat)', 'self.entry_price': 'p.entry',
        'self.current_price': 'p.current', 'self.mode': 'p.mode', 'self.leverage': 'p.leverage',
        'self.is_long': '(isLong p)', 'self.is_short': '(isShort p)', 'self.is_close': '(isClose p)',
        'self.is_open': '(isOpen p)', 'self.type': '(posType p)',
        'self._initial_margin_rate': '(initialMarginRate p)', 'self.strategy': 'p.hasStrategy',
    }
    api_ctor = {
        'self.api.market_order': ('ApiCall.market', [2, 3, 4, 'reduce_only']),
        'self.api.limit_order': ('ApiCall.limit', [2, 3, 4, 'reduce_only']),
        'self.api.stop_order': ('ApiCall.stop', [2, 3, 4, 'reduce_only']),
    }
    broker_ctor = {
        'self.broker.buy_at_market': ('BrokerCall.buyAtMarket', [0]),
        'self.broker.sell_at_market': ('BrokerCall.sellAtMarket', [0]),
        'self.broker.buy_at': ('BrokerCall.buyAt', [0, 1]),
        'self.broker.sell_at': ('BrokerCall.sellAt', [0, 1]),
        'self.broker.start_profit_at': ('BrokerCall.startProfitAt', [0, 1, 2]),
    }
    brk_self = {'self.position.current_price': 'cur', 'self.position.is_close': '(posT = Jesse.PosType.close)',
                'self.position.type': 'posT'}
    brk_calls = {'self._validate_qty': '!validateQty', 'jh.is_price_near': 'isPriceNearD',
                 'jh.opposite_side': '?oppositeSide', 'jh.type_to_side': '?typeToSide'}
    S = []
    # ---- Gen/CandleSvc
    S.append(('CandleSvc', [
        Fn(candle, 'is_bullish', 'isBullish', [('candle', 'candle', C)], 'Prop', prop=True),
        Fn(candle, 'is_bearish', 'isBearish', [('candle', 'candle', C)], 'Prop', prop=True),
        Fn(candle, 'candle_includes_price', 'candleIncludesPrice',
           [('candle', 'candle', C), ('price', 'price', 'Rat')], 'Prop', prop=True),
        Fn(candle, 'split_candle', 'splitCandle', [('candle', 'candle', C), ('price', 'price', 'Rat')],
           f'{C} × {C}', kind='option', call_map={'is_bullish': 'isBullish', 'is_bearish': 'isBearish'}),
        Fn(candle, 'generate_candle_from_one_minutes', 'generateCandle',
           [('timeframe', 'tfMinutes', 'Nat'), ('candles', 'candles', f'List {C}'),
            ('accept_forming_candles', 'acceptForming', 'Prop')],
           C, kind='except', local_types={'accept_forming_candles': 'Prop'},
           call_map={'len': 'lenR', 'jh.timeframe_to_one_minutes': 'natR'}),
    ]))
    # ---- Gen/Sim (pure helpers of the simulator)
    S.append(('Sim', [
        Fn('jesse/modes/backtest_mode.py', '_get_fixed_jumped_candle', 'fixJump',
           [('previous_candle', 'prev', C), ('candle', 'candle', C)], C),
    ]))
    # ---- Gen/Helpers
    S.append(('Helpers', [
        Fn(helpers, 'convert_number', 'convertNumber',
           [('old_max', 'oldMax', 'Rat'), ('old_min', 'oldMin', 'Rat'), ('new_max', 'newMax', 'Rat'),
            ('new_min', 'newMin', 'Rat'), ('old_value', 'oldValue', 'Rat')], 'Rat', kind='except'),
        Fn(helpers, 'dna_to_hp', 'decodeGene', [(None, 'h', 'HpDecl'), (None, 'gene', 'Nat')], 'Rat',
           kind='except', body='for-body', loop_vars={'gene': 'gene', 'h': 'h'},
           local_types={'gene': 'Nat'},
           subscript_fields={'h': {'max': 'h.max', 'min': 'h.min'}},
           self_map={"h['type'] is int": '(h.type = HpType.int)', "h['type'] is float": '(h.type = HpType.float)'},
           call_map={'convert_number': '?convertNumber'}, yield_assign='hp', skip_assign=['hp']),
        Fn(helpers, 'estimate_average_price', 'estimateAveragePrice',
           [('order_qty', 'orderQty', 'Rat'), ('order_price', 'orderPrice', 'Rat'),
            ('current_qty', 'currentQty', 'Rat'), ('current_entry_price', 'currentEntryPrice', 'Rat')], 'Rat'),
        Fn(helpers, 'estimate_PNL', 'estimatePNL',
           [('qty', 'qty', 'Rat'), ('entry_price', 'entryPrice', 'Rat'), ('exit_price', 'exitPrice', 'Rat'),
            ('trade_type', 'tradeType', 'Jesse.PosType'), ('trading_fee', 'tradingFee', 'Rat')], 'Rat'),
        Fn(helpers, 'floor_with_precision', 'floorWithPrecision',
           [('num', 'num', 'Rat'), ('precision', 'precision', 'Int')], 'Rat'),
        Fn(helpers, 'is_price_near', 'isPriceNear',
           [('order_price', 'orderPrice', 'Rat'), ('price_to_compare', 'priceToCompare', 'Rat'),
            ('percentage_threshold', 'threshold', 'Rat')], 'Prop', prop=True),
        Fn(helpers, 'max_timeframe', 'maxTimeframe', [('timeframes_list', 'tfs', 'List Jesse.Timeframe')],
           'Jesse.Timeframe'),
        Fn(helpers, 'opposite_side', 'oppositeSide', [('s', 's', 'Jesse.Side')], 'Jesse.Side', kind='except'),
        Fn(helpers, 'type_to_side', 'typeToSide', [('t', 't', 'Jesse.PosType')], 'Jesse.Side', kind='except'),
        Fn(helpers, 'round_decimals_down', 'roundDecimalsDown',
           [('number', 'number', 'Rat'), ('decimals', 'decimals', 'Int')], 'Rat', kind='except',
           const_calls={'isinstance': True}),
    ]))
    # ---- Gen/Utils
    S.append(('Utils', [
        Fn(utils, 'limit_stop_loss', 'limitStopLoss',
           [('entry_price', 'entryPrice', 'Rat'), ('stop_price', 'stopPrice', 'Rat'),
            ('trade_type', 'tradeType', 'Jesse.PosType'), ('max_allowed_risk_percentage', 'maxRisk', 'Rat')], 'Rat'),
        Fn(utils, 'risk_to_size', 'riskToSize',
           [('capital_size', 'capitalSize', 'Rat'), ('risk_percentage', 'riskPercentage', 'Rat'),
            ('risk_per_qty', 'riskPerQty', 'Rat'), ('entry_price', 'entryPrice', 'Rat')], 'Rat', kind='except'),
        Fn(utils, 'size_to_qty', 'sizeToQty',
           [('position_size', 'positionSize', 'Rat'), ('entry_price', 'entryPrice', 'Rat'),
            ('precision', 'precision', 'Int'), ('fee_rate', 'feeRate', 'Rat')], 'Rat', kind='except',
           const_calls={'math.isnan': False}, self_map={'entry_price is None': 'False'},
           call_map={'jh.floor_with_precision': 'floorWithPrecision'}),
        Fn(utils, 'risk_to_qty', 'riskToQty',
           [('capital', 'capital', 'Rat'), ('risk_per_capital', 'riskPerCapital', 'Rat'),
            ('entry_price', 'entryPrice', 'Rat'), ('stop_loss_price', 'stopLossPrice', 'Rat'),
            ('precision', 'precision', 'Int'), ('fee_rate', 'feeRate', 'Rat')], 'Rat', kind='except',
           call_map={'risk_to_size': '?riskToSize', 'size_to_qty': '?sizeToQty'}),
        Fn(utils, 'qty_to_size', 'qtyToSize', [('qty', 'qty', 'Rat'), ('price', 'price', 'Rat')], 'Rat',
           kind='except', const_calls={'math.isnan': False}),
        Fn(utils, 'estimate_risk', 'estimateRisk',
           [('entry_price', 'entryPrice', 'Rat'), ('stop_price', 'stopPrice', 'Rat')], 'Rat',
           kind='except', const_calls={'math.isnan': False}),
    ]))
    # ---- Gen/Position
    S.append(('Position', [
        Fn(pos, 'Position.is_long', 'isLong', [(None, 'p', 'PosView')], 'Prop', prop=True, self_map=posmap),
        Fn(pos, 'Position.is_short', 'isShort', [(None, 'p', 'PosView')], 'Prop', prop=True, self_map=posmap),
        Fn(pos, 'Position.type', 'posType', [(None, 'p', 'PosView')], 'Jesse.PosType', self_map=posmap),
        Fn(pos, 'Position.is_close', 'isClose', [(None, 'p', 'PosView')], 'Prop', prop=True, self_map=posmap),
        Fn(pos, 'Position.is_open', 'isOpen', [(None, 'p', 'PosView')], 'Prop', prop=True, self_map=posmap),
        Fn(pos, 'Position._initial_margin_rate', 'initialMarginRate', [(None, 'p', 'PosView')], 'Rat',
           self_map=posmap),
        Fn(pos, 'Position.bankruptcy_price', 'bankruptcyPrice', [(None, 'p', 'PosView')], 'Rat',
           kind='option', self_map=posmap),
        Fn(pos, 'Position.liquidation_price', 'liquidationPrice', [(None, 'p', 'PosView')], 'Rat',
           kind='exceptoption', self_map=posmap, const_calls=not_live),
        Fn(pos, 'Position.value', 'posValue', [(None, 'p', 'PosView')], 'Rat', self_map=dict(posmap, **{'self.current_price is None': 'False'})),
        Fn(pos, 'Position.pnl', 'posPnl', [(None, 'p', 'PosView')], 'Rat',
           self_map=dict(posmap, **{'self.value': '(posValue p)', 'self.entry_price is None': 'False',
                                    'self.value is None': 'False'})),
        Fn(pos, 'Position.total_cost', 'totalCost', [(None, 'p', 'PosView')], 'Rat', kind='option', self_map=posmap),
    ]))
    # ---- Gen/Routing
    S.append(('Routing', [
        Fn(broker, 'Broker._validate_qty', 'validateQty', [('qty', 'qty', 'Rat')], 'Unit', kind='except'),
        Fn(strat, 'Strategy._submit_buy_orders', 'submitBuyDecision',
           [(None, 'o0', 'Rat'), (None, 'o1', 'Rat'), (None, 'price', 'Rat')], 'BrokerCall', kind='except',
           body='for-body', const_calls=not_live, self_map={'self.price': 'price'},
           subscript_fields={'o': {0: 'o0', 1: 'o1'}}, call_ctor=broker_ctor,
           call_map={'jh.is_price_near': 'isPriceNearD'}),
        Fn(strat, 'Strategy._submit_sell_orders', 'submitSellDecision',
           [(None, 'o0', 'Rat'), (None, 'o1', 'Rat'), (None, 'price', 'Rat')], 'BrokerCall', kind='except',
           body='for-body', const_calls=not_live, self_map={'self.price': 'price'},
           subscript_fields={'o': {0: 'o0', 1: 'o1'}}, call_ctor=broker_ctor,
           call_map={'jh.is_price_near': 'isPriceNearD'}),
        Fn(broker, 'Broker.buy_at_market', 'buyAtMarket', [('qty', 'qty', 'Rat'), (None, 'cur', 'Rat')], 'ApiCall',
           kind='except', self_map=brk_self, call_ctor=api_ctor, call_map=brk_calls),
        Fn(broker, 'Broker.sell_at_market', 'sellAtMarket', [('qty', 'qty', 'Rat'), (None, 'cur', 'Rat')], 'ApiCall',
           kind='except', self_map=brk_self, call_ctor=api_ctor, call_map=brk_calls),
        Fn(broker, 'Broker.buy_at', 'buyAt', [('qty', 'qty', 'Rat'), ('price', 'price', 'Rat')], 'ApiCall',
           kind='except', self_map=brk_self, call_ctor=api_ctor, call_map=brk_calls),
        Fn(broker, 'Broker.sell_at', 'sellAt', [('qty', 'qty', 'Rat'), ('price', 'price', 'Rat')], 'ApiCall',
           kind='except', self_map=brk_self, call_ctor=api_ctor, call_map=brk_calls),
        Fn(broker, 'Broker.start_profit_at', 'startProfitAt',
           [('side', 'side', 'Jesse.Side'), ('qty', 'qty', 'Rat'), ('price', 'price', 'Rat'), (None, 'cur', 'Rat')],
           'ApiCall', kind='except', self_map=brk_self, call_ctor=api_ctor, call_map=brk_calls),
        Fn(broker, 'Broker.reduce_position_at', 'reducePositionAt',
           [('qty', 'qty', 'Rat'), ('price', 'price', 'Rat'), ('current_price', 'currentPrice', 'Rat'),
            (None, 'posT', 'Jesse.PosType')], 'ApiCall', kind='except', self_map=brk_self,
           call_ctor=api_ctor, call_map=brk_calls),
    ]))
    return S


def main():
    repo, out = sys.argv[1], sys.argv[2]
    os.makedirs(out, exist_ok=True)
    enums = load_enums(repo)
    status = {'functions': {}, 'errors': {}}
    trees = {}

    def tree_of(file):
        if file not in trees:
            trees[file] = ast.parse(open(os.path.join(repo, file)).read())
        return trees[file]

    modules = []
    for (mod, fns) in build_spec():
        for fn in fns:
            if fn.body == 'function':
                REGISTRY[fn.lean] = [(py if py is not None else ln) for (py, ln, _) in fn.params]
    for (mod, fns) in build_spec():
        parts = []
        for fn in fns:
            key = f'{fn.file}:{fn.name}'
            try:
                fd = find_def(tree_of(fn.file), fn.name)
                if fd is None:
                    raise TErr('function not found')
                txt = Translator(fn, enums).translate(fd)
                hdr = f'/-- `{fn.name}` ({fn.file}:{fd.lineno}–{fd.end_lineno}, ast {ast_hash(fd)}) -/\n'
                parts.append(hdr + txt)
                status['functions'][key] = {'lean': fn.lean, 'module': mod, 'hash': ast_hash(fd),
                                            'line': fd.lineno}
            except TErr as e:
                status['errors'][key] = {'lean': fn.lean, 'module': mod, 'reason': str(e)}
                parts.append(f'-- TRANSLATION FAILED for `{fn.name}` ({fn.file}): {e}\n')
            except (SyntaxError, OSError) as e:
                status['errors'][key] = {'lean': fn.lean, 'module': mod, 'reason': f'{type(e).__name__}: {e}'}
                parts.append(f'-- TRANSLATION FAILED for `{fn.name}` ({fn.file}): {e}\n')
        modules.append((mod, parts))

    # tables
    tbl = []
    for (file, func, lean, valty, doc) in [
        ('jesse/utils.py', 'timeframe_to_one_minutes', 'tfMinutesTable', 'Nat', 'minutes per timeframe'),
        ('jesse/utils.py', 'anchor_timeframe', 'anchorTable', 'TF', 'anchor timeframe table'),
        ('jesse/modes/backtest_mode.py', 'module:timeframe_to_one_minutes', 'btTfMinutesTable', 'Nat',
         'the simulator own minutes-per-timeframe table'),
    ]:
        key = f'{file}:{func}'
        try:
            tbl.append(translate_dict_table(repo, file, func, lean, valty, enums, doc))
            status['functions'][key] = {'lean': lean, 'module': 'Tables'}
        except (TErr, SyntaxError, OSError, Exception) as e:
            status['errors'][key] = {'lean': lean, 'module': 'Tables', 'reason': str(e)}
            tbl.append(f'-- TRANSLATION FAILED for `{func}`: {e}\n')
    # enum order of timeframes (class body order), for the C17 table theorems
    try:
        tf = enums['timeframes']
        lst = ', '.join(STR_ENUM[v] for v in tf.values())
        tbl.append(f'/-- members of `jesse.enums.timeframes` in class-body order -/\ndef enumTimeframes : List Jesse.Timeframe := [{lst}]\n')
    except Exception as e:
        status['errors']['jesse/enums/__init__.py:timeframes'] = {'lean': 'enumTimeframes', 'module': 'Tables', 'reason': str(e)}
    # optimizer charset
    try:
        src = open(os.path.join(repo, 'jesse/modes/optimize_mode/Optimize.py')).read()
        t = ast.parse(src)
        cs = None
        for node in ast.walk(t):
            if isinstance(node, ast.FunctionDef):
                a = node.args
                for arg, dflt in zip(a.args[len(a.args) - len(a.defaults):], a.defaults):
                    if arg.arg == 'charset' and isinstance(dflt, ast.Constant) and isinstance(dflt.value, str):
                        cs = dflt.value
            if isinstance(node, ast.Assign) and any(isinstance(x, ast.Name) and 'charset' in x.id.lower() for x in node.targets) \
                    and isinstance(node.value, ast.Constant) and isinstance(node.value.value, str):
                cs = node.value.value
        if cs is None:
            raise TErr('charset literal not found')
        tbl.append('/-- the optimizer alphabet as code points (jesse/modes/optimize_mode/Optimize.py) -/\n'
                   f'def charsetCodes : List Nat := [{", ".join(str(ord(ch)) for ch in cs)}]\n')
        status['functions']['jesse/modes/optimize_mode/Optimize.py:charset'] = {'lean': 'charsetCodes', 'module': 'Tables'}
    except Exception as e:
        status['errors']['jesse/modes/optimize_mode/Optimize.py:charset'] = {'lean': 'charsetCodes', 'module': 'Tables', 'reason': str(e)}
    modules.append(('Tables', tbl))

    # write files: Prelude + one file per module
    def write(path, txt):
        old = None
        if os.path.exists(path):
            old = open(path).read()
        if old != txt:
            open(path, 'w').write(txt)

    write(os.path.join(out, 'Prelude.lean'), PRELUDE + '''
def lenR (cs : List Jesse.Candle) : Rat := (cs.length : Rat)
def natR (n : Nat) : Rat := (n : Rat)
/-- `jh.is_price_near` with its default threshold 0.00015 -/
def defaultThreshold : Rat := (15 / 100000 : Rat)

end Jesse.Gen
''')
    deps = {
        'CandleSvc': ['Prelude'], 'Helpers': ['Prelude'], 'Utils': ['Prelude', 'Helpers'],
        'Position': ['Prelude'], 'Routing': ['Prelude', 'Helpers'], 'Tables': ['Prelude'], 'Sim': ['Prelude'],
    }
    glue = {
        'Utils': '',
        'Routing': '''
def isPriceNearD (a b : Rat) : Prop := isPriceNear a b defaultThreshold
instance (a b : Rat) : Decidable (isPriceNearD a b) := by unfold isPriceNearD; infer_instance
''',
    }
    for (mod, parts) in modules:
        imports = ''.join(f'import Jesse.Gen.{d}\n' for d in deps.get(mod, ['Prelude']))
        body = '\n'.join(parts)
        txt = ('/-\n  GENERATED by /verif/py2lean/py2lean.py from /repo — do not edit.\n-/\n' + imports +
               '\nnamespace Jesse.Gen\n' + glue.get(mod, '') + '\n' + body + '\nend Jesse.Gen\n')
        write(os.path.join(out, f'{mod}.lean'), txt)
    write(os.path.join(out, 'status.json'), json.dumps(status, indent=1, sort_keys=True))
    print(json.dumps({'translated': len(status['functions']), 'errors': status['errors']}))


if __name__ == '__main__':
    main()
