"""
harness/core.py — shared machinery of every check (DESIGN.md 2.7–2.10).

Pipeline of one run:  regenerate Gen/ from /repo → lake build Proofs.<id> → axiom audit →
correspondence (model vs. implementation) → implementation-side oracle → decision → evidence.
Exit codes: 0 held (KNOWN-FINDING lines allowed) · 1 VIOLATION · 2 infrastructure.
"""
import fcntl
import hashlib
import json
import os
import random
import re
import shutil
import subprocess
import sys
import tempfile
import time
from fractions import Fraction

VERIF = os.path.dirname(os.path.dirname(os.path.abspath(__file__)))
REPO = os.environ.get('JESSE_REPO', '/repo')
LEAN = os.path.join(VERIF, 'lean')
ALLOWED_AXIOMS = {'propext', 'Classical.choice', 'Quot.sound'}
FORBIDDEN = re.compile(r'\b(sorry|admit|native_decide|bv_decide|implemented_by)\b|^\s*axiom\s|unsafe\s|maxHeartbeats\s+0\b')

TRUSTED_BASE = [
    'Lean 4.33.0 kernel (lake build); leanchecker re-check in the thorough tier',
    'axioms allowed in property theorems: propext, Classical.choice, Quot.sound (audited by #print axioms on every run)',
    'py2lean translator: reading of the Python subset (py2lean/SEMANTICS.md): float -> Rat (exact), Decimal(str(x)) arithmetic -> exact, string constants -> enum constructors; cross-checked on every run by running the generated definitions and the real functions on the same inputs',
    'correspondence harness: generators, canonicalisation, numeric tolerance 1e-9 relative for floats vs exact rationals',
    'modelled, not verified: IEEE-754 rounding, NumPy/numba internals, Python object model outside the modelled state',
]


class Infra(Exception):
    """infrastructure failure -> exit 2, never a VIOLATION"""


def log(*a):
    print(*a, file=sys.stderr, flush=True)


# --------------------------------------------------------------------------------------------
# numbers on the wire
def fr(x):
    """float/int/str -> Fraction, exactly the decimal reading of repr (what py2lean does with literals)"""
    if isinstance(x, Fraction):
        return x
    if isinstance(x, int):
        return Fraction(x)
    if isinstance(x, float):
        return Fraction(repr(x))
    return Fraction(x)


def wire(x):
    f = fr(x)
    return str(f.numerator) if f.denominator == 1 else f'{f.numerator}/{f.denominator}'


def unwire(s):
    return Fraction(s)


def close(a, b, rel=1e-9):
    """float result vs exact rational"""
    a = float(a)
    b = float(b)
    return abs(a - b) <= rel * max(1.0, abs(a), abs(b))


# --------------------------------------------------------------------------------------------
class BuildLock:
    def __enter__(self):
        self.f = open(os.path.join(LEAN, '.build.lock'), 'w')
        fcntl.flock(self.f, fcntl.LOCK_EX)
        return self

    def __exit__(self, *a):
        fcntl.flock(self.f, fcntl.LOCK_UN)
        self.f.close()


def run(cmd, cwd=None, timeout=3600, input=None, env=None):
    e = dict(os.environ)
    if env:
        e.update(env)
    try:
        p = subprocess.run(cmd, cwd=cwd, input=input, capture_output=True, text=True, timeout=timeout, env=e)
    except subprocess.TimeoutExpired:
        raise Infra(f'timeout: {cmd}')
    except FileNotFoundError as ex:
        raise Infra(f'missing tool: {ex}')
    return p


def regenerate():
    """py2lean: /repo working tree -> lean/Jesse/Gen.  Returns the translator status dict."""
    p = run([sys.executable, os.path.join(VERIF, 'py2lean', 'py2lean.py'), REPO, os.path.join(LEAN, 'Jesse', 'Gen')])
    if p.returncode != 0:
        raise Infra('py2lean crashed: ' + p.stderr[-2000:])
    return json.load(open(os.path.join(LEAN, 'Jesse', 'Gen', 'status.json')))


def lake_build(targets, clean=False):
    """returns (ok, errors) where errors = [{'file','line','msg'}]"""
    if shutil.which('lake') is None:
        raise Infra('lake not on PATH')
    p = run(['lake', 'build'] + targets, cwd=LEAN, timeout=3000)
    errs = []
    out = p.stdout + '\n' + p.stderr
    for m in re.finditer(r'^error: (\S+?\.lean):(\d+):(\d+): (.*)$', out, re.M):
        errs.append({'file': m.group(1), 'line': int(m.group(2)), 'msg': m.group(4)[:300]})
    if p.returncode != 0 and not errs:
        if 'error' in out:
            errs.append({'file': '?', 'line': 0, 'msg': out[-1500:]})
        else:
            raise Infra('lake build failed without diagnostics: ' + out[-1500:])
    return p.returncode == 0, errs


THEOREM_RE = re.compile(r'^\s*(?:private\s+)?theorem\s+([A-Za-z0-9_.\']+)', re.M)


def theorems_of(pid):
    """[(name, line, one-line statement)] of the property theorems in Proofs/<pid>.lean (+ submodules)"""
    out = []
    files = [os.path.join(LEAN, 'Proofs', f'{pid}.lean')]
    sub = os.path.join(LEAN, 'Proofs', pid)
    if os.path.isdir(sub):
        files += sorted(os.path.join(sub, f) for f in os.listdir(sub) if f.endswith('.lean'))
    for path in files:
        if not os.path.exists(path):
            continue
        src = open(path).read()
        ns = re.search(r'^namespace\s+(\S+)', src, re.M)
        nsname = ns.group(1) if ns else ''
        lines = src.split('\n')
        for m in THEOREM_RE.finditer(src):
            ln = src[:m.start()].count('\n') + 1
            stmt = ' '.join(x.strip() for x in lines[ln - 1: ln + 3])[:240]
            name = m.group(1)
            full = f'{nsname}.{name}' if nsname and not name.startswith(nsname + '.') else name
            out.append({'name': full, 'file': os.path.relpath(path, LEAN), 'line': ln, 'statement': stmt})
    return out


def failed_theorems(thms, errs):
    """map build errors to the enclosing theorem of the property file"""
    bad = set()
    other = []
    for e in errs:
        cands = [t for t in thms if t['file'] == e['file'] and t['line'] <= e['line']]
        if cands:
            bad.add(max(cands, key=lambda t: t['line'])['name'])
        else:
            other.append(e)
    return bad, other


def forbidden_tokens(pid):
    hits = []
    roots = [os.path.join(LEAN, d) for d in ('Jesse', 'Spec', 'Proofs', 'Driver')]
    for root in roots:
        for dp, _, fs in os.walk(root):
            for f in fs:
                if not f.endswith('.lean'):
                    continue
                path = os.path.join(dp, f)
                incomment = 0
                for i, line in enumerate(open(path), 1):
                    code = line
                    # strip block comments (coarse) and line comments
                    if incomment:
                        if '-/' in code:
                            code = code.split('-/', 1)[1]
                            incomment = 0
                        else:
                            continue
                    while '/-' in code:
                        pre, post = code.split('/-', 1)
                        if '-/' in post:
                            code = pre + post.split('-/', 1)[1]
                        else:
                            code = pre
                            incomment = 1
                            break
                    code = code.split('--', 1)[0]
                    if FORBIDDEN.search(code):
                        hits.append(f'{os.path.relpath(path, LEAN)}:{i}: {line.strip()[:120]}')
    return hits


def axioms_audit(pid, thms):
    """#print axioms on every property theorem; returns {name: [axioms]}"""
    if not thms:
        return {}
    d = tempfile.mkdtemp(prefix='jv_audit_')
    try:
        path = os.path.join(d, 'Audit.lean')
        mods = sorted({t['file'][:-5].replace('/', '.') for t in thms})
        with open(path, 'w') as f:
            for m in mods:
                f.write(f'import {m}\n')
            for t in thms:
                f.write(f'#print axioms {t["name"]}\n')
        p = run(['lake', 'env', 'lean', path], cwd=LEAN, timeout=1800)
        out = p.stdout + p.stderr
        res = {}
        for m in re.finditer(r"'([^']+)' depends on axioms: \[([^\]]*)\]", out):
            res[m.group(1)] = [a.strip() for a in m.group(2).replace('\n', ' ').split(',') if a.strip()]
        for m in re.finditer(r"'([^']+)' does not depend on any axioms", out):
            res[m.group(1)] = []
        missing = [t['name'] for t in thms if t['name'] not in res]
        if missing:
            raise Infra('axiom audit could not read: ' + ', '.join(missing) + '\n' + out[-1500:])
        return res
    finally:
        shutil.rmtree(d, ignore_errors=True)


def leanchecker(mods):
    p = run(['lake', 'env', 'leanchecker'] + mods, cwd=LEAN, timeout=3000)
    return p.returncode == 0, (p.stdout + p.stderr)[-800:]


class Driver:
    """batch interface to the Lean line-protocol driver"""

    @staticmethod
    def run(lines, timeout=1800):
        if not lines:
            return []
        p = run(['lake', 'env', 'lean', '--run', 'Driver/Main.lean'], cwd=LEAN, input='\n'.join(lines) + '\n',
                timeout=timeout)
        if p.returncode != 0:
            raise Infra('lean driver failed: ' + (p.stderr or p.stdout)[-1500:])
        out = p.stdout.split('\n')
        if out and out[-1] == '':
            out.pop()
        if len(out) != len(lines):
            raise Infra(f'lean driver returned {len(out)} lines for {len(lines)} requests')
        return out


def shrink_list(items, still_fails, max_rounds=400):
    """greedy delta-debugging on a list: drop elements while `still_fails(candidate)` holds"""
    items = list(items)
    rounds = 0
    chunk = max(len(items) // 2, 1)
    while chunk >= 1 and rounds < max_rounds:
        i = 0
        changed = False
        while i < len(items) and rounds < max_rounds:
            cand = items[:i] + items[i + chunk:]
            rounds += 1
            if cand != items and still_fails(cand):
                items = cand
                changed = True
            else:
                i += chunk
        if not changed:
            chunk //= 2
    return items


# --------------------------------------------------------------------------------------------
# known findings
def load_known():
    path = os.path.join(VERIF, 'known_findings.json')
    if not os.path.exists(path):
        return []
    return json.load(open(path))['findings']


def load_regressions(pid):
    """sessions that exposed defects since repaired: a corpus that runs first, suppresses nothing"""
    path = os.path.join(VERIF, 'known_findings.json')
    if not os.path.exists(path):
        return []
    return json.load(open(path)).get('regression_sessions', {}).get(pid, [])


def finding_matches(finding, failure):
    sig = finding.get('signature', {})
    if 'class_prefix' in sig:
        if not str(failure.get('class', '')).startswith(sig['class_prefix']):
            return False
    elif sig.get('class') != failure.get('class'):
        return False
    for k, v in sig.get('where', {}).items():
        if failure.get('params', {}).get(k) != v:
            return False
    for k, (op, bound) in sig.get('limits', {}).items():
        x = failure.get('metrics', {}).get(k)
        if x is None:
            return False
        if op == '<=' and not x <= bound:
            return False
        if op == '>=' and not x >= bound:
            return False
    return True


# --------------------------------------------------------------------------------------------
class Result:
    """what a correspondence or oracle pass reports"""

    def __init__(self):
        self.evaluations = 0
        self.traces = set()          # hashes of distinct non-trivial cases
        self.samples = []
        self.failures = []           # [{'class','input','expected','observed','params','metrics','how'}]
        self.hist = {}
        self.discarded = 0
        self.notes = []

    def count(self, key, n=1):
        self.hist[key] = self.hist.get(key, 0) + n

    def seen(self, canon, nontrivial=True):
        self.evaluations += 1
        if nontrivial:
            self.traces.add(hashlib.sha1(repr(canon).encode()).hexdigest()[:16])

    def sample(self, s, cap=4):
        if len(self.samples) < cap:
            self.samples.append(s)

    def fail(self, **kw):
        if len(self.failures) < 200:
            self.failures.append(kw)


class Check:
    """base class; a property module subclasses it"""
    pid = 'C00'
    lean_targets = None            # default ['Proofs.<pid>']
    gen_keys = []                  # translator keys this property's tie depends on
    level_text = ''
    rule = ''
    assumptions = []
    unproved = []                  # clauses of the property decided by correspondence + oracle only (no theorem)

    def __init__(self, tier, seed):
        self.tier = tier
        self.seed = seed
        self.rng = random.Random(seed)
        self.t0 = time.time()
        self.thorough = tier == 'thorough'

    # to be overridden -----------------------------------------------------------------------
    def correspondence(self, res: Result, boost: bool):
        """model vs implementation; report disagreements through res.fail(class='corr/...')"""

    def oracle(self, res: Result, boost: bool):
        """the property itself evaluated on the implementation"""

    # ------------------------------------------------------------------------------------------
    def budget(self, quick, thorough, boost=False):
        return thorough if (self.thorough or boost) else quick

    def main(self):
        pid = self.pid
        os.makedirs(os.path.join(VERIF, 'evidence'), exist_ok=True)
        os.makedirs(os.path.join(VERIF, 'replays'), exist_ok=True)
        targets = self.lean_targets or [f'Proofs.{pid}']
        broken = []          # names of theorems / ties that no longer check
        with BuildLock():
            status = regenerate()
            gen_err = {k: v for k, v in status['errors'].items() if k in self.gen_keys}
            for k, v in gen_err.items():
                broken.append(f'translator:{k} ({v["reason"]})')
            thms = theorems_of(pid)
            ok, errs = lake_build(['Driver'] + targets)
            drv_ok = True
            if not ok:
                bad, other = failed_theorems(thms, errs)
                for b in sorted(bad):
                    broken.append(f'theorem:{b}')
                for e in other:
                    broken.append(f'build:{e["file"]}:{e["line"]} {e["msg"][:120]}')
                # is the driver itself still buildable?
                drv_ok, derrs = lake_build(['Driver'])
                if not drv_ok:
                    broken.append('driver: the executable model no longer builds against the regenerated definitions')
            axioms = {}
            if ok:
                axioms = axioms_audit(pid, thms)
                for name, ax in axioms.items():
                    extra = [a for a in ax if a not in ALLOWED_AXIOMS]
                    if extra:
                        raise Infra(f'{name} depends on non-standard axioms {extra}')
            hits = forbidden_tokens(pid)
            if hits:
                raise Infra('forbidden tokens in Lean sources: ' + '; '.join(hits[:5]))
            lc = None
            if ok and self.thorough:
                mods = sorted({t['file'][:-5].replace('/', '.') for t in thms})
                lc_ok, lc_out = leanchecker(mods)
                lc = {'ok': lc_ok, 'modules': mods}
                if not lc_ok:
                    raise Infra('leanchecker rejected ' + ', '.join(mods) + ': ' + lc_out)
        self.driver_ok = drv_ok
        boost = bool(broken)
        corr = Result()
        if drv_ok:
            self.correspondence(corr, boost)
        for f in corr.failures:
            broken.append(f'correspondence:{f.get("class")}')
        boost = bool(broken)
        orc = Result()
        self.oracle(orc, boost)

        known = [k for k in load_known() if k['property'] == pid and k.get('status') == 'open']
        reproduced = {}
        new_failures = []
        for f in orc.failures:
            hit = None
            for k in known:
                if finding_matches(k, f):
                    hit = k
                    break
            if hit is not None:
                reproduced.setdefault(hit['id'], f)
            else:
                new_failures.append(f)

        if os.environ.get('VERIF_DEBUG'):
            for f in orc.failures[:40]:
                log('ORACLE-FAILURE', json.dumps(f, default=str)[:600])
            for f in corr.failures[:40]:
                log('CORR-FAILURE', json.dumps(f, default=str)[:600])
        for k in known:
            if k['id'] in reproduced:
                print(f"KNOWN-FINDING: property={pid} {k['id']} {k['what']}")
        violations = 0
        rc = 0
        if new_failures:
            f = new_failures[0]
            path = self.write_replay(f, broken)
            print(f'VIOLATION property={pid} replay={path}')
            violations = len(new_failures)
            rc = 1
        elif broken:
            path = self.write_replay({'class': 'tie-broken', 'input': None,
                                      'no_longer_checks': sorted(set(broken)),
                                      'correspondence_disagreements': corr.failures[:5]}, broken)
            print(f'VIOLATION property={pid} replay={path} no-failing-input-found')
            violations = 1
            rc = 1
        n_ob = len(thms)
        n_bad = len({b for b in broken if b.startswith('theorem:')})
        discharged = n_ob - n_bad if ok or n_bad else 0
        cov = {
            'obligations': max(n_ob, 1),
            'discharged': discharged if n_ob else 0,
            'checker_cmd': f'cd /verif/lean && lake build {" ".join(targets)} && lake env lean <#print axioms audit>'
                           + (' && lake env leanchecker <modules>' if self.thorough else ''),
            'trusted_base': TRUSTED_BASE + list(self.assumptions),
            'theorems': [{'name': t['name'], 'statement': t['statement'], 'axioms': axioms.get(t['name'])} for t in thms],
            'translator': {'functions': len(status['functions']), 'errors': status['errors'],
                           'relied_on': self.gen_keys},
            'no_longer_checks': sorted(set(broken)),
            'correspondence': {'evaluations': corr.evaluations, 'distinct_nontrivial': len(corr.traces),
                               'disagreements': len(corr.failures), 'histogram': corr.hist,
                               'samples': corr.samples, 'notes': corr.notes},
            'evaluations': corr.evaluations + orc.evaluations,
            'distinct_nontrivial': len(corr.traces | orc.traces),
            'traces_validated_against_impl': corr.evaluations,
            'rule': self.rule,
            'samples': (corr.samples[:2] + orc.samples[:3]) or ['(none)'],
            'oracle': {'evaluations': orc.evaluations, 'distinct_nontrivial': len(orc.traces),
                       'failures_total': len(orc.failures), 'failures_new': len(new_failures),
                       'histogram': orc.hist, 'notes': orc.notes, 'discarded_near_boundary': orc.discarded},
            'known_findings_reproduced': sorted(reproduced),
            'unproved': list(self.unproved),
            'leanchecker': lc,
            'exhaustive': False,
        }
        ev = {
            'property_id': pid, 'tier': self.tier, 'seed': self.seed, 'level': 'proof',
            'coverage': cov, 'assumptions': list(self.assumptions) + [
                'theorems are about exact rational arithmetic; float effects are measured by the oracle pass only'],
            'wall_s': round(time.time() - self.t0, 2), 'violations': violations,
        }
        with open(os.path.join(VERIF, 'evidence', f'{pid}.json'), 'w') as fh:
            json.dump(ev, fh, indent=1, default=str)
        return rc

    def write_replay(self, failure, broken):
        path = os.path.join(VERIF, 'replays', f'{self.pid}-{self.seed}-{int(time.time())}.json')
        doc = {'property': self.pid, 'seed': self.seed, 'tier': self.tier, 'failure': failure,
               'no_longer_checks': sorted(set(broken)),
               'how_to_replay': f'cd /verif && ./check replay {path}'}
        with open(path, 'w') as fh:
            json.dump(doc, fh, indent=1, default=str)
        return path
