#!/usr/bin/env python3
"""Confirm a seeded change and run checks against it.
usage: seeded.py confirm <name> <src_dir> <check ids…>   (src_dir holds patch.diff, demo.py, meta.json)
       seeded.py run <name> [<check ids…>]               (re-run the checks against a stored change)
Applies the patch to /repo (git apply), runs, and ALWAYS undoes it (git checkout -- .)."""
import json
import os
import shutil
import subprocess
import sys
import time

VERIF = os.path.dirname(os.path.dirname(os.path.abspath(__file__)))
REPO = os.environ.get('SEED_REPO', '/repo')   # a scratch clone may be used while other work reads /repo


def sh(cmd, **kw):
    return subprocess.run(cmd, shell=True, capture_output=True, text=True, **kw)


def demo(path):
    p = sh(f'cd /tmp && /venv/bin/python {path} {REPO}', timeout=900)
    return p.returncode, (p.stdout + p.stderr)[-400:]


def run_checks(ids, tier='quick'):
    out = {}
    for cid in ids:
        t = time.time()
        p = sh(f'cd {VERIF} && JESSE_REPO={REPO} ./check {cid} --tier {tier}', timeout=5400)
        v = [l for l in p.stdout.split('\n') if l.startswith('VIOLATION')]
        out[cid] = {'rc': p.returncode, 'violation': v[0] if v else None, 'wall_s': round(time.time() - t, 1)}
        if v and 'replay=' in v[0]:
            rp = v[0].split('replay=')[1].split()[0]
            try:
                f = json.load(open(rp))['failure']
                out[cid]['failure_class'] = f.get('class')
                out[cid]['no_longer_checks'] = json.load(open(rp)).get('no_longer_checks', [])[:6]
            except Exception:
                pass
    return out


def main():
    mode, name = sys.argv[1], sys.argv[2]
    d = os.path.join(VERIF, 'seeded', name)
    if mode == 'confirm':
        src = sys.argv[3]
        ids = sys.argv[4:]
        os.makedirs(d, exist_ok=True)
        for f in ('patch.diff', 'demo.py', 'meta.json'):
            shutil.copy(os.path.join(src, f), os.path.join(d, f))
    else:
        ids = sys.argv[3:]
    meta = json.load(open(os.path.join(d, 'meta.json')))
    ids = ids or meta.get('checks_run', {}).keys()
    assert sh(f'git -C {REPO} status --porcelain').stdout.strip() == '', '/repo is not clean'
    rc0, out0 = demo(os.path.join(d, 'demo.py'))
    ap = sh(f'git -C {REPO} apply {os.path.join(d, "patch.diff")}')
    try:
        if ap.returncode != 0:
            print('patch does not apply:', ap.stderr)
            meta['confirmed'] = False
            return
        rc1, out1 = demo(os.path.join(d, 'demo.py'))
        suite = sh(f'cd {REPO} && /venv/bin/python -m pytest -q -p no:cacheprovider --timeout=900 2>&1 | tail -1', timeout=1800).stdout.strip()
        checks = run_checks(list(ids))
    finally:
        sh(f'git -C {REPO} checkout -- .')
        sh(f'rm -rf {VERIF}/replays')
    meta.update({'demo_on_clean_repo': {'rc': rc0, 'tail': out0[-160:]}, 'demo_with_patch': {'rc': rc1, 'tail': out1[-300:]},
                 'suite_with_patch': suite, 'confirmed': rc0 == 0 and rc1 != 0 and 'passed' in suite and 'failed' not in suite,
                 'checks_run': checks, 'caught_by': [c for c, r in checks.items() if r['rc'] == 1]})
    json.dump(meta, open(os.path.join(d, 'meta.json'), 'w'), indent=1)
    print(json.dumps({k: meta[k] for k in ('confirmed', 'suite_with_patch', 'caught_by')}, indent=1))
    print(json.dumps(checks, indent=1))


if __name__ == '__main__':
    main()
