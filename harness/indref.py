"""Independent, deliberately plain reference implementations of the textbook definitions of the core
indicators (C15).  Written from the definitions (Wilder 1978; Appel; Bollinger; Lane; Lambert; Granville;
Williams; Quong & Soudack; Keltner/Raschke; Donchian), NOT from jesse's code: plain Python loops over
lists of floats, no vectorisation tricks.  `None` marks a row where the textbook value is undefined
(not enough history, or 0/0); such rows are not compared in value."""
import math

NAN = float('nan')


def _mean(w):
    return math.fsum(w) / len(w)


def window(x, i, p):
    return x[i - p + 1:i + 1]


def sma(x, p):
    return [None if i < p - 1 else _mean(window(x, i, p)) for i in range(len(x))]


def wma(x, p):
    den = p * (p + 1) / 2
    return [None if i < p - 1 else math.fsum((j + 1) * v for j, v in enumerate(window(x, i, p))) / den for i in range(len(x))]


def trima(x, p):
    # triangular weights 1,2,…,peak,…,2,1 over p points
    if p % 2:
        w = list(range(1, p // 2 + 2)) + list(range(p // 2, 0, -1))
    else:
        w = list(range(1, p // 2 + 1)) + list(range(p // 2, 0, -1))
    s = sum(w)
    return [None if i < p - 1 else math.fsum(a * b for a, b in zip(w, window(x, i, p))) / s for i in range(len(x))]


def ema(x, p, alpha=None):
    """standard EMA: seed = SMA of the first p values at row p-1, alpha = 2/(p+1)"""
    a = 2 / (p + 1) if alpha is None else alpha
    out = [None] * len(x)
    if len(x) < p:
        return out
    prev = _mean(x[:p])
    out[p - 1] = prev
    for i in range(p, len(x)):
        prev = a * x[i] + (1 - a) * prev
        out[i] = prev
    return out


def wilder(x, p):
    """Wilder smoothing (alpha = 1/p), SMA seed"""
    return ema(x, p, alpha=1 / p)


def ema_of(series, p, alpha=None):
    """EMA of a series that starts with undefined rows"""
    k = next((i for i, v in enumerate(series) if v is not None), len(series))
    return [None] * k + ema(series[k:], p, alpha)


def dema(x, p):
    e1 = ema(x, p)
    e2 = ema_of(e1, p)
    return [None if a is None or b is None else 2 * a - b for a, b in zip(e1, e2)]


def tema(x, p):
    e1 = ema(x, p)
    e2 = ema_of(e1, p)
    e3 = ema_of(e2, p)
    return [None if None in (a, b, c) else 3 * a - 3 * b + c for a, b, c in zip(e1, e2, e3)]


def true_range(h, l, c):
    out = []
    for i in range(len(c)):
        if i == 0:
            out.append(h[0] - l[0])
        else:
            out.append(max(h[i] - l[i], abs(h[i] - c[i - 1]), abs(l[i] - c[i - 1])))
    return out


def atr(h, l, c, p):
    return wilder(true_range(h, l, c), p)


def rsi(x, p):
    n = len(x)
    out = [None] * n
    if n < p + 1:
        return out
    gains = [max(x[i] - x[i - 1], 0.0) for i in range(1, n)]
    losses = [max(x[i - 1] - x[i], 0.0) for i in range(1, n)]
    ag, al = _mean(gains[:p]), _mean(losses[:p])
    for i in range(p, n):
        if i > p:
            ag = (ag * (p - 1) + gains[i - 1]) / p
            al = (al * (p - 1) + losses[i - 1]) / p
        if al == 0:
            out[i] = None if ag == 0 else 100.0      # 0/0: undefined
        else:
            out[i] = 100 - 100 / (1 + ag / al)
    return out


def macd(x, fast, slow, sig):
    ef, es = ema(x, fast), ema(x, slow)
    line = [None if a is None or b is None else a - b for a, b in zip(ef, es)]
    signal = ema_of(line, sig)
    hist = [None if a is None or b is None else a - b for a, b in zip(line, signal)]
    return line, signal, hist


def variance(x, p):
    out = []
    for i in range(len(x)):
        if i < p - 1:
            out.append(None)
            continue
        w = window(x, i, p)
        m = _mean(w)
        out.append(math.fsum((v - m) ** 2 for v in w) / p)
    return out


def stddev(x, p):
    return [None if v is None else math.sqrt(v) for v in variance(x, p)]


def rolling_max(x, p):
    return [None if i < p - 1 else max(window(x, i, p)) for i in range(len(x))]


def rolling_min(x, p):
    return [None if i < p - 1 else min(window(x, i, p)) for i in range(len(x))]


def sma_of(series, p):
    """SMA of a series with undefined rows: defined where the whole window is"""
    out = []
    for i in range(len(series)):
        w = series[max(i - p + 1, 0):i + 1]
        out.append(None if i < p - 1 or any(v is None for v in w) else _mean(w))
    return out


def stoch_raw(h, l, c, p):
    hh, ll = rolling_max(h, p), rolling_min(l, p)
    out = []
    for i in range(len(c)):
        if hh[i] is None or hh[i] == ll[i]:
            out.append(None)
        else:
            out.append(100 * (c[i] - ll[i]) / (hh[i] - ll[i]))
    return out


def willr(h, l, c, p):
    hh, ll = rolling_max(h, p), rolling_min(l, p)
    return [None if hh[i] is None or hh[i] == ll[i] else -100 * (hh[i] - c[i]) / (hh[i] - ll[i]) for i in range(len(c))]


def cci(h, l, c, p):
    tp = [(a + b + d) / 3 for a, b, d in zip(h, l, c)]
    out = []
    for i in range(len(tp)):
        if i < p - 1:
            out.append(None)
            continue
        w = window(tp, i, p)
        m = _mean(w)
        md = math.fsum(abs(v - m) for v in w) / p
        # a window of (numerically) equal prices is 0/0: the quotient of two rounding residues has no defined value,
        # in the reference or in the code; such rows are not compared
        out.append(None if md <= 1e-12 * max(1.0, abs(m)) else (tp[i] - m) / (0.015 * md))
    return out


def mfi(h, l, c, v, p):
    tp = [(a + b + d) / 3 for a, b, d in zip(h, l, c)]
    pos = [0.0] + [tp[i] * v[i] if tp[i] > tp[i - 1] else 0.0 for i in range(1, len(tp))]
    neg = [0.0] + [tp[i] * v[i] if tp[i] < tp[i - 1] else 0.0 for i in range(1, len(tp))]
    out = []
    for i in range(len(tp)):
        if i < p - 1:
            out.append(None)
            continue
        a, b = math.fsum(window(pos, i, p)), math.fsum(window(neg, i, p))
        if b == 0:
            out.append(None if a == 0 else 100.0)
        else:
            out.append(100 - 100 / (1 + a / b))
    return out


def obv(c, v):
    out = [v[0]]
    for i in range(1, len(c)):
        out.append(out[-1] + (v[i] if c[i] > c[i - 1] else -v[i] if c[i] < c[i - 1] else 0.0))
    return out


def roc(x, p):
    return [None if i < p or x[i - p] == 0 else (x[i] / x[i - p] - 1) * 100 for i in range(len(x))]


def mom(x, p):
    return [None if i < p else x[i] - x[i - p] for i in range(len(x))]


def directional(h, l, c):
    """(+DM, -DM, TR) from row 1 on (row 0 has no predecessor)"""
    pdm, mdm, tr = [None], [None], [None]
    for i in range(1, len(c)):
        up, dn = h[i] - h[i - 1], l[i - 1] - l[i]
        pdm.append(up if up > dn and up > 0 else 0.0)
        mdm.append(dn if dn > up and dn > 0 else 0.0)
        tr.append(max(h[i] - l[i], abs(h[i] - c[i - 1]), abs(l[i] - c[i - 1])))
    return pdm, mdm, tr


def wilder_sum(x, p):
    """Wilder's running sum of x[1:], first value at row p = sum of x[1..p], then s - s/p + x"""
    out = [None] * len(x)
    if len(x) <= p:
        return out
    s = math.fsum(x[1:p + 1])
    out[p] = s
    for i in range(p + 1, len(x)):
        s = s - s / p + x[i]
        out[i] = s
    return out


def dm(h, l, c, p):
    pdm, mdm, _ = directional(h, l, c)
    return wilder_sum(pdm, p), wilder_sum(mdm, p)


def di(h, l, c, p):
    pdm, mdm, tr = directional(h, l, c)
    sp, sm, st = wilder_sum(pdm, p), wilder_sum(mdm, p), wilder_sum(tr, p)
    plus = [None if a is None or b is None or b == 0 else 100 * a / b for a, b in zip(sp, st)]
    minus = [None if a is None or b is None or b == 0 else 100 * a / b for a, b in zip(sm, st)]
    return plus, minus


def adx(h, l, c, p):
    plus, minus = di(h, l, c, p)
    dx = [None if a is None or b is None or a + b == 0 else 100 * abs(a - b) / (a + b) for a, b in zip(plus, minus)]
    n = len(c)
    out = [None] * n
    first = [v for v in dx[p:2 * p]]
    if n < 2 * p or any(v is None for v in first) or len(first) < p:
        return out
    a = _mean(first)
    out[2 * p - 1] = a
    for i in range(2 * p, n):
        if dx[i] is None:
            return out
        a = (a * (p - 1) + dx[i]) / p
        out[i] = a
    return out
