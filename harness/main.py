"""entry point of every check: ./check <id> [--tier quick|thorough] | ./check replay <file>"""
import importlib
import json
import os
import sys
import traceback

sys.path.insert(0, os.path.dirname(os.path.abspath(__file__)))
import core  # noqa: E402


def main():
    args = sys.argv[1:]
    if not args:
        print('usage: check <id> [--tier quick|thorough] | check replay <file>')
        return 2
    tier = os.environ.get('VERIF_TIER', 'quick')
    if '--tier' in args:
        i = args.index('--tier')
        tier = args[i + 1]
        del args[i:i + 2]
    seed = int(os.environ.get('VERIF_SEED', '1'))
    if args[0] == 'replay':
        doc = json.load(open(args[1]))
        mod = importlib.import_module('props.' + doc['property'].lower())
        chk = mod.CHECK(tier, doc.get('seed', seed))
        return chk.replay(doc)
    pid = args[0].upper()
    try:
        mod = importlib.import_module('props.' + pid.lower())
        chk = mod.CHECK(tier, seed)
        return chk.main()
    except core.Infra as e:
        print(f'INFRASTRUCTURE: {e}', file=sys.stderr)
        return 2
    except Exception:
        traceback.print_exc()
        return 2


if __name__ == '__main__':
    sys.exit(main())
