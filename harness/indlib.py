"""Shared machinery of the indicator checks C13, C14, C15: enumeration of the public indicators,
parameter discovery from the signatures, seeded candle generators, field extraction and NaN-aware
comparison.  Nothing here knows about a particular indicator except the table of *call
restrictions* (which parameter values a function documents as invalid)."""
import inspect
import math

import jesse_env

WARMUP = 240
SOURCES = ['close', 'high', 'low', 'open', 'volume', 'hl2', 'hlc3', 'ohlc4']

# parameters that are not numeric knobs and are never varied
_FIXED = {'candles', 'sequential', 'source_type'}
# int parameters that select a moving-average type (valid values 0..39 except 7, 8, 19)
_MATYPE = ('matype',)


def indicators():
    """{public name: function} of jesse.indicators (functions defined in jesse.indicators.*)"""
    jesse_env.setup()
    import jesse.indicators as ta
    out = {}
    for name in sorted(dir(ta)):
        if name.startswith('_'):
            continue
        f = getattr(ta, name)
        if inspect.isfunction(f) and (f.__module__ or '').startswith('jesse.indicators'):
            out[name] = f
    return out


def describe(f):
    """signature facts: has sequential / source_type, numeric parameters with defaults, required extras"""
    sig = inspect.signature(f)
    ps = list(sig.parameters.values())
    d = {'sequential': 'sequential' in sig.parameters, 'source_type': 'source_type' in sig.parameters,
         'numeric': {}, 'required': [], 'other': {}}
    for p in ps[1:]:
        if p.name in _FIXED:
            continue
        if p.default is inspect._empty:
            d['required'].append(p.name)
        elif isinstance(p.default, bool):
            d['other'][p.name] = p.default
        elif isinstance(p.default, (int, float)):
            d['numeric'][p.name] = p.default
        else:
            d['other'][p.name] = p.default
    return d


def window1(kw):
    """does this parameter set put a window knob at 1 (the degenerate smallest window)?"""
    return any(v == 1 and any(t in k for t in ('period', 'length', 'window', 'lookback')) for k, v in (kw or {}).items())


def variants(name, f, rng, n_extra=2):
    """parameter dicts to call `f` with: {} (defaults) first, then a few non-default ones found from the
    signature: integer knobs moved to other values >= 2, matype knobs to other averages, float knobs scaled,
    other source types.  A variant the function rejects (raises for every length) is dropped by the caller."""
    d = describe(f)
    out = [{}]
    ints = [k for k, v in d['numeric'].items() if isinstance(v, int) and not any(m in k for m in _MATYPE)]
    mats = [k for k in d['numeric'] if any(m in k for m in _MATYPE)]
    for t in range(n_extra):
        kw = {}
        for k in ints:
            v = d['numeric'][k]
            if v < 2:
                continue
            kw[k] = max(2, rng.choice([v // 2, v - 1, v + 1, v + 3, (3 * v) // 2, 2 * v]))
        # keep fast < slow style orderings: if two knobs were ordered by default, keep the order
        for a in ints:
            for b in ints:
                if a in kw and b in kw and d['numeric'][a] < d['numeric'][b] and not kw[a] < kw[b]:
                    kw[b] = kw[a] + (d['numeric'][b] - d['numeric'][a])
        if mats and t % 2 == 0:
            for k in mats:
                kw[k] = rng.choice([0, 1, 2, 3, 5])
        if d['source_type']:
            kw['source_type'] = rng.choice(SOURCES)
        if kw:
            out.append(kw)
    # small integer selectors (default 0 or 1: `mode`, `devtype`, …): every small value once, all other knobs at defaults
    for k in ints:
        v = d['numeric'][k]
        if isinstance(v, int) and 0 <= v < 2 and any(t in k for t in ('mode', 'type')):
            for alt in range(0, 5):
                if alt != v:
                    out.append({k: alt})
    # knobs whose default 0 switches a term off (`mult` of devstop, `vfactor` of t3): a non-zero value alone and
    # together with every small selector value, so that the selected branch actually reaches the result
    sels = [k for k in ints if 0 <= d['numeric'][k] < 2 and any(t in k for t in ('mode', 'type'))]
    offs = [k for k, v in d['numeric'].items() if v == 0 and k not in sels and k not in mats]
    for k in offs:
        out.append({k: 1.5})
        for s in sels:
            for alt in range(0, 3):
                if alt != d['numeric'][s]:
                    out.append({k: 1.5, s: alt})
    # the smallest windows (1, 2, 3): where a warm-up mask, a shift or a roll no longer hides the first / last rows;
    # one knob at a time, all others at their defaults (a value the function rejects is dropped by the caller)
    for k in ints:
        if d['numeric'][k] >= 2 and any(t in k for t in ('period', 'length', 'window', 'lookback')):
            for small in (1, 2, 3):
                if small != d['numeric'][k]:
                    out.append({k: small})
    # every indicator that smooths through ma(): the common averages once each, all other knobs at their defaults
    for mt in (1, 2, 3):
        if mats:
            out.append({k: mt for k in mats})
    return out


# ----------------------------------------------------------------------------------------------
# candles: rows [timestamp, open, close, high, low, volume]
def candles(rng, n, kind='walk', base=100.0, step=60_000):
    import numpy as np
    rows = []
    p = base
    for i in range(n):
        if kind == 'walk':
            o = p
            c = max(o * (1 + rng.gauss(0, 0.01)), base * 1e-3)
        elif kind == 'trend':
            o = p
            c = o * (1 + 0.004 + rng.gauss(0, 0.002))
        elif kind == 'down':
            o = p
            c = o * (1 - 0.004 + rng.gauss(0, 0.002))
        elif kind == 'flat':
            o = p
            c = p
        elif kind == 'spike':
            o = p
            c = o * (1 + rng.gauss(0, 0.003))
            if rng.random() < 0.05:
                c = o * rng.choice([0.7, 1.4])
        elif kind == 'alt':
            o = p
            c = base * (1.02 if i % 2 == 0 else 0.98)
        elif kind == 'gappy':
            # opens away from the previous close, sometimes beyond the previous candle's whole range
            # (gap-down: previous close above this high; gap-up: previous close below this low)
            o = p
            g = rng.random()
            if g < 0.15:
                o = p * (1 - rng.uniform(0.01, 0.04))
            elif g < 0.30:
                o = p * (1 + rng.uniform(0.01, 0.04))
            c = max(o * (1 + rng.gauss(0, 0.004)), base * 1e-3)
        elif kind == 'stall':
            # a walk with illiquid stretches: runs of candles with open == high == low == close
            o = p
            if (i // 23) % 3 == 1:
                c = p
            else:
                c = max(o * (1 + rng.gauss(0, 0.01)), base * 1e-3)
        elif kind == 'lattice':           # small integers: exact in floats, many ties
            o = p
            c = float(max(1, round(p + rng.choice([-2, -1, 0, 0, 1, 2]))))
        elif kind == 'session':
            # a walk over calendar boundaries: the series starts 23 minutes before 00:00 UTC, and nothing trades (zero
            # volume, flat candle) in its first two minutes, in the first minutes of the new day / of every hour, and now
            # and then in between — what anchored (per day / per hour) indicators and volume-weighted ones must survive
            o = p
            c = p if _quiet(i, rng) else max(o * (1 + rng.gauss(0, 0.01)), base * 1e-3)
        else:
            raise ValueError(kind)
        if kind == 'flat' or (kind == 'stall' and (i // 23) % 3 == 1) or (kind == 'session' and c == o):
            h = l = o
        elif kind == 'lattice':
            h = max(o, c) + rng.choice([0, 0, 1])
            l = max(min(o, c) - rng.choice([0, 0, 1]), 0.5)
        else:
            h = max(o, c) * (1 + abs(rng.gauss(0, 0.002)))
            l = min(o, c) * (1 - abs(rng.gauss(0, 0.002)))
        v = float(rng.randint(1, 50)) if kind in ('lattice', 'flat') else abs(rng.gauss(100, 30)) + 1
        if kind == 'session':
            v = 0.0 if c == o else v
            rows.append([1_599_955_200_000 - 23 * 60_000 + i * step, o, c, h, l, v])      # 2020-09-12 23:37 UTC + i minutes
            p = c
            continue
        rows.append([1_600_000_000_000 + i * step, o, c, h, l, v])
        p = c
    return np.array(rows, dtype=float).reshape(n, 6)


def _quiet(i, rng):
    """minutes of the 'session' series in which nothing trades"""
    m = i - 23                      # minutes since 00:00 UTC
    return i < 2 or 0 <= m < 4 or (m > 0 and m % 60 < 2) or rng.random() < 0.04


KINDS = ['walk', 'trend', 'down', 'flat', 'spike', 'alt', 'lattice', 'gappy', 'stall']


def source_of(c, source_type):
    """the documented meaning of the source types (independent of jh.get_candle_source)"""
    o, cl, h, l, v = c[:, 1], c[:, 2], c[:, 3], c[:, 4], c[:, 5]
    return {'close': cl, 'high': h, 'low': l, 'open': o, 'volume': v, 'hl2': (h + l) / 2, 'hlc3': (h + l + cl) / 3,
            'ohlc4': (o + h + l + cl) / 4}[source_type]


# ----------------------------------------------------------------------------------------------
# results
def fields(res):
    """result of an indicator call -> [(field name, value)] ; namedtuples/tuples are split per field"""
    if isinstance(res, tuple):
        names = getattr(res, '_fields', None) or [str(i) for i in range(len(res))]
        return list(zip(names, list(res)))
    return [('value', res)]


def _elem(x):
    """one entry of a sequential field: float (NaN kept), str (categorical fields such as hull_suit.signal),
    or None (object arrays that use None as 'not available yet')"""
    import numpy as np
    if x is None:
        return None
    if isinstance(x, (str, np.str_)):
        return str(x)
    return float(x)


def as_series(v):
    """sequential field -> list of entries (see _elem), or None when it is not a 1-D series"""
    import numpy as np
    if isinstance(v, np.ndarray) and v.ndim == 1:
        try:
            return [_elem(x) for x in v]
        except (TypeError, ValueError):
            return None
    if isinstance(v, (list, tuple)):
        try:
            return [_elem(x) for x in v]
        except (TypeError, ValueError):
            return None
    return None


def as_scalar(v):
    """non-sequential field -> float (NaN for None is NOT applied here: None stays None)"""
    import numpy as np
    if v is None:
        return None
    if isinstance(v, (str, np.str_)):
        return str(v)
    if isinstance(v, (bool, np.bool_)):
        return float(v)
    if isinstance(v, (int, float, np.floating, np.integer)):
        return float(v)
    if isinstance(v, np.ndarray) and v.ndim == 0:
        return float(v)
    return v


def same(a, b, rel=1e-9, scale=1.0):
    """NaN-aware float agreement: both undefined (NaN / infinite), or |a-b| <= rel*max(scale,|a|,|b|)"""
    if a is None or b is None:
        return a is None and b is None
    if isinstance(a, str) or isinstance(b, str):
        return a == b
    if not isinstance(a, float) or not isinstance(b, float):
        try:
            a = float(a)
            b = float(b)
        except (TypeError, ValueError):
            return False
    # NaN and +-inf are one class "undefined": x/0 on a flat window is NaN, +inf or -inf depending on whether the
    # numerator's rounding residue is 0, +1e-14 or -1e-14 (e.g. zscore / cci on a run of equal prices)
    if a != a or b != b or math.isinf(a) or math.isinf(b):
        return (a != a or math.isinf(a)) and (b != b or math.isinf(b))
    return abs(a - b) <= rel * max(scale, abs(a), abs(b))


def first_diff(xs, ys, rel=1e-9, scale=1.0):
    """index of the first disagreement of two equally long float lists, or None"""
    for i, (a, b) in enumerate(zip(xs, ys)):
        if not same(a, b, rel, scale):
            return i
    return None


def call(f, c, sequential, kw):
    """call an indicator; returns ('ok', result) or ('raise', 'ExcType: msg')"""
    import contextlib
    import io
    import numpy as np
    try:
        with np.errstate(all='ignore'), contextlib.redirect_stdout(io.StringIO()):
            if sequential is None:
                return 'ok', f(c, **kw)
            return 'ok', f(c, sequential=sequential, **kw)
    except Exception as e:  # noqa
        return 'raise', f'{type(e).__name__}: {str(e)[:80]}'


def jsonable_candles(c):
    return [[float(x) for x in row] for row in c]


def candles_from_json(rows):
    import numpy as np
    return np.array(rows, dtype=float).reshape(len(rows), 6)


# ----------------------------------------------------------------------------------------------
# isolation: numba kernels without bounds checks can corrupt the heap on short inputs, so every
# indicator is evaluated in its own forked child; a crash or a timeout is reported, not fatal.
def run_isolated(tasks, fn, workers=12, timeout=600):
    """tasks: list of picklable keys; fn(key) -> picklable result, run in a forked child per key.
    returns {key: ('ok', result) | ('crash', exitcode) | ('timeout', None) | ('error', text)}"""
    import multiprocessing as mp
    import pickle
    import time
    import os
    ctx = mp.get_context('fork')
    pending = list(tasks)
    running = {}
    out = {}

    def child(key, conn):
        try:
            dn = os.open(os.devnull, os.O_WRONLY)      # indicators that print (frama) must not reach the check's stdout
            os.dup2(dn, 1)
            os.dup2(dn, 2)     # glibc abort messages of a corrupted heap
            r = ('ok', fn(key))
        except BaseException as e:  # noqa
            import traceback
            r = ('error', f'{type(e).__name__}: {e}\n' + traceback.format_exc()[-600:])
        try:
            conn.send_bytes(pickle.dumps(r))
        except Exception as e:  # noqa
            conn.send_bytes(pickle.dumps(('error', f'unpicklable result: {e}')))
        conn.close()
        os._exit(0)

    while pending or running:
        while pending and len(running) < workers:
            key = pending.pop(0)
            a, b = ctx.Pipe(duplex=False)
            p = ctx.Process(target=child, args=(key, b))
            p.start()
            b.close()
            running[key] = (p, a, time.time(), [])
        time.sleep(0.01)
        for key in list(running):
            p, a, t0, buf = running[key]
            done = False
            try:
                if a.poll():
                    try:
                        out[key] = pickle.loads(a.recv_bytes())
                    except EOFError:
                        p.join(5)
                        out[key] = ('crash', p.exitcode)
                    done = True
                elif not p.is_alive():
                    if a.poll():
                        continue
                    out[key] = ('crash', p.exitcode)
                    done = True
                elif time.time() - t0 > timeout:
                    p.kill()
                    out[key] = ('timeout', None)
                    done = True
            except (EOFError, OSError):
                out[key] = ('crash', p.exitcode)
                done = True
            if done:
                p.join(5)
                a.close()
                del running[key]
    return out
