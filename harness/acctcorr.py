"""Operation sequences on the real Order/Position/Exchange classes and on the Lean accounts model,
printed as the same canonical state line (see lean/Driver/Acct.lean)."""
from fractions import Fraction

import acct
import purecorr
from core import wire

SYMS = ['BTC-USDT', 'ETH-USDT', 'SOL-USDT']


def fnum(x):
    return purecorr.num(x)


class RealWorld:
    def __init__(self, kind, balance, fee, leverage, nsym, mode='cross'):
        self.kind = kind
        self.nsym = nsym
        self.s = acct.Session(kind, balance, fee, leverage=leverage, mode=mode, symbols=SYMS[:nsym])
        self.e = self.s.exchange
        self.lines = [f'acc init {kind} {wire(balance)} {wire(fee)} {wire(leverage)} {nsym}']
        self.replies = ['ok ' + self.state()]
        self.balance = balance
        self.fee = fee
        self.leverage = leverage

    # ------------------------------------------------------------------ canonical state
    def ordinal(self, o):
        for i, x in enumerate(self.s.orders):
            if x is o:
                return i
        return -1

    def trade_str(self, t):
        if t is None:
            return '_:'
        ty = t.type if t.type else '_'
        return f'{ty}:' + ','.join(str(self.ordinal(o)) for o in t.orders)

    def state(self):
        import jesse.helpers as jh
        st = self.s.store
        e = self.e
        parts = [f'wallet={fnum(e.assets[e.settlement_currency])}']
        if self.kind == 'futures':
            parts.append(f'margin={fnum(e.available_margin)}')
        for i, sym in enumerate(SYMS[:self.nsym]):
            p = self.s.position(sym)
            ent = '_' if p.entry_price is None else fnum(p.entry_price)
            parts.append(f'pos{i}={fnum(p.qty)}@{ent}')
            parts.append(f'pnl{i}={fnum(p.pnl)}')
            b = jh.base_asset(sym)
            if self.kind == 'futures':
                bo, so = e.buy_orders[b], e.sell_orders[b]
                sb = float((bo[:][:, 0] * bo[:][:, 1]).sum()) if len(bo) else 0.0
                ss = float((so[:][:, 0] * so[:][:, 1]).sum()) if len(so) else 0.0
                parts.append(f'buy{i}={fnum(sb)}')
                parts.append(f'sell{i}={fnum(ss)}')
            else:
                parts.append(f'base{i}={fnum(e.assets[b])}')
                parts.append(f'stop{i}={fnum(e.stop_orders_sum.get(sym, 0))}')
                parts.append(f'limit{i}={fnum(e.limit_orders_sum.get(sym, 0))}')
            key = f'{acct.EXCHANGE}-{sym}'
            act = st.orders.active_storage.get(key, [])
            parts.append(f'active{i}=[' + ','.join(str(self.ordinal(o)) for o in act) + ']')
            t = st.completed_trades.tempt_trades.get(jh.key(acct.EXCHANGE, sym))
            parts.append(f'temp{i}=' + self.trade_str(t))
        parts.append('st=' + ''.join({'ACTIVE': 'A', 'EXECUTED': 'E', 'CANCELED': 'C'}[o.status] for o in self.s.orders))
        parts.append('trades=[' + ';'.join(self.trade_str(t) for t in st.completed_trades.trades) + ']')
        # ClosedTrade.pnl of every closed trade (ties Jesse/TradeLog.lean to the real class)
        parts.append(f'TP {len(st.completed_trades.trades)}')
        for t in st.completed_trades.trades:
            parts.append(self.trade_pnl(t))
        return ' '.join(parts)

    @staticmethod
    def trade_pnl(t):
        import math
        import warnings
        with warnings.catch_warnings():
            warnings.simplefilter('ignore')
            try:
                if len(t.buy_orders) == 0 or len(t.sell_orders) == 0 or float(t.buy_orders[:][:, 0].sum()) == 0 \
                        or float(t.sell_orders[:][:, 0].sum()) == 0:
                    return 'nan'
                x = float(t.pnl)
            except Exception:  # noqa
                return 'nan'
        return 'nan' if math.isnan(x) else fnum(x)

    # ------------------------------------------------------------------ operations
    def price(self, i, p):
        self.s.set_price(SYMS[i], p)
        self._log(f'acc price {i} {wire(p)}', 'ok ' + self.state())

    def submit(self, i, side, typ, qty, price, ro):
        line = f'acc submit {i} {side} {typ} {wire(qty)} {wire(price)} {1 if ro else 0}'
        try:
            self.s.submit(SYMS[i], side, typ, qty, price, reduce_only=ro)
            self._log(line, 'ok ' + self.state())
            return True
        except Exception as e:  # noqa
            self._log(line, 'err ' + purecorr.ERRMAP.get(type(e).__name__, 'Other') + ' ' + self.state())
            return False

    def execute(self, k):
        self.s.tick()
        self.s.orders[k].execute()
        self._log(f'acc execute {k}', 'ok ' + self.state())

    def cancel(self, k):
        self.s.orders[k].cancel()
        self._log(f'acc cancel {k}', 'ok ' + self.state())

    def cancel_all(self, i):
        # Sandbox.cancel_all_orders without going through the API driver table
        from jesse.exchanges.sandbox.Sandbox import Sandbox
        Sandbox(acct.EXCHANGE).cancel_all_orders(SYMS[i])
        self._log(f'acc cancel_all {i}', 'ok ' + self.state())

    def update_active(self, i):
        self.s.store.orders.update_active_orders(acct.EXCHANGE, SYMS[i])
        self._log(f'acc update_active {i}', 'ok ' + self.state())

    def _log(self, line, reply):
        self.lines.append(line)
        self.replies.append(reply)


def norm_state(s):
    """make the state line token-comparable: numbers separated from punctuation"""
    out = s
    for ch in '=@[],;:':
        out = out.replace(ch, f' {ch} ')
    return out


def compare(res, worlds, cls='corr/accounts'):
    """run all recorded lines through the Lean driver and diff step by step"""
    import core
    lines, metas = [], []
    for w, meta in worlds:
        metas.append((len(lines), len(w.lines), w, meta))
        lines += w.lines
    outs = core.Driver.run(lines)
    for (start, n, w, meta) in metas:
        for i in range(n):
            res.count(lines[start + i].split()[1])
            a, b = outs[start + i], w.replies[i]
            if not purecorr.tokens_agree(norm_state(a), norm_state(b), rel=1e-8):
                res.fail(**{'class': cls, 'input': {'meta': meta, 'lines': w.lines[:i + 1]},
                            'observed_model': a[:900], 'expected_impl': b[:900]})
                break
        res.seen((tuple(w.lines)), len(w.lines) > 3)
        res.sample({'ops': w.lines[:8], 'final': w.replies[-1][:300]})
