"""Implementation-side oracles evaluated on traces of REAL engine sessions (harness/engcorr.run_real)."""
import copy
import random

import bt
import engcorr
import engine

M = 60_000


def norm_range(cands, j):
    """normalised price range of minute j: extended to the previous close"""
    lo, hi = float(cands[j][4]), float(cands[j][3])
    if j > 0:
        pc = float(cands[j - 1][2])
        lo, hi = min(lo, pc), max(hi, pc)
    return lo, hi


def order_table(tr):
    """per order ordinal: submission, fill and cancel events"""
    t = {}
    for e in tr.events:
        if e[0] == 'SUBMIT':
            _, n, time, sym, side, typ, qty, price, ro, cur = e
            t[n] = {'sym': sym, 'side': side, 'type': typ, 'qty': qty, 'price': price, 'ro': ro, 'cur': cur,
                    'submitted': time, 'filled': None, 'cancelled': None}
        elif e[0] == 'FILL':
            t[e[1]]['filled'] = e[2]
        elif e[0] == 'CANCEL':
            t[e[1]]['cancelled'] = e[2]
    return t


def jumped_over(arr, t0, tr, sym, o, c0, c1):
    """in one of the minutes c0..c1-1 the O-L-H-C / O-H-L-C path reaches the order's price strictly BEFORE the place
    where another order was filled in that minute (the fills of the minute were not made in path order)"""
    for j in range(c0, c1):
        op, c, h, l = (float(arr[j][x]) for x in (1, 2, 3, 4))
        if j > 0:
            pc = float(arr[j - 1][2])
            if pc < op:
                op, l = pc, min(pc, l)
            elif pc > op:
                op, h = pc, max(pc, h)
        path = path_points(op, h, l, c)

        def dist(ps):
            seg, cur = ps
            return sum(abs(path[i + 1] - path[i]) for i in range(seg)) + abs(cur - path[seg])
        reach = advance(path, (0, path[0]), float(o['price']))
        if reach is None:
            continue
        for e in tr.events:
            if e[0] == 'FILL' and e[3] == sym and (int(e[2]) - M - t0) // M == j and e[5] != 'MARKET':
                at = advance(path, (0, path[0]), float(e[7]))
                if at is not None and dist(reach) < dist(at) - 1e-12:
                    return True
    return False


def raw_sort_explains(arr, t0, tr, sym, o, c0, c1):
    """the out-of-order fill that jumped over order `o` happened in an INNER minute of the unit whose raw open differs
    from the previous close, and along that minute's RAW candle (from its raw open) the filled order does come first
    (or `o` is not inside the raw candle at all): the order the fast simulator's sort — which follows the raw minutes
    of the chunk — gives, while the matching follows the jump-fixed minute"""
    for j in range(max(c0 + 1, 1), c1):
        rop, c, rh, rl = (float(arr[j][x]) for x in (1, 2, 3, 4))
        pc = float(arr[j - 1][2])
        if pc == rop:
            continue
        op, h, l = pc, max(rh, pc), min(rl, pc)
        fixed = path_points(op, h, l, c)
        raw = path_points(rop, rh, rl, c)

        def dist(path, ps):
            seg, cur = ps
            return sum(abs(path[i + 1] - path[i]) for i in range(seg)) + abs(cur - path[seg])
        reach_f = advance(fixed, (0, fixed[0]), float(o['price']))
        if reach_f is None:
            continue
        reach_r = advance(raw, (0, raw[0]), float(o['price']))
        for e in tr.events:
            if e[0] == 'FILL' and e[3] == sym and (int(e[2]) - M - t0) // M == j and e[5] != 'MARKET':
                at_f = advance(fixed, (0, fixed[0]), float(e[7]))
                at_r = advance(raw, (0, raw[0]), float(e[7]))
                if at_f is not None and dist(fixed, reach_f) < dist(fixed, at_f) - 1e-12 and at_r is not None \
                        and (reach_r is None or dist(raw, at_r) <= dist(raw, reach_r) + 1e-12):
                    return True
    return False


# ------------------------------------------------------------------------------------------ C02
def c02_violations(sess, cands, tr, step, aborted=False):
    """fills happen exactly when and where the price reaches the order (step = minutes per matching unit:
    1 for the normal simulator, the chunk size for the fast simulator)"""
    out = []
    orders = order_table(tr)
    # a MARKET order is filled before anything else happens to the book: between its submission and its fill no
    # resting (LIMIT / STOP) order may be filled
    ev = tr.events
    pending = {}
    last_fill_price = None
    for e in ev:
        if e[0] == 'SUBMIT' and e[5] == 'MARKET':
            # where the price path stands when the order is submitted = the price of the fill whose hook submits it
            pending[e[1]] = last_fill_price
        elif e[0] in ('FILL', 'CANCEL'):
            k = e[1]
            if e[0] == 'FILL':
                last_fill_price = float(e[7])
            if k in pending:
                del pending[k]
            elif e[0] == 'FILL' and e[5] != 'MARKET' and pending:
                m = next(iter(pending))
                if pending[m] is not None and abs(float(e[7]) - pending[m]) <= 1e-9 * max(1.0, abs(pending[m])):
                    continue          # a resting order at the very price the path stands at: a tie at one instant
                at_path = pending[m] is not None and abs(float(orders[m]['price']) - pending[m]) <= 1e-9 * max(1.0, abs(pending[m]))
                out.append(('market-order-overtaken', m, dict(orders[m], overtaken_by=dict(orders[k], ordinal=k),
                                                              path_position=pending[m], market_priced_at_path_position=at_path)))
                pending.clear()
        elif e[0] == 'DAILY' or e[0] == 'POS':
            pass
    for sym in sess['syms']:
        arr = cands[sym]
        t0 = int(arr[0][0])
        n = len(arr)
        if aborted:
            # the session raised: only the units completed before the exception count
            last_t = max([int(t) for t in getattr(tr, 'event_times', [])] or [t0])
            n = max(0, min(n, ((last_t - M - t0) // M) // step * step))
        for k, o in orders.items():
            if o['sym'] != sym:
                continue
            if o['type'] == 'MARKET':
                if o['filled'] is not None and o['filled'] != o['submitted']:
                    out.append(('market-not-filled-at-submission', k, o))
                if o['cur'] is not None and abs(o['price'] - o['cur']) > 1e-9 * max(1, abs(o['cur'])) and not o['ro']:
                    out.append(('market-not-at-current-price', k, o))
                continue
            end = o['filled'] if o['filled'] is not None else o['cancelled']
            # a fill must be inside the (normalised) range of its minute
            if o['filled'] is not None:
                j = (int(o['filled']) - M - t0) // M
                if 0 <= j < n:
                    if step == 1:
                        lo, hi = norm_range(arr, j)
                    else:
                        c0 = (j // step) * step
                        c1 = min(c0 + step, n)
                        lo = min(norm_range(arr, x)[0] for x in range(c0, c1))
                        hi = max(norm_range(arr, x)[1] for x in range(c0, c1))
                    if not (lo - 1e-12 <= o['price'] <= hi + 1e-12):
                        out.append(('filled-outside-range', k, dict(o, minute=j, range=[lo, hi])))
                    elif step != 1:
                        # the fast simulator stamps a fill with its own minute as well (the clock is set to the end of the
                        # minute that reached the order): that minute's range must contain the price, not just the chunk's
                        lo1, hi1 = norm_range(arr, j)
                        if not (lo1 - 1e-12 <= o['price'] <= hi1 + 1e-12):
                            out.append(('filled-outside-minute-range', k, dict(o, minute=j, range=[lo1, hi1])))
                if o['filled'] < o['submitted']:
                    out.append(('filled-before-submission', k, o))
                if o['cancelled'] is not None:
                    out.append(('filled-and-cancelled', k, o))
            # no missed fill: every complete matching unit the order rested through must not contain its price
            first = (int(o['submitted']) - t0) // M            # first minute index processed after the submission
            last = n if end is None else (int(end) - M - t0) // M
            if end is not None and end == o['submitted']:
                continue
            u0 = -(-first // step) * step
            for c0 in range(u0, n, step):
                c1 = min(c0 + step, n)
                if end is not None and c1 - 1 >= last:
                    break
                if step == 1:
                    lo, hi = norm_range(arr, c0)
                else:
                    lo = min(float(arr[x][4]) for x in range(c0, c1))
                    hi = max(float(arr[x][3]) for x in range(c0, c1))
                    # the chunk's aggregate range (first candle jump-normalised)
                    if c0 > 0:
                        pc = float(arr[c0 - 1][2])
                        o0 = float(arr[c0][1])
                        if pc < o0:
                            lo = min(lo, pc)
                        elif pc > o0:
                            hi = max(hi, pc)
                if lo <= o['price'] <= hi:
                    gap_only = all(not (float(arr[x][4]) <= o['price'] <= float(arr[x][3])) for x in range(c0, c1))
                    out.append(('missed-fill', k, dict(o, unit=[c0, c1], range=[lo, hi], in_gap_only=gap_only,
                                                      jumped_over_by_out_of_order_fill=jumped_over(arr, t0, tr, sym, o, c0, c1),
                                                      sorted_along_raw_inner_minute=(step != 1 and raw_sort_explains(arr, t0, tr, sym, o, c0, c1)))))
                    break
    return out


# ------------------------------------------------------------------------------------------ C08
def path_points(o, h, l, c):
    return [o, l, h, c] if c >= o else [o, h, l, c]


def advance(path, pos, p):
    """pos = (segment index, price on it); returns the first position at/after pos where the path is at p"""
    seg, cur = pos
    while seg < 3:
        a, b = path[seg], path[seg + 1]
        lo, hi = min(cur, b), max(cur, b)
        if lo <= p <= hi:
            return (seg, p)
        seg += 1
        cur = path[seg] if seg < 4 else cur
    return None


def c08_violations(sess, cands, tr):
    """normal simulator: the fills of one minute lie, in order, on one continuous O-L-H-C / O-H-L-C path"""
    out = []
    orders = order_table(tr)
    for sym in sess['syms']:
        arr = cands[sym]
        t0 = int(arr[0][0])
        by_min = {}
        for e in tr.events:
            if e[0] == 'FILL' and e[3] == sym and e[5] != 'MARKET':
                j = (int(e[2]) - M - t0) // M
                by_min.setdefault(j, []).append((e[1], float(e[7])))
        for j, fills in by_min.items():
            if not (0 <= j < len(arr)):
                continue
            o, c, h, l = (float(arr[j][x]) for x in (1, 2, 3, 4))
            if j > 0:
                pc = float(arr[j - 1][2])
                if pc < o:
                    o, l = pc, min(pc, l)
                elif pc > o:
                    o, h = pc, max(pc, h)
            path = path_points(o, h, l, c)
            pos = (0, path[0])
            ok = True
            for (k, p) in fills:
                nxt = advance(path, pos, p)
                if nxt is None:
                    out.append(('fills-not-on-one-path', k, {'minute': j, 'candle[o,h,l,c]': [o, h, l, c],
                                                             'fills': fills, 'order': orders.get(k)}))
                    ok = False
                    break
                pos = nxt
            if not ok:
                continue
            # no order resting since before the minute may be passed by: if the path reaches its price strictly before
            # the position of the last fill, it must have been filled (or cancelled) by then

            def dist(ps):
                seg, cur = ps
                return sum(abs(path[i + 1] - path[i]) for i in range(seg)) + abs(cur - path[seg])
            t_start = t0 + j * M
            filled_here = {k for (k, _) in fills}
            for k, od in orders.items():
                if od['sym'] != sym or od['type'] == 'MARKET' or k in filled_here:
                    continue
                if od['submitted'] is None or int(od['submitted']) > t_start:
                    continue                      # not resting at the start of this minute
                end = od['filled'] if od['filled'] is not None else od['cancelled']
                if end is not None and int(end) <= t_start + M:
                    continue                      # gone before / during this minute
                reach = advance(path, (0, path[0]), float(od['price']))
                if reach is not None and dist(reach) < dist(pos) - 1e-12:
                    out.append(('path-passed-a-resting-order', k, {'minute': j, 'candle[o,h,l,c]': [o, h, l, c], 'fills': fills,
                                                                   'order': od}))
                    break
    return out


# ------------------------------------------------------------------------------------------ C01
def c01_compare(sess, cands, cut, rng):
    """two real runs that share the candles before row `cut`; the traces must agree on every event
    before simulated time t = ts[cut] (hooks carry index/price/position, orders/fills their fields)"""
    cut = cut + sess.get('warmup', 0)       # the arrays start with the warm-up rows
    alt = {}
    for s, arr in cands.items():
        tail_n = max(len(arr) - cut + rng.choice([0, 0, 3, -2]), 1)
        base = float(arr[cut - 1][2]) if cut > 0 else 100.0
        back = sess.get('tail_back') and cut > 1
        if back:
            # the last shared minute opened with a gap: the replacement tail goes straight back across that gap (it starts
            # from the close BEFORE the gap), so every price inside the gap is traded again right after t
            base = float(arr[cut - 2][2])
        rows = engine.gen_candles(rng, tail_n, base=base, vol=sess.get('vol', 4), gap_prob=0.3)
        if not back and rng.random() < 0.5:
            # the replacement tail opens with a jump well beyond the last shared candle's range: an order resting inside
            # the jump must not be touched before t
            d = rng.choice([-1, 1]) * rng.choice([0.5, 1.0, 2.0, 4.0])
            if min(r[3] for r in rows) + d > 1:
                rows = [(r[0] + d, r[1] + d, r[2] + d, r[3] + d) + tuple(r[4:]) for r in rows]
        new = bt.make_candles(rows, start=int(arr[0][0]) + cut * M)
        import numpy as np
        alt[s] = np.concatenate((arr[:cut], new), axis=0) if cut > 0 else new
    future = []

    def no_future(strategy, hook, order=None):
        """whatever hook runs, the candle store holds no candle (of any symbol or timeframe) that starts at or after now"""
        from jesse.store import store
        if future:
            return
        # the fast simulator is only claimed free of look-ahead at trading-candle boundaries (its chunks are stored symbol
        # by symbol, so a hook fired by a mid-chunk fill may see the rest of another symbol's chunk): strategy steps only
        if sess['fast'] and hook not in ('before', 'after'):
            return
        now = store.app.time
        for key, arr in store.candles.storage.items():
            if len(arr) and float(arr[-1][0]) >= now:
                future.append({'hook': hook, 'strategy_index': strategy.index, 'now': int(now), 'series': key,
                               'last_stored_candle_starts_at': int(arr[-1][0])})
                return
    ev1, tr1, err1 = engcorr.run_real(sess, cands, extra_observer=no_future)
    ev2, tr2, err2 = engcorr.run_real(sess, alt, extra_observer=no_future)
    tr1.future_candles = future
    return ev1, ev2, tr1, tr2


def events_before(tr, events, t_cut):
    """the formatted events recorded at simulated time <= t_cut (time is candle ts + 60000 while that candle
    is processed, so these are exactly the events that happened before the candle at t_cut was touched)"""
    out = []
    for e, t in zip(events, tr.event_times):
        if t > t_cut:
            break
        out.append(e)
    return out
