#!/usr/bin/env python3
"""writes /verif/MANIFEST.json from the table below (kept in one place so it stays valid)"""
import json
import os

VERIF = os.path.dirname(os.path.dirname(os.path.abspath(__file__)))

BASE_NOTE = ('Trusted: Lean 4.33 kernel; axioms propext/Classical.choice/Quot.sound only (audited on every run, no sorry/'
             'native_decide/own axioms); the py2lean translator and the correspondence harness (both exercised on every run '
             'against the real code); floats idealised as exact rationals (deviation measured by the oracle pass).')

CHECKS = {
    'C01': dict(
        text='Theorem (C01.step_prefix / C01.fast_prefix), for EVERY user strategy (an arbitrary record of functions of the '
             'observable engine state), every configuration, route set, timeframe set, spot/futures: if two candle inputs agree on '
             'the rows before a cut, the engine model is in the same state (complete trace, candle store, accounts, strategy '
             'memories) after processing the rows before the cut, in the normal simulator (any cut) and in the fast simulator '
             '(cut on a chunk boundary). The proof shows every read of the input arrays at iteration i lies in rows <= i (jump '
             'fix rows i-1,i; windows ending at i; the chunk slice) using faithful Python slice semantics. The engine model is tied '
             'to the real engine by whole-session trace correspondence; oracle: paired real runs with different tails.',
        technique='Lean 4 induction over simulator iterations on a validated engine model (core Lean only); whole-session correspondence; paired-run prefix oracle',
        ref='4 (C01)',
        note='Warm-up injection is covered by the correspondence/oracle only.'),
    'C02': dict(
        text='Proof over the matching part of the engine model (hand model of _get_executing_orders, _sort_execution_orders and '
             'the while-loop of both simulators, with the GENERATED split_candle / candle_includes_price inside), for EVERY user '
             'strategy: when the matching loop of a minute returns, no active order of the symbol has its price inside what '
             'remains of the candle (C02.minute_no_resting_hit; per chunk minute in the fast simulator: '
             'C02.chunk_minute_no_resting_hit), and NO order that existed at the start of the minute and is still active is left with '
             'its price inside the minute\'s range, whatever the hooks fired by the fills submitted, cancelled or replaced in '
             'between (C02.resting_order_never_left_in_range: composition with the frame facts - an existing order keeps its '
             'price, never becomes active again, never re-enters the registry - proved for every engine step of the strategy '
             'layer); the order the sort puts first is the first one the O-L-H-C / O-H-L-C path reaches: '
             'after the split at its price every other candidate still lies in the remaining part, so none is jumped over '
             '(C02.sorted_head_first_on_path, incl. flat-bodied candles and prices on open/high/low/close); an order that is not '
             'active never fills (C02.inactive_order_never_fills); no MARKET order stays queued after the strategy step '
             '(C02.market_queue_drained). Tie: whole-session trace correspondence with the real engine on volatile, gapping, '
             'doji candles with tight ladders and straddles; oracle on real traces: fills inside the extended range of their '
             'minute, never before submission / after cancel, no order left unfilled through a unit that contained its price.',
        technique='Lean 4 theorems over the matching loop for every strategy (induction on the loop, sortedness of the insertion sort, path arithmetic) + whole-session correspondence; fill/missed-fill oracle on real traces',
        ref='4 (C02)',
        note='The composition theorem is for the normal simulator; for the fast simulator only the per-minute loop-return theorem is '
             'proved (the unsorted re-selection there is known finding C02-F1) - see evidence.unproved.'),
    'C03': dict(
        text='Proof over the accounts model (mirrors FuturesExchange/Order/Position branch by branch, with the GENERATED '
             'estimate_PNL / estimate_average_price inside; tied by step-by-step correspondence with the real objects): one '
             'executed order changes wallet, size and average entry exactly as one fill of a reference average-cost margin '
             'account in every branch (open, increase, reduce, close, oversize reduce-only, flip), fee on every fill, '
             'reduce-only fills never increase or flip, a non-reduce-only order is rejected iff notional/leverage exceeds the '
             'available margin (state unchanged), and submit-then-cancel restores the available margin exactly (also with '
             'duplicate rows), for any number of symbols.',
        technique='Lean 4 refinement to a reference margin account (case analysis over all branches) + algebraic margin lemmas; line-protocol correspondence; exact reference oracle',
        ref='4 (C03)',
        note='The refinement theorem is stated for one symbol per world; multi-symbol margin sharing is covered by rejection_iff / submit_cancel (any number of symbols) and by correspondence.'),
    'C04': dict(
        text='Proof over the accounts model (mirrors SpotExchange/Order/Position branch by branch; tied by step-by-step '
             'correspondence with the real objects): the resting-sells sums equal the sums over the active STOP/LIMIT sells '
             'after EVERY history of accepted submissions, executions and cancellations (invariant), hence a sell is rejected '
             'exactly when it plus the resting sells of its kind exceeds the base held and a buy exactly when its cost exceeds '
             'the free quote; a buy reserves qty*price and cancelling releases exactly that; fills credit/debit as the cash '
             'account; balances never negative. The no-short / position=base clause is false at operation level (witness '
             'theorem + known finding C04-F1).',
        technique='Lean 4 invariant over operation histories on a hand model; line-protocol correspondence with real SpotExchange; exact cash-account oracle',
        ref='4 (C04)',
        note='One traded symbol in the theorems; position=base holds only when no sell executes on a closed position (C04-F1).'),
    'C05': dict(
        text='Proof over the accounts model: executing or cancelling an order that is already final (or unknown) leaves the '
             'ENTIRE state unchanged (balances, positions, margin tables, registries, trade records), in spot and futures; one '
             'execute/cancel call moves every status along active -> executed|canceled at most once and never back (transitive '
             'over histories); after update_active_orders the registry of a symbol is exactly its listed non-final orders; an '
             'executed order is appended exactly once to the trade under construction. Over the ENGINE model, for every strategy '
             '(arbitrary hooks), every candle input and both simulators, from every state: each existing order takes at most one '
             'terminal transition until the end of the run, a final status is the same after every later minute, symbol and price '
             'never change and a final order never returns to a registry (frame relation proved for every engine function). Tie: '
             'step-by-step correspondence incl. duplicate calls and cancel-all; engine correspondence; engine sessions traced for '
             'double finalisation, registry and trade membership.',
        technique='Lean 4 theorems over the accounts model (state equality for no-ops, status order, registry filter) and over whole runs of the engine model (frame relation, induction over fuel/candles/iterations); correspondence; traced engine sessions',
        ref='4 (C05)'),
    'C06': dict(
        text='Proof over the accounts model (futures, one symbol; Order.execute with the GENERATED estimate_PNL / '
             'estimate_average_price inside, trade records as in CompletedTrades, ClosedTrade.qty/entry_price/exit_price/pnl '
             'modelled in Jesse/TradeLog.lean): one legal fill keeps the world well-formed (position = recorded buys - sells; '
             'flat <=> empty running trade; open <=> running trade of the position\'s side), appends the order and its row to '
             'the running trade, produces exactly one closed trade - the running one - exactly when the position returns to '
             'zero, and leaves wallet - sum(net PnL of closed trades) - open-cycle term invariant (C06.fill_step); by induction '
             'for every legal history (C06.history_ledger); hence whenever the position is flat the wallet has moved by exactly '
             'the net PnL of the closed trades (C06.net_pnl_equals_wallet_change), and a closed trade\'s PnL is sells - buys - '
             'fee*(both notionals) of its fills (C06.closed_trade_pnl). Hook reporting (one matching hook per fill) is decided '
             'on the engine model by whole-session correspondence and by the trade-log oracle on real traces. Oversize '
             'reduce-only fills and flips are excluded by the hypotheses: there the unchanged code violates the property '
             '(known findings C06-F1/F2).',
        technique='Lean 4 invariant + ledger identity by induction over fill histories (Mathlib field_simp/ring in lemmas); step-by-step accounts correspondence incl. ClosedTrade.pnl; whole-session correspondence; trade-log oracle',
        ref='4 (C06)',
        note='One traded symbol per world in the theorems (several symbols sharing a wallet: correspondence + oracle). Open/close times of trades are checked by the oracle only.'),
    'C07': dict(
        text='Proof: the GENERATED generate_candle_from_one_minutes is the aggregation (window start, first open, last close, '
             'max high, min low, summed volume) for every non-empty list; the GENERATED gap normalisation only moves the open '
             'to the previous close and extends low/high; under the store invariant (complete windows + at most one partial '
             'candle of the forming window) the model of get_candles / get_current_candle returns exactly one candle per '
             'started window, the last one the aggregate of the forming window. STORE PROTOCOL, for every store content and '
             'timeframe: the four write operations of the simulators (new minute, replace last minute, publish the forming '
             'window before an execution or a forced close, close a window) keep a pre-invariant resp. establish the store '
             'invariant, and the rows the publish step selects by timestamp arithmetic are the window of the last stored '
             'minute. ENGINE, for EVERY user strategy: no function of the strategy layer (order execution with its hooks, '
             'a strategy step, the market-order queue, the route step, the end of the run) writes the candle store, and the '
             'engine model\'s partial-candle update turns the pre-invariant into the invariant for every timeframe of the symbol. '
             'RUN LEVEL (runStepN_all): in the normal simulator, for any number of symbols, any set of timeframes per symbol and '
             'every strategy, after each iteration every symbol\'s store holds exactly its normalised input rows so far and '
             'satisfies the store invariant for every timeframe (so every reader gets one candle per started window, each the '
             'aggregate of its minutes), or the run was stopped by an error; runSkipN_all states the same for the FAST simulator '
             '(chunks of step minutes, per-minute matching inside a chunk, add_multiple_1m_candles, generation at the chunk end) '
             'for timeframes that are multiples of the chunk size. Tie: translator + store and '
             'whole-session correspondence; oracle on real sessions reads every timeframe at every hook (liquidation hooks '
             'included) in both simulators.',
        technique='Lean 4 theorems over generated aggregation + hand store and engine models (window decomposition, invariant, write protocol, frame for the strategy layer); correspondence; every-hook session oracle',
        ref='4 (C07), 8.2',
        note='Not yet theorems: warm-up injection; runSkipN_all / runSkipN_gcd assume that all input arrays of the session have one length (evidence.unproved).'),
    'C08': dict(
        text='Proof over the definition of split_candle REGENERATED from the source on every run: it equals the cut of the '
             'continuous O-L-H-C / O-H-L-C path at the first visit of the price (full functional spec), hence valid parts, '
             'O/H/L/C kept, parts meet at the price; for all rational candles and prices. The matching loop (sort + re-selection '
             'on the remaining candle + reactions) is modelled in the engine model and tied to the real normal simulator by '
             'whole-session trace correspondence; path oracle on real traces (fills of one minute lie in order on one path).',
        technique='Lean 4 theorem over py2lean-generated definition (ite_elim walk + grind); translator cross-check; lattice-exhaustive oracle',
        ref='4 (C08)'),
    'C09': dict(
        text='Proof over the generated liquidation_price / bankruptcy_price / margin-rate formulas: bankruptcy < liquidation < '
             'entry (mirrored for shorts) for every real leverage in [1,250), none in cross/spot, loss at bankruptcy = initial '
             'margin; and over the engine model of _check_for_liquidations, for every strategy: the check changes the state ONLY '
             'in an isolated-margin futures session with an open position whose liquidation price lies in the candle '
             '(C09.liquidation_only_when_touched), and then it submits exactly one MARKET, reduce-only order on the closing side '
             'for the whole position at the bankruptcy price, executes it at once and counts one liquidation '
             '(C09.liquidation_when_touched). Which candle the check is given (the whole minute / chunk, after the resting orders) '
             'is tied by whole-session correspondence on isolated sessions at leverage up to 100 and by the trace oracle.',
        technique='Lean 4 theorems over generated Position formulas and the engine model; translator cross-check on real Position objects; whole-session correspondence; liquidation oracle on real traces',
        ref='4 (C09)'),
    'C10': dict(
        text='Proof over the generated decision bodies of _submit_buy/sell_orders and the generated Broker methods: order type is '
             'a function of p vs current price only (0.015% band -> MARKET, better -> LIMIT, worse -> STOP; exits LIMIT on the '
             'profit side, STOP on the loss side, reduce-only, closing side), quantity and price exact, fall-through unreachable. '
             'Engine model (every strategy state): when a modified stop-loss / take-profit declaration is handled, every exit '
             'order that was active and tagged with that kind before is no longer active afterwards '
             '(resubmit_leaves_no_previous_exit). Reconciliation over whole runs: engine correspondence + oracles.',
        technique='Lean 4 theorems over generated routing functions and the engine model; translator cross-check on real Strategy/Broker objects; routing-table and reconciliation oracles',
        ref='4 (C10)'),
    'C11': dict(
        text='Proof over a hand model of the process-wide state that outlives a research.backtest call (the config memo '
             'CACHED_CONFIG with its fill-on-first-read rule, config[env][exchanges] shared with its shallow backup, the '
             'warm-up size, the api.drivers registry; set_config / reset_config / Broker start-up / aborted sessions that skip '
             'reset_config): for EVERY history of earlier calls (other exchange names, spot/futures, leverage, mode, fee, '
             'balance, warm-up, aborted or not) a probe call runs with exactly the effective parameters of its own arguments '
             '(C11.call_effective, C11.history_independent) and its orders reach a driver. Tie: effective parameters observed '
             'inside real sessions over random call histories in one process; oracle: probe after history vs probe in a '
             'fresh process (metrics, observations, arguments deep-unmodified).',
        technique='Lean 4 invariant-free history theorem on a hand session-state model; in-process call-history correspondence; fresh-process oracle',
        ref='4 (C11)',
        note='The engine run itself is a black box in this model (its determinism given equal effective parameters and '
             'candles is exercised by the fresh-process oracle, not proved); store.reset() completeness is covered by the oracle only.'),
    'C12': dict(
        text='PARTIAL proof over the engine model of BOTH simulators, for every strategy: over every span in which no resting '
             'order of the symbol is reachable (no active order price inside the aggregate candle of the chunk) and no '
             'liquidation is possible, the normal simulator - minute by minute over the jump-fixed rows - and the fast simulator '
             '- the chunk at once - end in the same trading state: accounts incl. current price, orders, strategy states, '
             'pending market orders, trace, equity samples (C12.quiet_span_agree_partial, with C12.quiet_minute_partial / '
             'C12.quiet_chunk_partial): fills are the only source of divergence. The full statement (spans with one fill) is '
             'decided by the paired-run oracle: the same real session under fast_mode False/True, filtered by the property\'s '
             'hypothesis on the normal run (at most one resting order filled per trading-candle span, no liquidation), must '
             'give equal executed orders (side, type, qty, price, minute), closed trades and final balances; strategies gate '
             'their entries on data-route candles. Both model simulators are tied to the real ones by per-simulator '
             'whole-session correspondence.',
        technique='Lean 4 theorems over the step and chunked simulators (quiet spans) + per-simulator correspondence; paired-run oracle under the stated hypothesis',
        ref='4 (C12)',
        note='Not proved: equality of the candle stores of the two simulators, and the spans that contain a fill (evidence.unproved).'),
    'C13': dict(
        text='Proof that 50 hand models of indicator kernels (sma, ema, wma, smma, wilders, dema, tema, trima, rsi, macd x3, stoch/stochf, '
             'cci, mfi, stddev/var, bollinger x3, keltner x3, donchian x3, willr, roc, mom, obv, tr/atr, dm, di, adx, 4 price transforms; '
             'same loops, seeds and index arithmetic as the Python kernels, NaN = none) are causal for ALL inputs: the first k rows '
             'depend only on the first k candles, for every source type; minmax is causal except in its last `order` rows. For the '
             'kernels that are NOT causal on the unchanged tree (rma, dx, emd, lrsi, er, mab) a kernel-evaluated witness is proved '
             'instead and the deviation is a known finding. Tie: every kernel is compared (exact rationals vs floats, 1e-7) with the '
             'real indicator on seeded candles on every run. All ~166 sequential public indicators, modelled or not, are searched by '
             'the prefix oracle ind(c[:k]) == ind(c)[:k].',
        technique='Lean 4: Causal closure lemmas for scan/prefix-map/trailing-window combinators, decide +kernel witnesses; line-protocol correspondence with the real indicators; all-indicator prefix oracle in forked processes',
        ref='4 (C13)',
        note='Indicators outside the modelled list are covered by search only (listed in evidence coverage.oracle.notes). Kernels are over Rat with NaN-free input; rma_fast\'s isnan branch is not modelled. Open findings C13-F1..F7 (rma, dx, emd, lrsi, er, mab, alligator).'),
    'C14': dict(
        text='Proof (C14.standard_wrapper) that for EVERY length-preserving kernel under the standard wrapper (slice_candles + '
             '`res if sequential else res[-1]`) the sequential result has one entry per candle, its last entry is the non-sequential '
             'result for <= 240 candles, and the non-sequential result is always the last sequential entry on the trailing 240 candles; '
             'length preservation proved for every modelled kernel; C14.table_standard: the wrapper shape of all 174 public indicators, '
             're-read from the AST on every run, is standard (150) or one of 18 pinned documented exemptions (minmax order+1, '
             'separately computed modes, None-for-NaN, early returns) or has no sequential mode (6). Length preservation of unmodelled '
             'kernels and the three clauses are examined on the real code for all indicators at lengths 10..481.',
        technique='Lean 4 generic wrapper theorem + decide +kernel over a table regenerated by py2lean/indwrappers.py (AST walk) with a committed baseline; all-indicator length/last/window oracle',
        ref='4 (C14)',
        note='Exempt wrappers are pinned by their exact extracted shape (a cosmetic edit of such a return statement is reported as a broken tie). Open findings C14-F1..F6 (squeeze_momentum, adx, cfo, donchian, mfi, tsf on short inputs).'),
    'C15': dict(
        text='Proofs against independent textbook definitions (Spec/Ind.lean) for ALL inputs: sma = window mean (convolution form), '
             'wma = linearly weighted mean, roc/mom/transforms/obv = their formulas, donchian = window max/min with ordering and '
             'enclosure, willr/%K/rsi/mfi in range, ema/atr seed = mean of first p and exact recurrence step, wilders/rma step, '
             'seed independence ((1-a)^(i+1) x seed difference), tr/atr/stddev non-negative, bollinger/keltner ordered for every '
             'non-negative sqrt, sma/wma/ema homogeneous, macd/dema/tema as compositions, and ma() dispatches every matype to the '
             'function its docstring names (table re-read from ma.py on every run). The real indicators are compared with plain-Python '
             'textbook references for periods 2..60, all sources, constant/monotone/alternating/huge/tiny prices.',
        technique='Lean 4 theorems over hand kernels tied by correspondence; generated ma dispatch table + decide +kernel; textbook-reference oracle (exact / step / after seed decay), ranges, orderings, homogeneity, selector equality',
        ref='4 (C15)',
        note='sqrt is abstract in the kernels (theorems for every non-negative sqrt; the driver uses an integer square root to 1e-20). Not proved: var >= 0, cci/trima/stoch exact equality to Spec (covered by the reference oracle). Open findings C15-F1 (di out of range from its sum/mean seeds) and C15-F2 (smma NaN by overflow on long sequential input).'),
    'C16': dict(
        text='Proof over a hand model of metrics.trades, of the pandas daily-return pipeline (pct_change with its NaN first row, '
             'max_drawdown / the Calmar drawdown with fillna(0), the rational ingredients of Sharpe/Sortino/Omega/CAGR) and of the equity '
             'sampling of both simulators: for every trade list total = winners + losers + break-even, win rate with the code\'s guard, '
             'net = sum PnL = gross profit + gross loss, net %, longs + shorts = total and percentages = shares summing to 100, fee = sum, '
             'largest/average win and loss, expectancy = mean PnL of the decided trades, and the vectorised NumPy streak formula = longest '
             'win run / longest loss run / signed current run (zeros break runs); max drawdown = the standard drawdown of the whole '
             'balance series (start included) and <= 0, Calmar\'s drawdown likewise, Sortino downside = sum neg^2 / N; sample count = '
             '1 + floor((n-1)/1440) + 1 in the step simulator and for every chunk dividing a day; a futures sample = wallet + open PnL, '
             'a spot sample = free + all reserved quote + value of held base, both invariant under permutation of the routes. The one '
             'full statement the unchanged code still violates (fast mode with only 3D/1W/1M routes records one sample per multi-day chunk '
             'instead of one per day) is kept with a _partial theorem, the exact hypothesis, the theorem of what the code computes for '
             'every route list and a kernel-checked counter-witness, and is recorded as known finding C16-F5. Tie: correspondence of the '
             'model with the real metrics.trades on structured synthetic trade lists and balance series and with real backtests (chunk, '
             'sampled indices, sample values).',
        technique='Lean 4 induction over trade lists / balance series / session lengths (core Rat, omega, Mathlib field_simp in lemmas); '
                  'line-protocol correspondence with real metrics.trades and real backtests; Fraction-recomputed identity oracle, '
                  'standard-definition ratio oracle, equity series captured by wrapping save_daily_portfolio_balance',
        ref='4 (C16)',
        note='sqrt and real powers are not modelled: Sharpe, Sortino, annual return and Calmar are tied through their rational '
             'ingredients (mean, sample variance, downside mean square, growth, years) and recomputed in floats by the oracle; '
             'serenity_index is not covered. ClosedTrade.pnl/fee themselves belong to C06.'),
    'C17': dict(
        text='Proof over the generated size_to_qty / risk_to_qty / risk_to_size / floor_with_precision / round_decimals_down / '
             'limit_stop_loss / max_timeframe and the three timeframe tables: never overspends (fees included), never over-risks, '
             'within one precision step of the exact quotient, never rounds up, stop never widens, tables agree, max_timeframe is '
             'the longest for every list. Float excess is measured by the oracle and recorded as known findings.',
        technique='Lean 4 theorems (Rat, floor lemmas, decide +kernel on tables) over generated helpers; float oracle; fresh real accounts',
        ref='4 (C17)'),
    'C18': dict(
        text='Refinement proof: a hand model of DynamicNumpyArray (same index arithmetic, growth, re-pad and drop rules, NumPy '
             'semantics on the backing array) refines a plain Python list under an invariant, method by method (len, a[i], '
             'a[s:e] with negative/omitted bounds, item assignment, equal-length slice assignment, append, append_multiple, delete, flush, last, past) and, by '
             'induction, for every operation history, with and without drop_at; the model raises exactly where the list does. '
             'Tie: step-by-step correspondence of the model with the real class on seeded operation sequences.',
        technique='Lean 4 refinement + invariant induction over operation lists; line-protocol correspondence with the real class; bounded-exhaustive + random list oracle',
        ref='4 (C18)',
        note='Equal-length slice assignment has its own method theorem (refines_setSlice) but is not an operation of the history theorem; histories containing it are covered by correspondence and the list oracle.'),
    'C19': dict(
        text='Proof over the generated convert_number and per-gene body of dna_to_hp plus hand models of its loop and of '
             '_prepare_routes/_init_objects: in range, integers for int, endpoints, monotone through half-even rounding, '
             'positional, alphabet = code points 40..119, precedence explicit > dna() > defaults per route for any route list.',
        technique='Lean 4 theorems over generated decoder + hand loop models tied by correspondence with real dna_to_hp and real backtests',
        ref='4 (C19)'),
    'C20': dict(
        text='Proof over hand models (tied by correspondence) of _fill_absent_candles and of the candle store: exactly one '
             'candle per minute, timestamps start+60000k, provided candles kept, missing minutes flat at the previous close / '
             'first open, for every pattern of present minutes; stored timestamps stay strictly increasing under every sequence '
             'of new / repeated / older / unknown / zero-timestamp additions (invariant by induction), new appends, a stored '
             'timestamp is replaced in place; the spacing check rejects.',
        technique='Lean 4 induction over the fill loop and Pairwise invariant over add sequences; correspondence with the real functions; exhaustive bitmask oracle',
        ref='4 (C20)',
        note='The store model uses plain lists (DynamicNumpyArray = list is C18; composition not mechanised).'),
}


def main():
    checks = []
    for pid in sorted(CHECKS):
        c = CHECKS[pid]
        checks.append({
            'property_id': pid,
            'quick_cmd': f'./check {pid} --tier quick',
            'thorough_cmd': f'./check {pid} --tier thorough',
            'evidence_file': f'evidence/{pid}.json',
            'replay_cmd_template': './check replay {path}',
            'engine': 'lean4-proof',
            'level_claimed': {'category': 'proof', 'text': c['text'], 'design_ref': 'DESIGN.md section ' + c['ref']},
            'level_note': BASE_NOTE + (' ' + c['note'] if c.get('note') else ''),
            'technique': c['technique'],
        })
    all_ids = [f'C{i:02d}' for i in range(1, 21)]
    na = [{'property_id': p, 'reason': NOT_YET.get(p, 'model not built yet in this revision; nothing is claimed on the strength of an oracle alone (DESIGN 6.1)')}
          for p in all_ids if p not in CHECKS]
    doc = {
        'version': 1,
        'setup_cmd': 'export PATH=/opt/veriftools/lean/bin:$PATH; cd lean && lake build Jesse Spec Driver Proofs',
        'hooks': {
            'guard': 'JESSE_VERIF',
            'enable': 'no source hooks are needed: checks observe jesse from a harness process (Strategy subclasses, wrappers installed at harness start)',
            'baseline_off_cmd': 'cd /repo && /venv/bin/python -m pytest -ra -q -p no:cacheprovider --timeout=900 --continue-on-collection-errors',
            'source_commits': [],
            'add_only': True,
        },
        'engines': [{'name': 'lean4-proof', 'path': 'lean/', 'serves_properties': sorted(CHECKS),
                     'kind_free_text': 'Lean 4 model (generated by py2lean from /repo + hand models tied by correspondence) with property theorems; harness in harness/'}],
        'checks': checks,
        'not_applicable': na,
        'notes': 'exit 0 held / 1 VIOLATION / 2 infrastructure. Known findings in known_findings.json.',
    }
    with open(os.path.join(VERIF, 'MANIFEST.json'), 'w') as f:
        json.dump(doc, f, indent=1)


NOT_YET = {}

if __name__ == '__main__':
    main()
