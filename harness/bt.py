"""Running the real `research.backtest` from the harness with strategy classes and synthetic candles."""
import jesse_env

T0 = 1_600_000_000_000   # multiple of 60_000; 2020-09-13T12:26:40Z
EXCHANGE = 'Sandbox'


def T0_aligned(minutes=1440):
    """a start timestamp aligned to `minutes` (jesse's own loader starts sessions at 00:00 UTC)"""
    step = minutes * 60_000
    return (T0 // step) * step


def make_candles(rows, start=None):
    """rows: [(o, c, h, l, v)] -> numpy array with 1m timestamps"""
    import numpy as np
    start = T0_aligned() if start is None else start
    return np.array([[start + i * 60_000, o, c, h, l, v] for i, (o, c, h, l, v) in enumerate(rows)], dtype=float)


def config(kind='futures', balance=10_000, fee=0.0, leverage=1, mode='cross', warmup=0, exchange=EXCHANGE):
    return {'starting_balance': balance, 'fee': fee, 'type': kind, 'futures_leverage': leverage,
            'futures_leverage_mode': mode, 'exchange': exchange, 'warm_up_candles': warmup}


def run(cfg, routes, data_routes, candles, warmup_candles=None, hyperparameters=None, fast_mode=False, **kw):
    """routes: [(symbol, timeframe, StrategyClass)], data_routes: [(symbol, timeframe)],
    candles: {symbol: ndarray}.  Returns research.backtest's result."""
    jesse_env.setup()
    from jesse import research
    import jesse.helpers as jh
    # the process-wide config memo survives research.backtest calls (property C11 is about exactly that);
    # every harness session must start from a clean memo so that sessions do not contaminate each other
    jh.CACHED_CONFIG.clear()
    ex = cfg['exchange']
    rs = [{'exchange': ex, 'strategy': s, 'symbol': sym, 'timeframe': tf} for (sym, tf, s) in routes]
    ds = [{'exchange': ex, 'symbol': sym, 'timeframe': tf} for (sym, tf) in data_routes]
    cs = {f'{ex}-{sym}': {'exchange': ex, 'symbol': sym, 'candles': arr} for sym, arr in candles.items()}
    ws = None
    if warmup_candles:
        ws = {f'{ex}-{sym}': {'exchange': ex, 'symbol': sym, 'candles': arr} for sym, arr in warmup_candles.items()}
    return research.backtest(cfg, rs, ds, cs, warmup_candles=ws, hyperparameters=hyperparameters,
                             fast_mode=fast_mode, **kw)
