"""Cross-check of translated (generated) Lean definitions against the real Python functions:
same inputs through `call <fn> …` of the Lean driver and through the real function."""
from fractions import Fraction

import core


def canon_value(v):
    """python value -> reply tokens as the driver prints them"""
    import numpy as np
    if v is None:
        return 'none'
    if isinstance(v, (bool, np.bool_)):
        return 'ok 1' if v else 'ok 0'
    if isinstance(v, (int, float, np.floating, np.integer)):
        return 'ok ' + num(v)
    if isinstance(v, str):
        return 'ok ' + v
    if isinstance(v, np.ndarray) and v.ndim == 1:
        return 'ok ' + ' '.join(num(x) for x in v)
    if isinstance(v, tuple) and all(isinstance(x, np.ndarray) for x in v):
        return 'ok ' + ' | '.join(' '.join(num(x) for x in a) for a in v)
    raise ValueError(f'cannot canonicalise {v!r}')


def num(x):
    x = float(x) if not isinstance(x, int) else x
    if isinstance(x, float):
        if x != x:
            return 'nan'
        if x in (float('inf'), float('-inf')):
            return 'inf' if x > 0 else '-inf'
        if x == int(x) and abs(x) < 1e15:
            return str(int(x))
        return repr(x)
    return str(x)


ERRMAP = {
    'ValueError': 'ValueError', 'TypeError': 'TypeError', 'IndexError': 'IndexError', 'KeyError': 'KeyError',
    'InsufficientMargin': 'InsufficientMargin', 'InsufficientBalance': 'InsufficientBalance',
    'OrderNotAllowed': 'OrderNotAllowed', 'InvalidStrategy': 'InvalidStrategy',
    'EmptyPosition': 'EmptyPosition', 'OpenPositionError': 'OpenPositionError',
    'InvalidTimeframe': 'InvalidTimeframe', 'NotImplementedError': 'NotImplemented',
    'ZeroDivisionError': 'ZeroDivisionError',
}


def call_py(thunk):
    try:
        return canon_value(thunk())
    except Exception as e:  # noqa
        return 'err ' + ERRMAP.get(type(e).__name__, 'Other:' + type(e).__name__)


def tokens_agree(a, b, rel=1e-9):
    ta, tb = a.split(), b.split()
    if len(ta) != len(tb):
        return False
    for x, y in zip(ta, tb):
        if x == y:
            continue
        try:
            fx, fy = Fraction(x), Fraction(y)
        except (ValueError, ZeroDivisionError):
            return False
        if not core.close(fx, fy, rel):
            return False
    return True


def cross_check(res, cases, cls_prefix='corr/translator'):
    """cases: [(driver_fn, [wire args], thunk, label)]"""
    lines = ['call ' + fn + ''.join(' ' + a for a in args) for (fn, args, _, _) in cases]
    outs = core.Driver.run(lines)
    for (fn, args, thunk, label), line, out in zip(cases, lines, outs):
        py = call_py(thunk)
        res.seen((fn, tuple(args), out), nontrivial=not out.startswith('err') or True)
        res.count(fn)
        res.count('reply:' + out.split()[0] if out else 'reply:empty')
        if out == 'bad-op':
            res.fail(**{'class': f'{cls_prefix}/{fn}', 'input': line, 'expected': py, 'observed': out,
                        'how': 'driver rejected the request'})
            continue
        # float division by zero etc.: the model has no counterpart -> not comparable, count it
        if py.startswith('err ZeroDivisionError') or 'nan' in py.split() or 'inf' in py.split() or '-inf' in py.split():
            res.discarded += 1
            continue
        if not tokens_agree(out, py):
            res.fail(**{'class': f'{cls_prefix}/{fn}', 'input': line, 'expected_impl': py, 'observed_model': out,
                        'how': f'real {label} vs generated Lean definition'})
        res.sample({'request': line, 'model': out, 'impl': py})
