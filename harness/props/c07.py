"""C07 — every timeframe is the exact aggregation of the one-minute candles."""
import acct
import bt
import core
import engine
import jesse_env
import purecorr
from core import wire

M = 60_000
TFM = {'1m': 1, '3m': 3, '5m': 5, '15m': 15, '30m': 30, '45m': 45, '1h': 60, '2h': 120, '3h': 180, '4h': 240}


def cw(c):
    return ' '.join(wire(x) for x in c)


def show(cs):
    return '[' + ';'.join(' '.join(purecorr.num(x) for x in c) for c in cs) + ']'


def norm(s):
    return s.replace('[', '[ ').replace(']', ' ]').replace(';', ' ; ')


def aggregate(rows):
    return [rows[0][0], rows[0][1], rows[-1][2], max(r[3] for r in rows), min(r[4] for r in rows), sum(r[5] for r in rows)]


class C07(core.Check):
    pid = 'C07'
    unproved = [
        'the run-level theorems runStepN_all (normal simulator) and runSkipN_all (fast simulator) cover whole runs for any number of symbols and timeframes and every strategy; runSkipN_gcd is the fast-simulator statement for the own chunk size of the simulator (gcd of the route timeframes, proved to divide every timeframe); both assume that all input arrays have one length; what a hook reads BETWEEN two protocol operations is covered by publish_establishes_inv / the frame lemmas, and by the every-hook get_candles oracle on real sessions',
        'warm-up injection is modelled and proved at STORE level (inject_warmup_establishes_inv: the injection leaves StoreInv for every timeframe, any warm-up length); the ENGINE model still starts from empty stores, so that a run with warm-up keeps the invariant is the run-level theorem from that state only by analogy — decided by the oracle sessions with warm-up',
    ]
    gen_keys = ['jesse/services/candle.py:generate_candle_from_one_minutes', 'jesse/modes/backtest_mode.py:_get_fixed_jumped_candle']
    rule = ('translator cross-check of generate_candle_from_one_minutes and _get_fixed_jumped_candle; correspondence of the '
            'store model (get_candles / get_current_candle on stores holding complete windows, a forming window, a stale '
            'partial candle, an empty long array) with the real CandlesState; oracle: real backtests (both simulators, 1-2 '
            'symbols, trading timeframe 1m..15m, larger data-route timeframes, warm-up on/off, scripted strategies that get '
            'filled) in which every hook reads every route timeframe through get_candles / get_current_candle / '
            'self.candles and each candle is compared with the aggregate of the readable 1m candles of its aligned window, '
            'one candle per started window, and the stored 1m candles with the (jump-normalised) input; also the warm-up '
            'injection and the candle-generation helper; non-trivial = a forming window or a fill was observed; '
            'distinct = distinct (session, observation point)')
    assumptions = ['sessions start and warm-up lengths are aligned to every route timeframe (as the property states)',
                   'the store model keeps candles in plain lists (DynamicNumpyArray = list is C18)']

    # ------------------------------------------------------------------ correspondence
    def correspondence(self, res, boost):
        jesse_env.setup()
        import numpy as np
        from jesse.services import candle as cs
        from jesse.modes import backtest_mode as bm
        r = self.rng
        batch = []
        for _ in range(self.budget(150, 3000, boost)):
            n = r.choice([0, 1, 2, 3, 5, 15])
            rows = engine.gen_candles(r, n)
            arr = bt.make_candles(rows) if n else np.zeros((0, 6))
            m = r.choice([n, n, 3, 5, 15]) or 3
            tf = {1: '1m', 2: '3m', 3: '3m', 5: '5m', 15: '15m'}.get(m, '5m')
            m = TFM[tf]
            acc = r.random() < 0.7
            batch.append(('generate_candle', [str(m), '1' if acc else '0'] + [wire(x) for row in arr for x in row],
                          (lambda tf=tf, arr=arr, acc=acc: cs.generate_candle_from_one_minutes(tf, arr.copy(), acc)),
                          'generate_candle_from_one_minutes'))
            if n >= 2:
                p, k = arr[0].copy(), arr[1].copy()
                batch.append(('fix_jump', [wire(x) for x in p] + [wire(x) for x in k],
                              (lambda p=p, k=k: bm._get_fixed_jumped_candle(p.copy(), k.copy())), '_get_fixed_jumped_candle'))
        purecorr.cross_check(res, batch)
        # store: get_candles / get_current_candle
        s = acct.Session('futures', 10_000, 0.0)
        from jesse.store import store
        from jesse.libs import DynamicNumpyArray
        import jesse.helpers as jh
        lines, expect = [], []
        for _ in range(self.budget(200, 4000, boost)):
            tf = r.choice(['3m', '5m', '15m'])
            m = TFM[tf]
            n = r.randint(0, 3 * m + m - 1)
            t0 = bt.T0_aligned()
            ones = [[t0 + i * M] + list(row) for i, row in enumerate(engine.gen_candles(r, n))]
            k = n // m
            long = [aggregate(ones[j * m:(j + 1) * m]) for j in range(k)]
            shape = r.choice(['clean', 'clean', 'partial', 'stale-partial', 'missing-last', 'empty-long'])
            if shape == 'partial' and n % m:
                long.append(aggregate(ones[k * m:]))
            elif shape == 'stale-partial' and n % m > 1:
                long.append(aggregate(ones[k * m:k * m + 1]))
            elif shape == 'missing-last' and long:
                long.pop()
            elif shape == 'empty-long':
                long = []
            store.candles.storage = {}
            store.candles.storage[jh.key('Sandbox', 'BTC-USDT', '1m')] = DynamicNumpyArray((50, 6))
            store.candles.storage[jh.key('Sandbox', 'BTC-USDT', tf)] = DynamicNumpyArray((10, 6))
            for c in ones:
                store.candles.storage[jh.key('Sandbox', 'BTC-USDT', '1m')].append(np.array(c, dtype=float))
            for c in long:
                store.candles.storage[jh.key('Sandbox', 'BTC-USDT', tf)].append(np.array(c, dtype=float))
            for what in ('get', 'current'):
                try:
                    if what == 'get':
                        got = store.candles.get_candles('Sandbox', 'BTC-USDT', tf)
                        py = 'ok ' + show([list(map(float, x)) for x in got])
                    else:
                        got = store.candles.get_current_candle('Sandbox', 'BTC-USDT', tf)
                        py = 'none' if got.shape == (0, 6) else 'ok ' + ' '.join(purecorr.num(x) for x in got)
                except Exception as e:  # noqa
                    py = 'err ' + purecorr.ERRMAP.get(type(e).__name__, 'Other')
                lines.append(f'st {what} {m} {len(ones)} ' + ' '.join(cw(c) for c in ones) + f' {len(long)} ' + ' '.join(cw(c) for c in long))
                expect.append(py)
                res.count(f'store-{what}:{shape}')
        # warm-up injection (the model behind `inject_warmup_establishes_inv`): whole store state after the real function
        from props import c20 as c20mod
        wl, we = c20mod.warm_lines(r, self.budget(60, 1200, boost), c20mod.C20.add_sequence.__get__(self), res)
        lines += wl
        expect += we
        outs = core.Driver.run(lines)
        for line, out, py in zip(lines, outs, expect):
            res.seen(line, True)
            if not purecorr.tokens_agree(norm(out), norm(py)):
                res.fail(**{'class': 'corr/store-' + line.split()[1], 'input': line[:1500], 'observed_model': out[:500], 'expected_impl': py[:500]})

    # ------------------------------------------------------------------ oracle on real sessions
    def sessions(self, boost):
        r = self.rng
        out = []
        for _ in range(self.budget(60, 400, boost)):
            nsym = r.choice([1, 1, 2])
            syms = ['BTC-USDT', 'ETH-USDT'][:nsym]
            # isolated margin at high leverage (40 % of the futures sessions): the liquidation's position hooks are
            # observation times too; most of these sessions run the fast simulator in chunks of several minutes
            wantliq = r.random() < 0.3
            ttf = r.choice(['3m', '5m', '5m', '15m']) if wantliq else r.choice(['1m', '1m', '3m', '5m', '15m'])
            routes = [(s, ttf if i == 0 else r.choice(['5m', '15m'] if wantliq else ['1m', '5m', '15m'])) for i, s in enumerate(syms)]
            droutes = []
            for s in syms:
                for tf in r.sample(['3m', '5m', '15m', '30m', '1h'], r.randint(0, 2)):
                    if (s, tf) not in routes and (s, tf) not in droutes:
                        droutes.append((s, tf))
            alltf = sorted({TFM[tf] for _, tf in routes + droutes})
            big = max(alltf)
            lcm = 1
            for x in alltf:
                from math import gcd
                lcm = lcm * x // gcd(lcm, x)
            n = r.choice([lcm, 2 * lcm, 3 * lcm]) + r.choice([0, 0, r.randint(1, big)]) if lcm <= 120 else lcm
            n = min(n, 600)
            warm = r.choice([0, 0, 1, 2])
            kind = 'futures' if wantliq else r.choice(['futures', 'futures', 'spot'])
            lev = r.choice([25, 50, 100]) if wantliq else None
            out.append({'syms': syms, 'routes': routes, 'droutes': droutes, 'n': max(n, 2), 'warm': warm, 'kind': kind,
                        'lcm': lcm, 'fast': r.random() < (0.65 if wantliq else 0.5), 'seed': r.randrange(1 << 30),
                        'isolated_leverage': lev})
        return out

    def long_timeframe_warmup(self, res):
        """warm-up injection for a timeframe longer than a day (3D), the series starting at midnight of a day that is
        not a multiple of three days since the epoch — as a session may: jesse counts the windows of every timeframe
        from the first candle it is given.  What a caller reads after the injection is one candle per started window
        counted from the first warm-up minute, each the aggregate of its minutes."""
        import numpy as np
        from jesse.store import store
        from jesse.services.candle import inject_warmup_candles_to_store
        from jesse.config import config as jconfig
        from jesse.libs import DynamicNumpyArray
        import jesse.helpers as jh
        acct.Session('futures', 10_000, 0.0)
        r = self.rng
        day = 86_400_000
        t0 = (18_628 + r.choice([0, 3, 6])) * day            # day index = 1 (mod 3)
        m = 3 * 1440
        n = 2 * m + r.choice([0, 1, 77, 1440])
        rows = engine.gen_candles(r, n)
        ones = [[t0 + i * M] + list(row) for i, row in enumerate(rows)]
        saved = jconfig['app']['considering_timeframes']
        store.candles.init_storage(5000)
        store.candles.storage[jh.key('Sandbox', 'BTC-USDT', '3D')] = DynamicNumpyArray((10, 6))
        jconfig['app']['considering_timeframes'] = ('1m', '3D')
        try:
            inject_warmup_candles_to_store(np.array(ones, dtype=float), 'Sandbox', 'BTC-USDT')
            got = [list(map(float, x)) for x in store.candles.get_candles('Sandbox', 'BTC-USDT', '3D')]
        except Exception as e:  # noqa
            got = 'raises ' + type(e).__name__
        finally:
            jconfig['app']['considering_timeframes'] = saved
        want = [list(map(float, aggregate(ones[j:j + m]))) for j in range(0, n, m)]
        res.count('warmup-3D-from-a-day-that-is-no-multiple-of-three')
        res.seen(('warm3D', t0, n), True)
        ok = got != [] and not isinstance(got, str) and len(got) == len(want) and all(
            all(abs(a - b) <= 1e-9 * max(1.0, abs(b)) for a, b in zip(g, w)) for g, w in zip(got, want))
        if not ok:
            res.fail(**{'class': 'candles/warmup-injection/long-timeframe',
                        'input': {'timeframe': '3D', 'first_minute': t0, 'minutes': n, 'candle_seed': 'see seed'},
                        'observed': got if isinstance(got, str) else [g[0] for g in got],
                        'expected': [w[0] for w in want],
                        'params': {'timeframe': '3D'}})

    def oracle(self, res, boost):
        jesse_env.setup()
        import random
        import numpy as np
        from jesse.store import store
        from jesse.services.candle import _get_generated_candles
        self.long_timeframe_warmup(res)
        for sess in self.sessions(boost):
            rr = random.Random(sess['seed'])
            t0 = bt.T0_aligned()
            warm_n = sess['warm'] * sess['lcm']
            cands, warms, inputs = {}, {}, {}
            for s in sess['syms']:
                # isolated sessions: wider minutes, so that the liquidation price (0.5 % … 4 % away) is reached often
                rows = engine.gen_candles(rr, sess['n'] + warm_n, gap_prob=0.25, vol=12 if sess['isolated_leverage'] else 4)
                full = bt.make_candles(rows, start=t0 - warm_n * M)
                inputs[s] = full
                if warm_n:
                    warms[s] = full[:warm_n].copy()
                cands[s] = full[warm_n:].copy()
            scripts = {s: engine.gen_script(rr, spot=sess['kind'] == 'spot',
                                            force=({'kind': 'market', 'style': 'none'} if rr.random() < 0.6 else {'kind': 'market'})
                                            if sess['isolated_leverage'] else None) for s in sess['syms']}
            tfs = {s: sorted({tf for (x, tf) in sess['routes'] + sess['droutes'] if x == s} | {'1m'}, key=lambda t: TFM[t])
                   for s in sess['syms']}
            problems = []
            stats = {'obs': 0, 'forming': 0}

            def observer(strategy, hook, order=None):
                if problems:
                    return
                for s in sess['syms']:
                    ones = store.candles.get_candles('Sandbox', s, '1m')
                    if len(ones) == 0:
                        continue
                    ones = [list(map(float, x)) for x in ones]
                    for tf in tfs[s]:
                        m = TFM[tf]
                        if m == 1:
                            continue
                        try:
                            got = store.candles.get_candles('Sandbox', s, tf)
                            cur = store.candles.get_current_candle('Sandbox', s, tf)
                        except Exception as e:  # noqa
                            problems.append(('raises', s, tf, hook, strategy.index, repr(e)[:160]))
                            return
                        stats['obs'] += 1
                        base = ones[0][0]
                        want = []
                        j = 0
                        while j < len(ones):
                            w = [c for c in ones[j:j + m]]
                            want.append(aggregate(w))
                            j += m
                        if len(ones) % m:
                            stats['forming'] += 1
                        if (base - t0) % (m * M) != 0:
                            problems.append(('unaligned-start', s, tf, hook, strategy.index, base))
                            return
                        g = [list(map(float, x)) for x in got]
                        if g != want:
                            k = next((i for i, (a, b) in enumerate(zip(g, want)) if a != b), min(len(g), len(want)))
                            problems.append(('get_candles', s, tf, hook, strategy.index,
                                             {'index': k, 'count': [len(g), len(want)], 'got': g[k] if k < len(g) else None,
                                              'want': want[k] if k < len(want) else None, 'n_1m': len(ones)}))
                            return
                        if list(map(float, cur)) != want[-1]:
                            problems.append(('get_current_candle', s, tf, hook, strategy.index,
                                             {'got': list(map(float, cur)), 'want': want[-1], 'n_1m': len(ones)}))
                            return
                    # what the STRATEGY's own accessors hand out (self.candles, self.get_candles), at EVERY hook — fill
                    # hooks included: whatever they remember between two reads must not outlive a change of the store
                    if s == strategy.symbol and strategy.timeframe != '1m':
                        mine = [list(map(float, x)) for x in strategy.candles]
                        m = TFM[strategy.timeframe]
                        want = [aggregate(ones[j:j + m]) for j in range(0, len(ones), m)]
                        if mine != want:
                            problems.append(('self.candles', s, strategy.timeframe, hook, strategy.index, {'n': [len(mine), len(want)]}))
                            return
                    for tf in tfs[s]:
                        m = TFM[tf]
                        if m == 1:
                            continue
                        try:
                            mine = [list(map(float, x)) for x in strategy.get_candles('Sandbox', s, tf)]
                        except Exception as e:  # noqa
                            problems.append(('self.get_candles-raises', s, tf, hook, strategy.index, repr(e)[:160]))
                            return
                        want = [aggregate(ones[j:j + m]) for j in range(0, len(ones), m)]
                        if mine != want:
                            problems.append(('self.get_candles', s, tf, hook, strategy.index, {'n': [len(mine), len(want)]}))
                            return
                # stored complete 1m candles vs the (normalised) input
                if hook in ('before',):
                    for s in sess['syms']:
                        ones = store.candles.get_candles('Sandbox', s, '1m')
                        inp = inputs[s]
                        for j in range(max(0, len(ones) - 3), len(ones)):
                            raw = list(map(float, inp[j]))
                            fixed = list(raw)
                            if j > 0:
                                pc = float(ones[j - 1][2])
                                if pc < raw[1]:
                                    fixed[1] = pc
                                    fixed[4] = min(pc, raw[4])
                                elif pc > raw[1]:
                                    fixed[1] = pc
                                    fixed[3] = max(pc, raw[3])
                            st = list(map(float, ones[j]))
                            if st != raw and st != fixed:
                                problems.append(('stored-1m', s, '1m', hook, strategy.index, {'row': j, 'stored': st, 'input': raw, 'normalised': fixed}))
                                return

            cfg = bt.config(kind=sess['kind'], balance=100_000, fee=0.0, leverage=sess['isolated_leverage'] or 2,
                            mode='isolated' if sess['isolated_leverage'] else 'cross')
            cfg['warm_up_candles'] = 0
            tr, result, err = engine.run_session(cfg, sess['routes'], sess['droutes'], cands, scripts, observer=observer,
                                                 warmup=warms or None, fast_mode=sess['fast'])
            desc = {k: sess[k] for k in ('routes', 'droutes', 'n', 'warm', 'kind', 'fast', 'seed', 'isolated_leverage')}
            fills = sum(1 for e in tr.events if e[0] == 'FILL')
            nliq = (tr.final or {}).get('liquidations', 0)
            from math import gcd as _gcd
            from functools import reduce as _reduce
            stepm = _reduce(_gcd, [TFM[tf] for _, tf in sess['routes'] + sess['droutes']])
            res.count('liquidations-observed', nliq)
            if sess['fast'] and stepm > 1:
                res.count('liquidations-observed:fast-chunks', nliq)
            res.seen(('sess', sess['seed'], sess['fast']), stats['forming'] > 0 or fills > 0)
            res.count('sessions:' + ('fast' if sess['fast'] else 'step'))
            res.count('observations', stats['obs'])
            res.count('fills', fills)
            if err is not None and not problems:
                # strategy-level rejections (insufficient margin etc.) are not C07's business
                res.count('session-error:' + type(err).__name__)
                if len(res.notes) < 5:
                    res.notes.append('session error (not a C07 matter): ' + repr(err)[:200])
            if problems:
                p = problems[0]
                res.fail(**{'class': f'candles/{p[0]}' + ('/fast' if sess['fast'] else '/step'),
                            'input': dict(desc, scripts=scripts), 'observed': {'symbol': p[1], 'timeframe': p[2], 'hook': p[3],
                                                                               'strategy_index': p[4], 'detail': p[5]},
                            'params': {'simulator': 'fast' if sess['fast'] else 'step', 'what': p[0]}})
            elif len(res.samples) < 3:
                res.sample(dict(desc, observations=stats['obs'], forming_seen=stats['forming'], fills=fills))
        # the candle-generation helper
        r = self.rng
        for _ in range(self.budget(50, 300, boost)):
            tf = r.choice(['3m', '5m', '15m'])
            m = TFM[tf]
            n = r.randint(0, 4 * m)
            arr = bt.make_candles(engine.gen_candles(r, n)) if n else np.zeros((0, 6))
            got = _get_generated_candles(tf, arr)
            want = [aggregate([list(map(float, x)) for x in arr[j:j + m]]) for j in range(0, (n // m) * m, m)]
            res.seen(('helper', tf, n), n >= m)
            res.count('generated-helper')
            if [list(map(float, x)) for x in got] != want:
                res.fail(**{'class': 'candles/generated-helper', 'input': {'timeframe': tf, 'n': n}, 'observed': len(got), 'expected': len(want)})

    def replay(self, doc):
        print(doc['failure'])
        return 1


CHECK = C07
