"""C05 — order lifecycle: one terminal transition, idempotent execute/cancel, active registry, one trade per executed order."""
import random

import acctcorr
import bt
import core
import engine
import jesse_env
from core import fr


class C05(core.Check):
    pid = 'C05'
    unproved = [
        'engine level, "every executed order is in exactly one trade" and "the registry holds EXACTLY the non-final orders" over whole runs: theorems at operation level (executed_recorded_once, active_registry, and activeIn_history: after ANY history of submissions, executions, cancellations and registry clean-ups every active order is listed in the registry of its symbol), on real sessions decided by the tracer oracle; the registry reset of the engine after `_execute_cancel` keeps the invariant given what C10.execute_cancel_leaves_nothing_active proves (activeIn_reset); lifting the invariant through every function of the strategy layer is not done; the run-level theorems (run_lifecycle_step/skip, final_stays_final_*) cover the status, symbol/price and registry-shrinks clauses for every strategy',
    ]
    rule = ('correspondence: operation sequences on the real Order/Exchange/Position/OrdersState/ClosedTrades objects and the '
            'Lean accounts model with repeated execute/cancel calls on the same order, cancel-all interleaved with active '
            'orders, update_active_orders, in spot and futures, full state (balances, positions, margin tables, statuses, '
            'registry, trade records) compared after every step; oracle (a) operation level: complete state snapshots around '
            'every call on a final order must be identical, statuses move only active -> final once, the filtered registry '
            'equals the submitted non-final orders; (b) engine level: real backtests (both simulators, spot/futures) traced: '
            'no order is filled or cancelled twice, duplicate calls made by the simulator itself change nothing, at every '
            'strategy step the active orders of a symbol are exactly its submitted non-final orders, every executed order '
            'is in exactly one trade (closed or still open); non-trivial = a duplicate call or a cancel-all occurred; '
            'distinct = distinct sequences / sessions')

    def op_sequence(self, kind, seqlen, oracle):
        r = self.rng
        nsym = 1 if kind == 'spot' else r.choice([1, 2])
        fee = r.choice([0, fr('1/1024')])
        w = acctcorr.RealWorld(kind, 10_000.0, float(fee), r.choice([1, 2, 10]), nsym)
        prices = [100.0, 40.0][:nsym]
        for i in range(nsym):
            w.price(i, prices[i])
        verdict = None
        dup = 0
        seen_status = {}

        def snapshot():
            return w.state()
        for _ in range(seqlen):
            active = [k for k, o in enumerate(w.s.orders) if o.status == 'ACTIVE']
            final = [k for k, o in enumerate(w.s.orders) if o.status != 'ACTIVE']
            x = r.random()
            i = r.randrange(nsym)
            sym = acctcorr.SYMS[i]
            if x < 0.4 or not w.s.orders:
                pos = w.s.position(sym)
                if kind == 'spot':
                    base = float(w.e.assets['BTC'])
                    if base > 0 and r.random() < 0.5:
                        ok = w.submit(i, 'sell', r.choice(['MARKET', 'LIMIT', 'STOP']), min(base, r.choice([0.25, 0.5, base])),
                                      prices[i] + r.choice([-2, 0, 2]), True)
                    else:
                        ok = w.submit(i, 'buy', r.choice(['MARKET', 'LIMIT', 'STOP']), r.choice([0.25, 0.5, 1.0]),
                                      prices[i] + r.choice([-2, 0, 2]), False)
                else:
                    ro = pos.qty != 0 and r.random() < 0.4
                    side = ('sell' if pos.qty > 0 else 'buy') if ro else r.choice(['buy', 'sell'])
                    q = abs(pos.qty) * r.choice([0.5, 1, 2]) if ro else r.choice([0.25, 0.5, 1.0, 2.0])
                    ok = w.submit(i, side, r.choice(['MARKET', 'LIMIT', 'STOP']), q, prices[i] + r.choice([-2, 0, 2]), ro)
                if not ok:
                    break
            elif x < 0.6 and active:
                w.execute(r.choice(active))
            elif x < 0.7 and active:
                w.cancel(r.choice(active))
            elif x < 0.85 and final:
                k = r.choice(final)
                before = snapshot()
                call = r.choice(['execute', 'cancel'])
                getattr(w, call)(k)
                dup += 1
                if oracle and snapshot() != before:
                    verdict = ('final-order-call-changed-state', w.lines[-1], snapshot()[:300], before[:300])
            elif x < 0.92:
                w.cancel_all(i)
                dup += 1
            else:
                w.update_active(i)
                if oracle:
                    key = f'Sandbox-{sym}'
                    reg = [o for o in w.s.store.orders.active_storage[key]]
                    want = [o for o in w.s.orders if o.symbol == sym and o.status == 'ACTIVE']
                    # the production cancel-all clears the per-symbol storage; the registry must still hold every active order
                    if [id(o) for o in reg] != [id(o) for o in want]:
                        verdict = ('active-registry', w.lines[-1], [w.ordinal(o) for o in reg], [w.ordinal(o) for o in want])
            if oracle and verdict is None:
                # an executed order is recorded in exactly one trade (closed or under construction), other orders in none
                st = w.s.store.completed_trades
                count = {}
                for t_ in list(st.trades) + [t for t in st.tempt_trades.values() if t is not None]:
                    for o in t_.orders:
                        count[id(o)] = count.get(id(o), 0) + 1
                for k, o in enumerate(w.s.orders):
                    want = 1 if o.status == 'EXECUTED' else 0
                    if count.get(id(o), 0) != want:
                        verdict = ('executed-order-not-in-exactly-one-trade', w.lines[-1],
                                   {'order': k, 'status': o.status, 'times_recorded': count.get(id(o), 0)}, want)
                        break
            if oracle and verdict is None:
                for k, o in enumerate(w.s.orders):
                    prev = seen_status.get(k, 'ACTIVE')
                    if prev != 'ACTIVE' and o.status != prev:
                        verdict = ('status-changed-after-final', w.lines[-1], o.status, prev)
                    seen_status[k] = o.status
            if verdict:
                break
        return w, verdict, dup

    def correspondence(self, res, boost):
        jesse_env.setup()
        worlds = []
        for t in range(self.budget(120, 3000, boost)):
            kind = 'spot' if t % 3 == 0 else 'futures'
            w, _, _ = self.op_sequence(kind, self.rng.randint(4, 30), oracle=False)
            worlds.append((w, {'seq': t, 'kind': kind}))
        acctcorr.compare(res, worlds, 'corr/accounts-lifecycle')

    def oracle(self, res, boost):
        jesse_env.setup()
        for t in range(self.budget(200, 5000, boost)):
            kind = 'spot' if t % 3 == 0 else 'futures'
            w, verdict, dup = self.op_sequence(kind, self.rng.randint(4, 40), oracle=True)
            res.seen(tuple(w.lines), dup > 0)
            res.count('op-sequences:' + kind)
            if verdict:
                what, where, got, want = verdict
                res.fail(**{'class': 'lifecycle/' + what, 'input': {'ops': w.lines}, 'observed': got, 'expected': want,
                            'params': {'at': where}})
        self.engine_oracle(res, boost)

    def engine_oracle(self, res, boost):
        from jesse.store import store
        for t in range(self.budget(80, 600, boost)):
            seed = self.rng.randrange(1 << 30)
            rr = random.Random(seed)
            kind = rr.choice(['futures', 'futures', 'spot'])
            tf = rr.choice(['1m', '3m', '5m'])
            fast = rr.random() < 0.5
            n = rr.choice([60, 120, 240])
            rows = engine.gen_candles(rr, n, gap_prob=0.2)
            cands = {'BTC-USDT': bt.make_candles(rows)}
            script = engine.gen_script(rr, spot=kind == 'spot')
            # a second trading route on another symbol: one route's cancellations and closed trades must leave the
            # other route's resting orders registered
            two = rr.random() < 0.4
            if two:
                cands['ETH-USDT'] = bt.make_candles(engine.gen_candles(rr, n, gap_prob=0.2))
                script2 = engine.gen_script(rr, spot=kind == 'spot')
            problems = []
            holder = {}
            # isolated margin at high leverage: the simulator's own force-closing orders have a lifecycle too
            lev = rr.choice([25, 50, 100]) if kind == 'futures' and rr.random() < 0.35 else 2

            seen_status = {}

            def observer(strategy, hook, order=None):
                if problems:
                    return
                tr = holder['tr']
                # at EVERY hook: a status is one of the three lifecycle states, and a final one never changes again
                # (whoever writes it: Order.execute / cancel, or any other code that holds the order)
                for k, o in enumerate(tr.orders):
                    prev = seen_status.get(k)
                    if o.status not in ('ACTIVE', 'EXECUTED', 'CANCELED') or (prev in ('EXECUTED', 'CANCELED') and o.status != prev):
                        problems.append(('status-changed-after-final', strategy.index, {'order': k, 'hook': hook, 'was': prev, 'is': o.status}, prev))
                        return
                    seen_status[k] = o.status
                if hook not in ('before', 'after', 'on_close_position', 'on_open_position'):
                    return
                key = f'{strategy.exchange}-{strategy.symbol}'
                reg = [tr.ordinals.get(id(o)) for o in store.orders.active_storage.get(key, []) if o.is_active]
                want = [k for k, o in enumerate(tr.orders) if o.symbol == strategy.symbol and o.status == 'ACTIVE']
                # at a strategy step the registry is exactly the active orders; inside fill hooks it may lag behind for
                # orders that just became final, but an ACTIVE order is never missing from it
                regs = sorted(x for x in reg if x is not None)
                if (hook == 'before' and regs != want) or None in reg or any(k not in regs for k in want):
                    problems.append(('active-registry', strategy.index, reg, want))
            classes = [('BTC-USDT', tf, engine.make_strategy(script, observer, name='S_BTC'))]
            if two:
                classes.append(('ETH-USDT', tf, engine.make_strategy(script2, observer, name='S_ETH')))
            tr = engine.Tracer()
            holder['tr'] = tr
            err = None
            with tr:
                try:
                    bt.run(bt.config(kind=kind, balance=100_000, fee=0.001, leverage=lev, mode='isolated' if lev > 2 else 'cross'),
                           classes, [], cands, fast_mode=fast)
                except Exception as e:  # noqa
                    err = e
            desc = {'seed': seed, 'kind': kind, 'timeframe': tf, 'fast': fast, 'n': n, 'script': script, 'leverage': lev}
            res.count('liquidations', (tr.final or {}).get('liquidations', 0))
            if two:
                desc['script2'] = script2
                res.count('sessions:two-routes')
            fills = {}
            cancels = {}
            for e in tr.events:
                if e[0] == 'FILL':
                    fills[e[1]] = fills.get(e[1], 0) + 1
                if e[0] == 'CANCEL':
                    cancels[e[1]] = cancels.get(e[1], 0) + 1
            noop_calls = sum(1 for e in tr.events if e[0] in ('EXECUTE-NOOP', 'CANCEL-NOOP'))
            res.seen(('session', seed), noop_calls > 0 or bool(cancels))
            res.count('sessions:' + ('fast' if fast else 'step'))
            res.count('orders', len(tr.orders))
            res.count('duplicate-calls', noop_calls)
            if err is not None:
                res.count('session-error:' + type(err).__name__)
                continue
            bad = None
            for k in set(fills) | set(cancels):
                if fills.get(k, 0) + cancels.get(k, 0) > 1:
                    bad = ('order-final-twice', {'order': k, 'fills': fills.get(k, 0), 'cancels': cancels.get(k, 0)})
            for (call, k, same) in tr.noops:
                if not same:
                    bad = ('final-order-call-changed-state', {'call': call, 'order': k})
            if problems:
                bad = (problems[0][0], {'strategy_index': problems[0][1], 'registry': problems[0][2], 'expected': problems[0][3]})
            if tr.final is not None and bad is None:
                # after the run: the statuses the run ended with are still lifecycle states, final ones as last seen,
                # and every order recorded in a trade is an EXECUTED one
                for k, st in enumerate(tr.final['order_status']):
                    prev = seen_status.get(k)
                    if st not in ('ACTIVE', 'EXECUTED', 'CANCELED') or (prev in ('EXECUTED', 'CANCELED') and st != prev):
                        bad = ('status-changed-after-final', {'order': k, 'was': prev, 'is': st, 'at': 'end of run'})
                        break
            if tr.final is not None and bad is None:
                count = {}
                for tdict in tr.final['trades'] + list(tr.final['temp_trades'].values()):
                    for k in tdict['orders']:
                        count[k] = count.get(k, 0) + 1
                for k, st in enumerate(tr.final['order_status']):
                    if st == 'EXECUTED' and count.get(k, 0) != 1:
                        bad = ('executed-order-not-in-exactly-one-trade', {'order': k, 'times': count.get(k, 0)})
                        break
                    if st != 'EXECUTED' and count.get(k, 0) != 0:
                        bad = ('trade-records-an-order-that-is-not-executed', {'order': k, 'status': st, 'times': count.get(k, 0)})
                        break
            if bad:
                res.fail(**{'class': 'lifecycle/' + bad[0] + ('/fast' if fast else '/step'), 'input': desc, 'observed': bad[1],
                            'params': {'simulator': 'fast' if fast else 'step'}})
            elif len(res.samples) < 3:
                res.sample(dict(desc, orders=len(tr.orders), fills=len(fills), cancels=len(cancels), duplicate_calls=noop_calls))

    def replay(self, doc):
        print(doc['failure'])
        return 1


CHECK = C05
