"""C03 — futures account always equals an average-cost margin account model."""
from fractions import Fraction

import acct
import acctcorr
import core
import jesse_env
from core import fr


class Margin:
    """the reference of the property: an average-cost margin account in exact arithmetic"""

    def __init__(self, balance, fee, leverage, nsym):
        self.wallet = fr(balance)
        self.fee = fr(fee)
        self.lev = fr(leverage)
        self.qty = [Fraction(0)] * nsym
        self.entry = [None] * nsym
        self.price = [None] * nsym
        self.resting = {}          # ordinal -> (sym, side, signed qty, price, reduce_only)

    def upnl(self, i):
        if self.qty[i] == 0 or self.entry[i] is None or self.price[i] is None:
            return Fraction(0)
        return self.qty[i] * (self.price[i] - self.entry[i])

    def available(self):
        spent = Fraction(0)
        for i in range(len(self.qty)):
            if self.qty[i] != 0:
                spent += self.entry[i] * abs(self.qty[i]) / self.lev - self.upnl(i)
            b = sum(q * p for (s, sd, q, p, ro) in self.resting.values() if s == i and sd == 'buy' and not ro)
            a = sum(q * p for (s, sd, q, p, ro) in self.resting.values() if s == i and sd == 'sell' and not ro)
            spent += max(abs(b), abs(a)) / self.lev
        return self.wallet - spent

    def would_reject(self, q, p, ro):
        return (not ro) and abs(fr(q) * fr(p)) / self.lev > self.available()

    def submit(self, k, i, side, q, p, ro):
        sq = -abs(fr(q)) if side == 'sell' else abs(fr(q))
        self.resting[k] = (i, side, sq, fr(p), ro)

    def cancel(self, k):
        self.resting.pop(k, None)

    def fill(self, k):
        if k not in self.resting:
            return
        i, side, q, p, ro = self.resting.pop(k)
        self.wallet -= self.fee * abs(q * p)                       # fee on every fill
        cur = self.qty[i]
        if ro:
            # reduce-only fills never increase or flip a position
            if cur == 0 or (cur > 0) == (q > 0):
                return
            q = (1 if q > 0 else -1) * min(abs(q), abs(cur))
        if cur == 0:
            self.qty[i], self.entry[i] = q, p
        elif (cur > 0) == (q > 0):
            self.entry[i] = (abs(cur) * self.entry[i] + abs(q) * p) / (abs(cur) + abs(q))
            self.qty[i] = cur + q
        else:
            closing = min(abs(q), abs(cur))
            self.wallet += closing * (p - self.entry[i]) * (1 if cur > 0 else -1)
            rest = abs(q) - closing
            if rest > 0:
                self.qty[i] = (1 if q > 0 else -1) * rest
                self.entry[i] = p
            else:
                self.qty[i] = cur + q
                if self.qty[i] == 0:
                    self.entry[i] = None


class C03(core.Check):
    pid = 'C03'
    unproved = [
        'the refinement to the reference margin account holds for every symbol of a world with any number of symbols (fill_refines_any_symbol, fill_leaves_other_symbols); what is not a theorem is the available-margin sum over several symbols after a fill (rejection_iff / submit_cancel_restores_margin state it per operation; correspondence + oracle run 1-3 symbols)',
    ]
    gen_keys = ['jesse/helpers.py:estimate_average_price', 'jesse/helpers.py:estimate_PNL']
    rule = ('correspondence: seeded LEGAL operation sequences (1-3 symbols sharing one wallet, leverage 1..125, fee on a '
            'lattice, price moves, entries MARKET/LIMIT/STOP long and short, increases, partial and oversize reduce-only '
            'reductions, flips, cancellations, everything resting cancelled when a position closes, occasional unaffordable '
            'orders) on the real FuturesExchange/Order/Position objects and on the Lean accounts model, full state compared '
            'after every step; oracle: the real objects against an exact average-cost margin account after every operation '
            '(wallet, size, side, entry, uPnL, available margin, rejection iff, submit-then-cancel restores margin exactly); '
            'non-trivial = at least one reduction or flip; distinct = distinct operation sequences')
    assumptions = ['estimate_average_price / estimate_PNL are the GENERATED definitions inside the accounts model']

    def run_sequence(self, seqlen, oracle):
        r = self.rng
        nsym = r.choice([1, 1, 2, 3])
        lev = r.choice([1, 2, 3, 5, 10, 25, 50, 125])
        fee = r.choice([0, 0, fr('1/1024'), fr('1/512')])
        bal = r.choice([1000, 10_000, 100_000])
        w = acctcorr.RealWorld('futures', float(bal), float(fee), lev, nsym, mode='cross')
        ref = Margin(bal, fee, lev, nsym)
        prices = [100.0, 40.0, 8.0][:nsym]
        for i in range(nsym):
            w.price(i, prices[i])
            ref.price[i] = fr(prices[i])
        verdict = None
        interesting = 0
        # decimal sizes (multiples of 0.1): sums and differences that are not exact in binary floating point; the code
        # adds position sizes in decimal arithmetic, so a closing order for the decimal total closes the position
        dec = r.random() < 0.35
        lat = 10 if dec else 4

        def check(tag):
            e = w.e
            tol = Fraction(1, 10**8)
            if abs(fr(e.assets[e.settlement_currency]) - ref.wallet) > tol * max(1, abs(ref.wallet)):
                return ('wallet', tag, float(e.assets[e.settlement_currency]), float(ref.wallet))
            for i in range(nsym):
                p = w.s.position(acctcorr.SYMS[i])
                if abs(fr(p.qty) - ref.qty[i]) > tol * max(1, abs(ref.qty[i])):
                    return ('position-size', tag, float(p.qty), float(ref.qty[i]))
                if (p.entry_price is None) != (ref.entry[i] is None) or (
                        ref.entry[i] is not None and abs(fr(p.entry_price) - ref.entry[i]) > tol * max(1, abs(ref.entry[i]))):
                    return ('entry-price', tag, p.entry_price, None if ref.entry[i] is None else float(ref.entry[i]))
                # a small difference of two large products: the float error scales with the position's notional, not the PnL
                notional = abs(ref.qty[i]) * max(abs(ref.price[i]), abs(ref.entry[i] or 0))
                if abs(fr(p.pnl) - ref.upnl(i)) > tol * max(1, abs(ref.upnl(i)), notional):
                    return ('unrealised-pnl', tag, float(p.pnl), float(ref.upnl(i)))
            am = fr(e.available_margin)
            if abs(am - ref.available()) > tol * max(1, abs(ref.available())):
                return ('available-margin', tag, float(am), float(ref.available()))
            return None

        for _ in range(seqlen):
            n0 = len(w.lines)
            active = [k for k, o in enumerate(w.s.orders) if o.status == 'ACTIVE']
            x = r.random()
            i = r.randrange(nsym)
            if x < 0.15:
                prices[i] = max(0.5, prices[i] + r.choice([-2, -1, -0.5, -0.125, 0.125, 0.5, 1, 2]))
                w.price(i, prices[i])
                ref.price[i] = fr(prices[i])
            elif x < 0.6 or not active:
                cur = ref.qty[i]
                ro = cur != 0 and r.random() < 0.45
                typ = r.choice(['MARKET', 'LIMIT', 'STOP'])
                p = prices[i] if typ == 'MARKET' else max(0.5, prices[i] + r.choice([-3, -1, -0.25, 0.25, 1, 3]))
                # a twin: a reduce-only order with the side, quantity and price of a plain order that is already resting
                # on the closing side (cancelling one must not release the other's margin)
                twins = [o for k_, o in enumerate(w.s.orders) if o.status == 'ACTIVE' and not o.reduce_only
                         and o.symbol == acctcorr.SYMS[i] and o.type != 'MARKET' and cur != 0
                         and o.side == ('sell' if cur > 0 else 'buy')]
                twin = r.choice(twins) if twins and r.random() < 0.5 else None
                if twin is not None:
                    ro, typ, side, q, p = True, twin.type, twin.side, float(abs(twin.qty)), float(twin.price)
                elif ro:
                    side = 'sell' if cur > 0 else 'buy'
                    q = float(abs(cur) * r.choice([Fraction(1, 4), Fraction(1, 2), 1, 1, 2]))      # partial, full and oversize
                else:
                    side = r.choice(['buy', 'sell'])
                    scale = float(ref.available()) * lev / p if p > 0 else 1
                    q = max(1 / lat, round(scale * r.choice([0.01, 0.05, 0.1, 0.3]) * lat) / lat)
                    if dec and r.random() < 0.5:
                        q = r.choice([0.1, 0.2, 0.3, 0.7, 1.1])
                    if r.random() < 0.06:
                        q = float(fr(max(q, 0.25)) * 400)      # deliberately unaffordable
                    if cur != 0 and r.random() < 0.15:
                        q = float(abs(cur) * r.choice([Fraction(3, 2), 2, 3]))
                        side = 'sell' if cur > 0 else 'buy'                  # flip
                expect_reject = ref.would_reject(q, p, ro)
                slack = abs(fr(q) * fr(p)) / ref.lev - ref.available()
                near = (not ro) and abs(slack) <= Fraction(1, 10**8) * max(1, abs(ref.available()))
                before_margin = w.e.available_margin
                ok = w.submit(i, side, typ, q, p, ro)
                k = len(w.s.orders) - 1
                if near and ok == expect_reject:
                    self.discarded = getattr(self, 'discarded', 0) + 1
                    if not ok:
                        break
                elif oracle and ok == expect_reject:
                    verdict = ('reject-iff', w.lines[-1], 'accepted' if ok else 'rejected', 'rejected' if expect_reject else 'accepted')
                    break
                if not ok:
                    if oracle and w.e.available_margin != before_margin:
                        verdict = ('rejection-changed-margin', w.lines[-1], w.e.available_margin, before_margin)
                    break
                ref.submit(k, i, side, q, p, ro)
                if oracle and r.random() < 0.25:
                    # submit-then-cancel restores the available margin exactly
                    w.cancel(k)
                    ref.cancel(k)
                    if w.e.available_margin != before_margin:
                        verdict = ('submit-cancel-not-restored', w.lines[-1], w.e.available_margin, before_margin)
                        break
            elif x < 0.85:
                k = r.choice(active)
                o = w.s.orders[k]
                si = acctcorr.SYMS.index(o.symbol)
                was = ref.qty[si]
                # what a position hook fired by this fill sees: the books must already be those of the completed fill
                # (the filled order no longer reserves margin while the position holds it)
                seen = []
                acct.StubStrategy.probe = (lambda order: seen.append(w.e.available_margin)) if oracle else None
                try:
                    w.execute(k)
                finally:
                    acct.StubStrategy.probe = None
                ref.fill(k)
                if oracle and seen and verdict is None:
                    tolh = Fraction(1, 10**8)
                    if abs(fr(seen[-1]) - ref.available()) > tolh * max(1, abs(ref.available())):
                        verdict = ('available-margin/inside-position-hook', w.lines[-1], float(seen[-1]), float(ref.available()))
                        break
                if was != 0 and (abs(ref.qty[si]) < abs(was) or (was > 0) != (ref.qty[si] > 0)):
                    interesting += 1
                if was != 0 and ref.qty[si] == 0:
                    # the strategy layer cancels everything resting when the position closes
                    for kk, oo in enumerate(w.s.orders):
                        if oo.status == 'ACTIVE' and oo.symbol == o.symbol:
                            w.cancel(kk)
                            ref.cancel(kk)
            else:
                k = r.choice(active)
                w.cancel(k)
                ref.cancel(k)
            if any(0 < abs(x) < Fraction(1, 10**9) for x in ref.qty):
                # a position of rounding-dust size in exact arithmetic: the sizes were not short decimals; what the float
                # code does with it is not the subject of the property
                self.discarded = getattr(self, 'discarded', 0) + 1
                verdict = None
                del w.lines[n0:]
                del w.replies[n0:]
                break
            if oracle and verdict is None:
                verdict = check(w.lines[-1])
            if verdict:
                break
        return w, verdict, interesting

    def correspondence(self, res, boost):
        jesse_env.setup()
        worlds = []
        for t in range(self.budget(300, 3000, boost)):
            w, _, _ = self.run_sequence(self.rng.randint(3, 30 if not self.thorough else 60), oracle=False)
            worlds.append((w, {'seq': t}))
        acctcorr.compare(res, worlds, 'corr/accounts-futures')

    def oracle(self, res, boost):
        jesse_env.setup()
        self.discarded = 0
        for t in range(self.budget(800, 8000, boost)):
            w, verdict, interesting = self.run_sequence(self.rng.randint(3, 40 if not self.thorough else 80), oracle=True)
            res.seen(tuple(w.lines), interesting > 0)
            res.count('sequences')
            if any(('0.1' in l or '0.3' in l or '0.7' in l) for l in w.lines):
                res.count('sequences-with-decimal-sizes')
            if verdict:
                what, where, got, want = verdict
                res.fail(**{'class': 'futures/' + what, 'input': {'ops': w.lines}, 'observed': got, 'expected': want,
                            'params': {'at': where}})
            elif len(res.samples) < 3:
                res.sample({'ops': w.lines[:12], 'final': w.replies[-1][:200]})
        res.discarded += self.discarded

    def replay(self, doc):
        print(doc['failure'])
        return 1


CHECK = C03
