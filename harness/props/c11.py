"""C11 — research.backtest is a pure, repeatable function of its arguments."""
import copy
import json
import os
import random
import subprocess
from concurrent.futures import ThreadPoolExecutor

import core
import purecorr
from core import wire

HERE = os.path.dirname(os.path.dirname(os.path.abspath(__file__)))
EXCHANGES = ['Sandbox', 'Binance Perpetual Futures', 'Bybit USDT Perpetual', 'Binance Spot', 'Coinbase Spot', 'My Exchange']
FIELDS = ['type', 'leverage', 'mode', 'fee', 'balance0', 'warmup', 'placed']


def run_calls(calls, timeout=900):
    """one fresh python process running `calls` in order; returns the list of observations"""
    env = dict(os.environ)
    env['PYTHONHASHSEED'] = '0'
    p = subprocess.run(['/venv/bin/python', os.path.join(HERE, 'c11run.py')], input=json.dumps({'calls': calls}),
                       capture_output=True, text=True, timeout=timeout, env=env, cwd=HERE)
    for line in p.stdout.split('\n'):
        if line.startswith('@@C11@@'):
            return json.loads(line[len('@@C11@@'):])
    raise core.Infra('c11run produced no result: ' + (p.stderr or p.stdout)[-1500:])


def gen_call(rng, base=None, mutate=None):
    """a call spec; with `base`, a variation of it along the axis `mutate`"""
    if base is None:
        kind = rng.choice(['futures', 'futures', 'spot'])
        c = {'exchange': rng.choice(EXCHANGES), 'kind': kind, 'leverage': rng.choice([1, 2, 3, 5, 10, 20]) if kind == 'futures' else 1,
             'mode': rng.choice(['cross', 'isolated']) if kind == 'futures' else 'cross',
             'fee': rng.choice([0, 0.0005, 0.001, 0.002]), 'balance': rng.choice([1000, 5000, 10000, 250000]),
             'warmup': rng.choice([0, 0, 20, 45]), 'fast': rng.random() < 0.4,
             'symbol': rng.choice(['BTC-USDT', 'ETH-USDT']), 'tf': rng.choice(['1m', '1m', '3m', '5m', '15m']),
             'droutes': [], 'n': rng.choice([60, 90, 120, 180]), 'candle_seed': rng.randrange(1 << 30),
             'hp': rng.choice([None, None, 4, 9]), 'abort': None, 'equity': rng.random() < 0.3}
        if rng.random() < 0.3:
            other = 'ETH-USDT' if c['symbol'] == 'BTC-USDT' else 'BTC-USDT'
            c['droutes'] = [[rng.choice([c['symbol'], other]), rng.choice(['30m', '1h'])]]
        if c['warmup'] and rng.random() < 0.7:
            c['warmup_rows'] = c['warmup'] * {'1m': 1, '3m': 3, '5m': 5, '15m': 15}[c['tf']]
            if c['droutes']:
                c['warmup_rows'] = c['warmup'] * 60
        return c
    c = copy.deepcopy(base)
    c['candle_seed'] = rng.randrange(1 << 30)
    m = mutate
    if m == 'leverage':
        c['kind'] = 'futures'
        c['leverage'] = rng.choice([x for x in [1, 2, 3, 5, 10, 20] if x != base['leverage']])
    elif m == 'kind':
        c['kind'] = 'spot' if base['kind'] == 'futures' else 'futures'
        if c['kind'] == 'spot':
            c['leverage'], c['mode'] = 1, 'cross'
        else:
            c['leverage'] = rng.choice([2, 5, 10])
    elif m == 'mode':
        c['kind'] = 'futures'
        c['mode'] = 'isolated' if base['mode'] == 'cross' else 'cross'
        c['leverage'] = max(c['leverage'], 2)
    elif m == 'fee':
        c['fee'] = rng.choice([x for x in [0, 0.0005, 0.001, 0.002] if x != base['fee']])
    elif m == 'balance':
        c['balance'] = rng.choice([x for x in [1000, 5000, 10000, 250000] if x != base['balance']])
    elif m == 'exchange':
        c['exchange'] = rng.choice([x for x in EXCHANGES if x != base['exchange']])
    elif m == 'warmup':
        c['warmup'] = rng.choice([x for x in [0, 20, 45, 100] if x != base['warmup']])
        c.pop('warmup_rows', None)
    elif m == 'routes':
        c['symbol'] = 'ETH-USDT' if base['symbol'] == 'BTC-USDT' else 'BTC-USDT'
        c['tf'] = rng.choice(['1m', '5m', '15m'])
        c['droutes'] = [[c['symbol'], '1h']] if rng.random() < 0.5 else []
        c.pop('warmup_rows', None)
    elif m == 'fast':
        c['fast'] = not base['fast']
    return c


AXES = ['leverage', 'kind', 'mode', 'fee', 'balance', 'exchange', 'warmup', 'routes', 'fast']


def gen_history(rng):
    """(earlier calls, probe): earlier calls are variations of the probe (same exchange name unless that is the axis),
    unrelated calls, and calls that abort from a hook or an order rejection at an arbitrary candle"""
    probe = gen_call(rng)
    probe['abort'] = None
    hist = []
    for _ in range(rng.choice([1, 1, 2, 3, 4, 6])):
        if rng.random() < 0.15:
            # the very call that is probed later: the harness passes the SAME argument objects again, as a user who
            # repeats a call does (repeatability with shared lists / dicts)
            hist.append(copy.deepcopy(probe))
            continue
        if rng.random() < 0.12:
            # the same session in the fast simulator on a LARGER trading timeframe first: whatever the fast simulator
            # derives from the routes (its chunk size) must be derived again for the probed call
            probe['fast'] = True
            c = gen_call(rng, probe, 'fee')
            c['fast'] = True
            c['tf'] = {'1m': '5m', '3m': '15m', '5m': '15m', '15m': '15m'}[probe['tf']]
            if probe['tf'] == '15m':
                probe['tf'] = '3m'
            c.pop('warmup_rows', None)
            probe.pop('warmup_rows', None)
            c['warmup'] = probe['warmup'] = 0
            hist.append(c)
            continue
        if rng.random() < 0.75:
            c = gen_call(rng, probe, rng.choice(AXES))
        else:
            c = gen_call(rng)
        r = rng.random()
        if r < 0.3:
            c['abort'] = ['hook', rng.randrange(0, 40)]
        elif r < 0.5:
            c['abort'] = ['reject', rng.randrange(0, 30)]
        elif r < 0.6:
            c['abort'] = ['after', rng.randrange(0, 12)]
        hist.append(c)
    if hist and rng.random() < 0.2:
        # the very first session of the process dies right after its first MARKET order was submitted (still queued)
        hist[0]['abort'] = ['after', 0]
    return hist, probe


def model_line(calls):
    idx = {}
    parts = ['sess', '0']
    for c in calls:
        e = idx.setdefault(c['exchange'], len(idx))
        spot = c['kind'] == 'spot'
        parts += ['C', str(e), c['kind'], str(1 if spot else c['leverage']),
                  '1' if (not spot and c['mode'] == 'isolated') else '0', wire(c['fee']), wire(c['balance']),
                  str(c['warmup']), '1' if c['abort'] else '0']
    return ' '.join(parts)


def observed_line(o):
    ob = o['observed']
    if 'type' not in ob:
        return None
    return (f"{ob['type']} {ob['leverage']} {1 if ob.get('mode') == 'isolated' else 0} {purecorr.num(ob['fee'])} "
            f"{purecorr.num(ob['balance0'])} {ob['warmup']}")


def axes_of(hist, probe):
    out = set()
    for c in hist:
        for k in ('exchange', 'kind', 'leverage', 'mode', 'fee', 'balance', 'warmup', 'fast', 'tf', 'symbol'):
            if c[k] != probe[k]:
                out.add(k)
        if c['abort']:
            out.add('abort:' + c['abort'][0])
    return out


class C11(core.Check):
    pid = 'C11'
    unproved = [
        'the engine run itself (equal effective parameters and candles give equal results) and the completeness of store.reset(): fresh-process oracle',
    ]
    gen_keys = []
    rule = ('correspondence: random call histories (1-6 earlier research.backtest calls, then a probe) executed in ONE fresh '
            'python process outside pytest (production branches of jh.get_config / CACHED_CONFIG active), no harness-side '
            'clean-up between calls; the effective parameters each session observes from inside its strategy (exchange type, '
            'leverage, leverage mode, fee rate, starting balance, warm-up size) must equal the session-state model\'s '
            '(Driver `sess`), and a session that submits orders must see them placed; oracle: the probe call in a SECOND fresh '
            'process (no history) must return the same metrics dict (10 significant digits, NaN = NaN), the same in-session '
            'observations, and every call must leave config / routes / data_routes / candles / warmup_candles / '
            'hyperparameters deep-equal to a copy taken before the call; earlier calls vary exchange name, spot/futures, '
            'leverage, mode, fee, balance, routes, warm-up size and simulator, and 50% of them abort (exception from a hook '
            'or order rejection at a random candle); non-trivial = the probe closed at least one trade; distinct = distinct '
            'histories')

    def histories(self, n, rng):
        return [gen_history(rng) for _ in range(n)]

    def run_all(self, hs):
        """returns [(with_history_observations, fresh_probe_observation)]"""
        jobs = []
        for hist, probe in hs:
            jobs.append(hist + [probe])
            jobs.append([probe])
        with ThreadPoolExecutor(max_workers=min(14, os.cpu_count() or 4)) as ex:
            outs = list(ex.map(run_calls, jobs))
        return [(outs[2 * i], outs[2 * i + 1][0]) for i in range(len(hs))]

    def _runs(self, boost):
        key = ('runs', boost)
        if getattr(self, '_cache', None) and self._cache[0] == key:
            return self._cache[1]
        rng = random.Random(self.seed * 6151 + 11)
        hs = self.histories(self.budget(14, 160, boost), rng)
        runs = self.run_all(hs)
        self._cache = (key, (hs, runs))
        return hs, runs

    def correspondence(self, res, boost):
        hs, runs = self._runs(boost)
        lines = [model_line(hist + [probe]) for hist, probe in hs]
        outs = core.Driver.run(lines)
        for (hist, probe), (with_h, fresh), out in zip(hs, runs, outs):
            calls = hist + [probe]
            model = out.split(' ; ')
            res.seen((json.dumps(calls, sort_keys=True),), True)
            res.count('calls', len(calls))
            bad = None
            for i, (c, o, m) in enumerate(zip(calls, with_h, model)):
                real = observed_line(o)
                if real is None:
                    res.count('call-aborted-before-first-hook')
                    continue
                mt = m.split(' ')
                placed = o['observed'].get('placed')
                if not purecorr.tokens_agree(' '.join(mt[:6]), real, rel=1e-9):
                    bad = (i, 'params', ' '.join(mt[:6]), real)
                    break
                # (a call that dies right after a submission never sees its order executed: nothing to conclude there)
                if o['observed'].get('submitted') and not placed and mt[6] == '1' and not (c.get('abort') and c['abort'][0] == 'after'):
                    bad = (i, 'driver', 'orders reach a driver', 'submitted orders were not placed')
                    break
            if bad:
                i, what, m, r = bad
                res.fail(**{'class': 'corr/session-state/' + what, 'input': {'calls': calls, 'call_index': i},
                            'observed_model': m, 'expected_impl': r, 'params': {'what': what}})
            else:
                res.sample({'calls': len(calls), 'model': model[-1], 'real': observed_line(with_h[-1])}, cap=3)

    def compare_probe(self, hist, probe, with_h, fresh):
        """None or (class, details)"""
        for i, o in enumerate(with_h):
            if not o['args_unmodified']:
                return ('arguments-modified', {'call_index': i})
            if o.get('earlier_args_modified') is not None:
                return ('arguments-modified/by-a-later-call', {'call_index': i, 'arguments_of_call': o['earlier_args_modified']})
        a, b = with_h[-1], fresh
        if not fresh['args_unmodified']:
            return ('arguments-modified', {'call_index': 0, 'fresh': True})
        if a['error'] != b['error']:
            return ('history-dependence/error', {'after_history': a['error'], 'fresh': b['error']})
        for f in FIELDS + ['first_index', 'first_time', 'every', 'end_balance', 'trades_count', 'last_index']:
            if a['observed'].get(f) != b['observed'].get(f):
                return ('history-dependence/' + f, {'field': f, 'after_history': a['observed'].get(f), 'fresh': b['observed'].get(f)})
        if a['result'] != b['result']:
            ra, rb = a['result'] or {}, b['result'] or {}
            diff = {k: [ra.get(k), rb.get(k)] for k in sorted(set(ra) | set(rb)) if ra.get(k) != rb.get(k)}
            return ('history-dependence/metrics', {'differing_metrics(after_history, fresh)': dict(list(diff.items())[:8])})
        if a.get('equity_tail') != b.get('equity_tail'):
            return ('history-dependence/equity-curve', {'after_history': a.get('equity_tail'), 'fresh': b.get('equity_tail')})
        return None

    def oracle(self, res, boost):
        hs, runs = self._runs(boost)
        for (hist, probe), (with_h, fresh) in zip(hs, runs):
            trades = (fresh['result'] or {}).get('total', 0) or 0
            res.seen((json.dumps([hist, probe], sort_keys=True),), trades > 0)
            res.count('histories')
            res.count('earlier-calls', len(hist))
            res.count('earlier-calls-aborted', sum(1 for o in with_h[:-1] if o['error']))
            for o in with_h[:-1]:
                if o['error']:
                    res.count('abort:' + o['error'])
            for ax in axes_of(hist, probe):
                res.count('axis:' + ax)
            res.count('probe-trades', trades)
            bad = self.compare_probe(hist, probe, with_h, fresh)
            if bad:
                cls, det = bad

                def still(h2):
                    w = run_calls(list(h2) + [probe])
                    r = self.compare_probe(list(h2), probe, w, fresh)
                    return r is not None and r[0] == cls
                shrunk = getattr(self, '_shrunk', 0)
                small = hist
                if len(hist) > 1 and shrunk < 2:
                    self._shrunk = shrunk + 1
                    small = core.shrink_list(hist, still, max_rounds=10)
                res.fail(**{'class': cls, 'input': {'earlier_calls': small, 'probe': probe}, 'observed': det,
                            'params': {'axes': sorted(axes_of(small, probe))},
                            'how': 'python harness/c11run.py < {"calls": earlier_calls + [probe]}  vs  {"calls": [probe]}'})
            else:
                res.sample({'earlier_calls': len(hist), 'axes': sorted(axes_of(hist, probe)), 'probe_trades': trades,
                            'finishing_balance': (fresh['result'] or {}).get('finishing_balance')}, cap=3)

    def replay(self, doc):
        print(doc['failure'])
        return 1


CHECK = C11
