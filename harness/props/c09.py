"""C09 — isolated-margin liquidation (price formulas; the trigger part is decided on engine sessions)."""
import math

import acct
import core
import jesse_env
import purecorr
from core import wire, fr


class C09(core.Check):
    pid = 'C09'
    gen_keys = ['jesse/models/Position.py:Position.liquidation_price', 'jesse/models/Position.py:Position.bankruptcy_price',
                'jesse/models/Position.py:Position._initial_margin_rate', 'jesse/models/Position.py:Position.type',
                'jesse/models/Position.py:Position.is_long', 'jesse/models/Position.py:Position.is_short',
                'jesse/models/Position.py:Position.is_close', 'jesse/models/Position.py:Position.is_open',
                'jesse/models/Position.py:Position.pnl', 'jesse/models/Position.py:Position.value',
                'jesse/models/Position.py:Position.total_cost']
    rule = ('translator cross-check: real Position.liquidation_price/bankruptcy_price/type/pnl/value/total_cost (real Position '
            'objects inside a real futures/spot store, isolated and cross) vs the generated definitions for leverages 1..125, '
            'long/short/closed, lattice and random entries; oracle: ordering bankruptcy < liquidation < entry (mirrored for '
            'shorts) for every leverage 1..125 and no liquidation price in cross/spot, on the real objects; non-trivial = '
            'open position; distinct = distinct (leverage, mode, qty, entry, price)')

    def sessions(self):
        out = []
        r = self.rng
        levs = list(range(1, 126)) if self.thorough else sorted(set([1, 2, 3, 5, 10, 20, 50, 100, 125] + [r.randint(1, 125) for _ in range(8)]))
        for lev in levs:
            out.append(('futures', 'isolated', lev))
        for lev in [1, 2, 10, 125]:
            out.append(('futures', 'cross', lev))
        out.append(('spot', 'spot', 1))
        return out

    def states(self):
        r = self.rng
        out = []
        for _ in range(self.budget(6, 40)):
            entry = r.choice([100.0, 8.0, 0.5, 20000.0, round(r.uniform(0.01, 60000), r.choice([0, 2, 4]))])
            qty = r.choice([1.0, -1.0, 0.0, 2.5, -0.125, round(r.uniform(-50, 50), 3)])
            cur = round(entry * r.choice([1, 0.9, 1.1, 0.5, 1.5, r.uniform(0.7, 1.3)]), 6)
            out.append((qty, entry, cur))
        return out

    def correspondence(self, res, boost):
        jesse_env.setup()
        batch = []
        keep = []
        for (kind, mode, lev) in self.sessions():
            s = acct.Session(kind, 10_000, 0.0, leverage=lev, mode=mode if kind == 'futures' else 'cross')
            p = s.position('BTC-USDT')
            keep.append(s)
            for (qty, entry, cur) in self.states():
                if kind == 'spot' and qty < 0:
                    continue
                w = [wire(qty), wire(entry), wire(cur), wire(lev), mode, '1']

                def snap(attr, p=p, qty=qty, entry=entry, cur=cur, s=s):
                    # the store is shared between sessions: re-point the selectors at this session's objects
                    s.store.positions.storage['Sandbox-BTC-USDT'] = p
                    s.store.exchanges.storage['Sandbox'] = s.exchange
                    p.qty, p.entry_price, p.current_price = qty, (entry if qty != 0 else None), cur
                    v = getattr(p, attr)
                    if isinstance(v, float) and math.isnan(v):
                        return None
                    return v
                for fn, attr in (('liquidation_price', 'liquidation_price'), ('bankruptcy_price', 'bankruptcy_price'),
                                 ('pos_type', 'type'), ('pos_value', 'value'), ('pos_pnl', 'pnl'), ('total_cost', 'total_cost')):
                    batch.append((fn, w, (lambda attr=attr, snap=snap: snap(attr)), 'Position.' + attr))
        purecorr.cross_check(res, batch)

    def oracle(self, res, boost):
        jesse_env.setup()
        r = self.rng
        for lev in range(1, 126):
            s = acct.Session('futures', 10_000, 0.0, leverage=lev, mode='isolated')
            p = s.position('BTC-USDT')
            for _ in range(self.budget(3, 40, boost)):
                entry = r.choice([100.0, 0.5, 20000.0, round(r.uniform(0.01, 60000), 4)])
                for qty in (r.choice([1.0, 2.5, 0.001]), -r.choice([1.0, 2.5, 0.001])):
                    p.qty, p.entry_price, p.current_price = qty, entry, entry
                    liq, bk = p.liquidation_price, p.bankruptcy_price
                    inp = {'leverage': lev, 'qty': qty, 'entry': entry}
                    res.seen((lev, qty, entry), True)
                    res.count('long' if qty > 0 else 'short')
                    if qty > 0:
                        ok = (bk <= liq) and (liq < entry or lev == 1) and (bk < liq)
                        if lev > 1:
                            ok = ok and bk < liq < entry
                    else:
                        ok = (entry < liq or lev == 1) and liq < bk
                    if not ok:
                        res.fail(**{'class': 'liquidation-price/not-between', 'input': inp,
                                    'observed': {'liquidation': liq, 'bankruptcy': bk}})
                    res.sample({'position': inp, 'liquidation': liq, 'bankruptcy': bk})
        for (kind, mode) in (('futures', 'cross'), ('spot', 'cross')):
            s = acct.Session(kind, 10_000, 0.0, leverage=10, mode=mode)
            p = s.position('BTC-USDT')
            for qty in (1.0, -1.0) if kind == 'futures' else (1.0,):
                p.qty, p.entry_price, p.current_price = qty, 100.0, 100.0
                liq = p.liquidation_price
                res.seen((kind, mode, qty), True)
                res.count('no-liq:' + kind)
                if not (isinstance(liq, float) and math.isnan(liq)):
                    res.fail(**{'class': 'liquidation-price/exists-in-cross-or-spot', 'input': {'kind': kind, 'mode': mode, 'qty': qty},
                                'observed': liq})

    def replay(self, doc):
        print(doc['failure'])
        return 1


CHECK = C09
