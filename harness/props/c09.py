"""C09 — isolated-margin liquidation (price formulas; the trigger part is decided on engine sessions)."""
import math
import random
from math import gcd

import engcorr
import engoracles
import acct
import core
import jesse_env
import purecorr
from core import wire, fr


class C09(core.Check):
    pid = 'C09'
    unproved = [
        'which candle is handed to the liquidation check and when: for the normal simulator minute_check_after_matching (once per minute, after all matching, on the stored minute, with the jump-fixed candle); for the fast simulator chunk_check_once_with_aggregate (once per chunk, after the matching of all its minutes, with the chunk stored, the clock at the end of the chunk and the AGGREGATE candle); that these are the right times is the property text, that the model is the code is engine correspondence + liquidation oracle',
    ]
    gen_keys = ['jesse/models/Position.py:Position.liquidation_price', 'jesse/models/Position.py:Position.bankruptcy_price',
                'jesse/models/Position.py:Position._initial_margin_rate', 'jesse/models/Position.py:Position.type',
                'jesse/models/Position.py:Position.is_long', 'jesse/models/Position.py:Position.is_short',
                'jesse/models/Position.py:Position.is_close', 'jesse/models/Position.py:Position.is_open',
                'jesse/models/Position.py:Position.pnl', 'jesse/models/Position.py:Position.value',
                'jesse/models/Position.py:Position.total_cost']
    rule = ('engine: isolated and cross sessions with leverage 10..125 on candles that approach, touch and jump over the '
            'liquidation price, with and without protective stops, on the real engine and on the Lean engine model (identical '
            'traces incl. the force-closing order), trigger oracle on real traces (force-close iff open after matching and '
            'range contains the liquidation price; closing order fields; count); translator cross-check: real Position.liquidation_price/bankruptcy_price/type/pnl/value/total_cost (real Position '
            'objects inside a real futures/spot store, isolated and cross) vs the generated definitions for leverages 1..125, '
            'long/short/closed, lattice and random entries; oracle: ordering bankruptcy < liquidation < entry (mirrored for '
            'shorts) for every leverage 1..125 and no liquidation price in cross/spot, on the real objects; non-trivial = '
            'open position; distinct = distinct (leverage, mode, qty, entry, price)')

    def sessions(self):
        out = []
        r = self.rng
        levs = list(range(1, 126)) if self.thorough else sorted(set([1, 2, 3, 5, 10, 20, 50, 100, 125] + [r.randint(1, 125) for _ in range(8)]))
        for lev in levs:
            out.append(('futures', 'isolated', lev))
        for lev in [1, 2, 10, 125]:
            out.append(('futures', 'cross', lev))
        out.append(('spot', 'spot', 1))
        return out

    def states(self):
        r = self.rng
        out = []
        for _ in range(self.budget(6, 40)):
            entry = r.choice([100.0, 8.0, 0.5, 20000.0, round(r.uniform(0.01, 60000), r.choice([0, 2, 4]))])
            qty = r.choice([1.0, -1.0, 0.0, 2.5, -0.125, round(r.uniform(-50, 50), 3)])
            cur = round(entry * r.choice([1, 0.9, 1.1, 0.5, 1.5, r.uniform(0.7, 1.3)]), 6)
            out.append((qty, entry, cur))
        return out

    def correspondence(self, res, boost):
        jesse_env.setup()
        batch = []
        keep = []
        for (kind, mode, lev) in self.sessions():
            s = acct.Session(kind, 10_000, 0.0, leverage=lev, mode=mode if kind == 'futures' else 'cross')
            p = s.position('BTC-USDT')
            keep.append(s)
            for (qty, entry, cur) in self.states():
                if kind == 'spot' and qty < 0:
                    continue
                w = [wire(qty), wire(entry), wire(cur), wire(lev), mode, '1']

                def snap(attr, p=p, qty=qty, entry=entry, cur=cur, s=s):
                    # the store is shared between sessions: re-point the selectors at this session's objects
                    s.store.positions.storage['Sandbox-BTC-USDT'] = p
                    s.store.exchanges.storage['Sandbox'] = s.exchange
                    p.qty, p.entry_price, p.current_price = qty, (entry if qty != 0 else None), cur
                    v = getattr(p, attr)
                    if isinstance(v, float) and math.isnan(v):
                        return None
                    return v
                for fn, attr in (('liquidation_price', 'liquidation_price'), ('bankruptcy_price', 'bankruptcy_price'),
                                 ('pos_type', 'type'), ('pos_value', 'value'), ('pos_pnl', 'pnl'), ('total_cost', 'total_cost')):
                    batch.append((fn, w, (lambda attr=attr, snap=snap: snap(attr)), 'Position.' + attr))
        purecorr.cross_check(res, batch)
        self.engine_correspondence(res, boost)

    def engine_sessions(self, n, rng):
        out = []
        for _ in range(n):
            lev = rng.choice([10, 25, 50, 100, 125])
            out.append(engcorr.gen_session(rng, kinds=('futures',), isolated=rng.random() < 0.85, leverage=lev, max_n=120,
                                           vol=rng.choice([4, 8, 16]), gap_prob=rng.choice([0.1, 0.4]), lengths=[30, 60, 120],
                                           tight=rng.random() < 0.3))
        return out

    def gap_sessions(self, n, rng):
        """a position whose liquidation price is JUMPED OVER between two 1m candles (never traded): inside a fast-mode
        chunk, on a chunk boundary, or in the normal simulator; long and short; the candles afterwards stay beyond it"""
        out = []
        for _ in range(n):
            lev = rng.choice([1, 2, 5, 10, 20, 25])      # leverage 1: a long's bankruptcy price is exactly 0
            side = rng.choice(['long', 'short'])
            sg = 1 if side == 'long' else -1
            fast = rng.random() < 0.7
            tf = rng.choice(['5m', '5m', '15m', '3m']) if fast else rng.choice(['1m', '5m'])
            m = engcorr.TFM[tf]
            entry = 100.0
            liq = entry * (1 - sg * (1 / lev - 0.004))
            step = 0.125
            near = round((liq + sg * rng.choice([0.25, 0.5, 1.0])) / step) * step          # last price before the jump
            far = round((liq - sg * rng.choice([0.25, 0.5, 1.0, 2.0])) / step) * step      # first price after it
            if lev == 1 and side == 'long':
                near, far = rng.choice([0.5, 0.75, 2.0]), 0.25       # liquidation price 0.4
            n_rows = m * rng.choice([3, 4]) if m >= 3 else 12
            jump_at = m + rng.randrange(1, n_rows - m - 1)       # the row that opens beyond the liquidation price
            rows = []
            for i in range(n_rows):
                if i < m:
                    rows.append((entry, entry, entry, entry, 1.0))
                elif i < jump_at:
                    lo, hi = min(entry, near), max(entry, near)
                    o = entry if i == m else near
                    rows.append((o, near, max(o, near, hi if i == m else near), min(o, near, lo if i == m else near), 2.0))
                else:
                    rows.append((far, far, far + (0.125 if sg < 0 else 0), far - (0.125 if sg > 0 else 0), 3.0))
            script = {side: {'every': 100000, 'phase': 0, 'rows': [(1.0, 0.0)]}}
            fee = rng.choice([0, 1 / 1024])
            balance = 100_000
            if lev >= 2 and rng.random() < 0.4:
                # an all-in position: the wallet barely covers the margin, so margin + entry and exit fees take it BELOW
                # zero at the liquidation (that is what the loss is; nothing may cut it off)
                fee = 1 / 1024
                balance = round(entry / lev * 1.012, 6)
            out.append({'kind': 'futures', 'balance': balance, 'fee': fee, 'leverage': lev, 'isolated': True,
                        'fast': fast, 'syms': ['BTC-USDT'], 'routes': [('BTC-USDT', tf)], 'droutes': [], 'n': n_rows,
                        'scripts': {'BTC-USDT': script}, 'rows': {'BTC-USDT': rows}, 'candle_seed': rng.randrange(1 << 30),
                        'vol': 0, 'gap_prob': 1})
        return out

    def engine_correspondence(self, res, boost):
        rng = random.Random(self.seed * 7919 + 9)
        engcorr.compare_sessions(res, self.engine_sessions(self.budget(100, 700, boost), rng)
                                 + self.gap_sessions(self.budget(30, 300, boost), rng))

    def trigger_oracle(self, res, boost):
        """on real traces: a force-close happens at the end of a minute (chunk) iff the position is still open after
        matching and the range contains its liquidation price; the closing order is a reduce-only MARKET order on the
        closing side for the whole position at the bankruptcy price; the loss is the initial margin plus fees"""
        M = 60_000
        rng = random.Random(self.seed * 104729 + 9)
        for sess in self.engine_sessions(self.budget(180, 1200, boost), rng) + self.gap_sessions(self.budget(60, 600, boost), rng):
            cands = engcorr.candles_of(sess)
            ev, tr, err = engcorr.run_real(sess, cands)
            res.count('sessions:' + ('fast' if sess['fast'] else 'step') + (':isolated' if sess['isolated'] else ':cross'))
            if err is not None:
                res.count('session-error:' + type(err).__name__)
                continue
            step = 1
            if sess['fast']:
                step = 0
                for (_, tf) in sess['routes'] + sess['droutes']:
                    step = gcd(step, engcorr.TFM[tf])
            orders = engoracles.order_table(tr)
            L = sess['leverage']
            nliq = 0
            for sym in sess['syms']:
                arr = cands[sym]
                t0 = int(arr[0][0])
                n = len(arr)
                # position after every fill, in time order
                fills = [(e[2], e[1]) for e in tr.events if e[0] == 'FILL' and e[3] == sym]
                pos_after = {}
                qty, entry = 0.0, None
                idx = 0
                evs = [e for e in tr.events if (e[0] == 'FILL' and e[3] == sym) or (e[0] == 'POS' and e[1] == sym)]
                # a liquidation order: MARKET, reduce-only, submitted and filled with no strategy call in between, price != cur
                liq_orders = set()
                for k, o in orders.items():
                    if o['sym'] == sym and k in tr.liq_orders:
                        liq_orders.add(k)
                nliq += len(liq_orders)
                state_at_unit_end = {}
                cur_q, cur_e = 0.0, None
                pending = None
                for e in evs:
                    if e[0] == 'FILL':
                        pending = e
                    else:
                        k = pending[1]
                        unit = ((int(pending[2]) - M - t0) // M) // step if orders[k]['type'] != 'MARKET' or k in liq_orders else None
                        if k in liq_orders:
                            unit = ((int(pending[2]) - M - t0) // M) // step if not sess['fast'] else ((int(pending[2]) - t0) // M - 1) // step
                            # check the closing order itself
                            o = orders[k]
                            bk = cur_e * (1 - 1 / L) if cur_q > 0 else cur_e * (1 + 1 / L)
                            liq = cur_e * (1 - 1 / L + 0.004) if cur_q > 0 else cur_e * (1 + 1 / L - 0.004)
                            okside = o['side'] == ('sell' if cur_q > 0 else 'buy')
                            if not (okside and abs(abs(o['qty']) - abs(cur_q)) < 1e-9 and abs(o['price'] - bk) < 1e-9 * max(1, bk)):
                                res.fail(**{'class': 'liquidation/closing-order', 'input': self.desc(sess), 'observed': o,
                                            'expected': {'side': 'closing', 'qty': abs(cur_q), 'price': bk}})
                            # the position loses exactly its initial margin (plus the fee of the closing fill)
                            if len(e) >= 6 and e[4] is not None and e[5] is not None:
                                margin = abs(cur_q) * cur_e / L
                                fee = sess['fee'] * abs(cur_q) * bk
                                if abs((e[4] - e[5]) - (margin + fee)) > 1e-7 * max(1.0, margin):
                                    res.fail(**{'class': 'liquidation/loss-is-not-the-initial-margin', 'input': self.desc(sess),
                                                'observed': {'order': k, 'wallet_before': e[4], 'wallet_after': e[5], 'position': [cur_q, cur_e]},
                                                'expected': {'loss': margin + fee, 'fill_price': bk}})
                            c0, c1 = unit * step, min(unit * step + step, n)
                            lo, hi = self.unit_range(arr, c0, c1)
                            if not (lo - 1e-9 <= liq <= hi + 1e-9) or not sess['isolated']:
                                res.fail(**{'class': 'liquidation/force-closed-without-trigger', 'input': self.desc(sess),
                                            'observed': {'order': k, 'liquidation_price': liq, 'range': [lo, hi], 'unit': [c0, c1]}})
                            state_at_unit_end[unit] = 'liquidated'
                        cur_q, cur_e = e[2], e[3]
                        t = int(pending[2])
                        pos_after[t] = (cur_q, cur_e)
                # no missed liquidation: replay the position per unit end
                timeline = sorted(pos_after.items())
                for c0 in range(0, n, step):
                    c1 = min(c0 + step, n)
                    t_end = t0 + c1 * M
                    q, en = 0.0, None
                    for (t, (qq, ee)) in timeline:
                        if t <= t_end:
                            q, en = qq, ee
                    unit = c0 // step
                    if q != 0 and en is not None and sess['isolated'] and state_at_unit_end.get(unit) != 'liquidated':
                        liq = en * (1 - 1 / L + 0.004) if q > 0 else en * (1 + 1 / L - 0.004)
                        lo, hi = self.unit_range(arr, c0, c1)
                        # positions opened by a MARKET order at the strategy step of this very unit end are opened AFTER the check
                        opened_after = any(t == t_end and orders[k]['type'] == 'MARKET' for (t, k) in fills)
                        if lo <= liq <= hi and not opened_after and abs(min(abs(liq - lo), abs(liq - hi))) > 1e-9:
                            res.fail(**{'class': 'liquidation/missed', 'input': self.desc(sess),
                                        'observed': {'unit': [c0, c1], 'position': [q, en], 'liquidation_price': liq, 'range': [lo, hi]}})
                            break
            res.seen((sess['candle_seed'], sess['fast']), nliq > 0)
            res.count('liquidations', nliq)
            if tr.final and tr.final['liquidations'] != nliq:
                res.fail(**{'class': 'liquidation/count', 'input': self.desc(sess),
                            'observed': {'counted': tr.final['liquidations'], 'force_closing_orders': nliq}})

    @staticmethod
    def is_liq_order(tr, k):
        # the liquidation order is created by the simulator, not through the broker: it is never queued in to_execute;
        # in the trace it is the only MARKET order whose FILL directly follows its SUBMIT
        idx = next(i for i, e in enumerate(tr.events) if e[0] == 'SUBMIT' and e[1] == k)
        return idx + 1 < len(tr.events) and tr.events[idx + 1][0] == 'FILL' and tr.events[idx + 1][1] == k

    @staticmethod
    def unit_range(arr, c0, c1):
        lo = min(float(arr[x][4]) for x in range(c0, c1))
        hi = max(float(arr[x][3]) for x in range(c0, c1))
        if c0 > 0:
            pc = float(arr[c0 - 1][2])
            o0 = float(arr[c0][1])
            if pc < o0:
                lo = min(lo, pc)
            elif pc > o0:
                hi = max(hi, pc)
        return lo, hi

    @staticmethod
    def desc(sess):
        return {'session': {kk: sess[kk] for kk in ('kind', 'fee', 'leverage', 'isolated', 'fast', 'routes', 'droutes', 'n',
                                                    'scripts', 'candle_seed', 'vol', 'gap_prob', 'rows') if kk in sess}}

    def oracle(self, res, boost):
        jesse_env.setup()
        self.trigger_oracle(res, boost)
        r = self.rng
        for lev in range(1, 126):
            s = acct.Session('futures', 10_000, 0.0, leverage=lev, mode='isolated')
            p = s.position('BTC-USDT')
            for _ in range(self.budget(3, 40, boost)):
                entry = r.choice([100.0, 0.5, 20000.0, round(r.uniform(0.01, 60000), 4)])
                for qty in (r.choice([1.0, 2.5, 0.001]), -r.choice([1.0, 2.5, 0.001])):
                    p.qty, p.entry_price, p.current_price = qty, entry, entry
                    liq, bk = p.liquidation_price, p.bankruptcy_price
                    inp = {'leverage': lev, 'qty': qty, 'entry': entry}
                    res.seen((lev, qty, entry), True)
                    res.count('long' if qty > 0 else 'short')
                    if qty > 0:
                        ok = (bk <= liq) and (liq < entry or lev == 1) and (bk < liq)
                        if lev > 1:
                            ok = ok and bk < liq < entry
                    else:
                        ok = (entry < liq or lev == 1) and liq < bk
                    if not ok:
                        res.fail(**{'class': 'liquidation-price/not-between', 'input': inp,
                                    'observed': {'liquidation': liq, 'bankruptcy': bk}})
                    res.sample({'position': inp, 'liquidation': liq, 'bankruptcy': bk})
        for (kind, mode) in (('futures', 'cross'), ('spot', 'cross')):
            s = acct.Session(kind, 10_000, 0.0, leverage=10, mode=mode)
            p = s.position('BTC-USDT')
            for qty in (1.0, -1.0) if kind == 'futures' else (1.0,):
                p.qty, p.entry_price, p.current_price = qty, 100.0, 100.0
                liq = p.liquidation_price
                res.seen((kind, mode, qty), True)
                res.count('no-liq:' + kind)
                if not (isinstance(liq, float) and math.isnan(liq)):
                    res.fail(**{'class': 'liquidation-price/exists-in-cross-or-spot', 'input': {'kind': kind, 'mode': mode, 'qty': qty},
                                'observed': liq})

    def replay(self, doc):
        print(doc['failure'])
        return 1


CHECK = C09
