"""C12 — fast mode reproduces the normal simulation when fills are unambiguous."""
import copy
import random

import core
import engcorr
import engoracles
import jesse_env

M = 60_000


class C12(core.Check):
    pid = 'C12'
    unproved = [
        "spans that contain a fill (the property's hypothesis allows one per trading-candle span): paired-run oracle",
        'the candle stores of the two simulators: stores_agree (two engines that satisfy the C07 run invariant for the same stored minutes give a reader the same candles of every timeframe, and equal stored arrays on a window boundary) — its hypothesis (the same stored minutes) holds on gap-free data; on gapped data the normal simulator stores every minute jump-fixed while the fast one fixes only the first minute of a chunk (both as the code does), so the 1m rows of the two runs differ in the open/high/low of a gapping inner minute — C12 claims nothing about that and C07 holds for each run on its own rows',
    ]
    gen_keys = ['jesse/services/candle.py:split_candle', 'jesse/modes/backtest_mode.py:_get_fixed_jumped_candle']
    rule = ('correspondence: single-symbol sessions in BOTH simulators on the real engine and on the Lean engine model '
            '(identical traces required per simulator); oracle: the same real session run with fast_mode=False and '
            'fast_mode=True, kept when the normal run never fills more than one resting order inside one trading-candle span '
            'and has no liquidation: executed orders (side, type, quantity, price, fill minute), closed trades and final '
            'balances must be equal; trading timeframes 1m..1h with and without larger data routes, spot and futures; '
            'non-trivial = at least one resting order filled; distinct = distinct sessions')

    def sessions(self, n, rng):
        out = []
        for _ in range(n):
            s = engcorr.gen_session(rng, allow_two=False, tfs=('1m', '3m', '5m', '15m', '1h'), max_n=240,
                                    vol=rng.choice([2, 4]), gap_prob=rng.choice([0.0, 0.2]),
                                    # also lengths that leave an unfinished trading candle (and a shorter last chunk) at the end
                                    lengths=[60, 120, 180, 240, 64, 127, 187, 233],
                                    isolated=False)
            out.append(s)
        return out

    def correspondence(self, res, boost):
        jesse_env.setup()
        rng = random.Random(self.seed * 7919 + 12)
        sessions = []
        for s in self.sessions(self.budget(40, 300, boost), rng):
            for fast in (False, True):
                s2 = copy.deepcopy(s)
                s2['fast'] = fast
                sessions.append(s2)
        engcorr.compare_sessions(res, sessions)

    @staticmethod
    def summary(sess, cands, tr):
        t0 = int(cands[sess['syms'][0]][0][0])
        orders = engoracles.order_table(tr)
        ex = []
        for k in sorted(orders):
            o = orders[k]
            if o['filled'] is not None:
                ex.append((o['side'], o['type'], round(float(o['qty']), 9), round(float(o['price']), 9), (int(o['filled']) - t0) // M))
        trades = []
        fin = None
        if tr.final:
            for t in tr.final['trades']:
                trades.append((t['type'], round(float(t['qty']), 9), round(float(t['entry_price']), 9), round(float(t['exit_price']), 9),
                               t['opened_at'], t['closed_at']))
            st = tr.final['state']
            exch = list(st['exchanges'].values())[0]
            fin = {k: round(float(v), 8) for k, v in exch['assets'].items()}
        return ex, trades, fin

    def oracle(self, res, boost):
        jesse_env.setup()
        rng = random.Random(self.seed * 104729 + 12)
        regress = []
        for w in core.load_regressions('C12'):
            w = dict(w)
            w['routes'] = [tuple(x) for x in w['routes']]
            w['droutes'] = [tuple(x) for x in w['droutes']]
            w.setdefault('syms', sorted({x for x, _ in w['routes']}))
            w.setdefault('balance', 100_000)
            regress.append(w)
        gen = self.sessions(self.budget(150, 1200, boost), rng)
        # every third generated session with an on_open script measures its exits from the price the position is marked
        # at inside the fill hook instead of the entry price ("every strategy": one that reads a mark-to-market
        # quantity in a fill hook).  Single-fill entries only, where the two bases agree in the normal simulator.
        for i, s_ in enumerate(gen):
            for sc in s_['scripts'].values():
                oo = sc.get('on_open')
                if oo and i % 3 == 0 and all(len((sc.get(k) or {}).get('rows', [])) <= 1 for k in ('long', 'short')):
                    oo['base'] = 'price'
        for sess in regress + gen:
            cands = engcorr.candles_of(sess)
            s_step = dict(sess, fast=False)
            s_fast = dict(sess, fast=True)
            ev1, tr1, err1 = engcorr.run_real(s_step, cands)
            tf = engcorr.TFM[sess['routes'][0][1]]
            t0 = int(cands[sess['syms'][0]][0][0])
            orders = engoracles.order_table(tr1)
            spans = {}
            for k, o in orders.items():
                if o['filled'] is not None and o['type'] != 'MARKET':
                    sp = ((int(o['filled']) - M - t0) // M) // tf
                    spans[sp] = spans.get(sp, 0) + 1
            liq = tr1.final['liquidations'] if tr1.final else 0
            if err1 is not None or liq or any(v > 1 for v in spans.values()):
                res.discarded += 1
                res.count('outside-hypothesis')
                continue
            ev2, tr2, err2 = engcorr.run_real(s_fast, cands)
            a = self.summary(sess, cands, tr1)
            b = self.summary(sess, cands, tr2)
            res.seen((sess['candle_seed'],), len(spans) > 0)
            res.count('pairs')
            res.count('resting-fills', sum(spans.values()))
            if err2 is not None or a != b:
                what = 'fast-run-raises' if err2 is not None else ('executed-orders' if a[0] != b[0] else ('closed-trades' if a[1] != b[1] else 'final-balances'))
                k = next((i for i, (x, y) in enumerate(zip(a[0], b[0])) if x != y), min(len(a[0]), len(b[0])))
                res.fail(**{'class': 'fast-vs-step/' + what,
                            'input': {'session': {kk: sess[kk] for kk in ('kind', 'fee', 'leverage', 'isolated', 'routes', 'droutes',
                                                                         'n', 'scripts', 'candle_seed', 'vol', 'gap_prob')}},
                            'observed': {'first_difference_index': k, 'step': a[0][k:k + 2], 'fast': b[0][k:k + 2],
                                         'step_final': a[2], 'fast_final': b[2], 'fast_error': repr(err2)[:200] if err2 else None},
                            'params': {'what': what, 'data_routes': len(sess['droutes']) > 0, 'timeframe': sess['routes'][0][1]}})
            elif len(res.samples) < 3:
                res.sample({'routes': sess['routes'], 'droutes': sess['droutes'], 'n': sess['n'], 'executed_orders': len(a[0]),
                            'closed_trades': len(a[1]), 'final': a[2]})

    def replay(self, doc):
        print(doc['failure'])
        return 1


CHECK = C12
