"""C02 — resting orders fill exactly when and where the price reaches them."""
import random
from math import gcd

import core
import engcorr
import engoracles
import jesse_env


class C02(core.Check):
    pid = 'C02'
    unproved = [
        'fast simulator: the composition is proved for the normal simulator only (the former counterexample C02-F5 — a chunk sorted along raw minutes and matched on jump-fixed ones — is repaired by 947063f1 and kept as fast_chunk_fills_both_regression); in a chunk the re-selection is not re-sorted (known finding C02-F1) and per-minute candidates are carried over, so only chunk_minute_no_resting_hit is proved there; the rest is decided by correspondence and the missed-fill oracle',
        'the validity of the minute candle handed to the loop is proved for whole runs of the normal simulator on valid input (runStepN_keeps_valid, minute_candle_valid) and, for the rows of a chunk, of the fast simulator (runSkipN_keeps_valid, chunk_minute_valid); that the registry lists every active order at the start of the minute (C05.active_registry at strategy steps) remains a hypothesis of resting_order_never_left_in_range',
    ]
    gen_keys = ['jesse/services/candle.py:split_candle', 'jesse/services/candle.py:candle_includes_price',
                'jesse/modes/backtest_mode.py:_get_fixed_jumped_candle']
    rule = ('correspondence: whole sessions on the real engine and on the Lean engine model with volatile candles (gaps, '
            'flats, prices on O/H/L/C of the lattice) and tight multi-point entries / stop-loss / take-profit ladders so that '
            'several orders are reachable inside one minute; identical event traces required (which order fills in which '
            'minute at which price); oracle on the REAL traces: every LIMIT/STOP fill lies in the (previous-close-extended) '
            'range of its minute (chunk), never before submission nor after cancellation, no order survives a minute (chunk) '
            'whose range contained its price, MARKET orders fill at submission time at the current price; '
            'non-trivial = at least two fills in one minute; distinct = distinct sessions')

    def sessions(self, n, rng):
        out = []
        for _ in range(n):
            out.append(engcorr.gen_session(rng, max_n=90, tight=rng.random() < 0.7, vol=rng.choice([6, 10, 16]),
                                           gap_prob=rng.choice([0.1, 0.3, 0.5]), lengths=[20, 30, 45, 60]))
        return out

    def correspondence(self, res, boost):
        jesse_env.setup()
        rng = random.Random(self.seed * 7919 + 2)
        engcorr.compare_sessions(res, self.sessions(self.budget(100, 700, boost), rng) + engcorr.micro_sessions(rng, self.budget(80, 800, boost)))

    def oracle(self, res, boost):
        jesse_env.setup()
        rng = random.Random(self.seed * 104729 + 6)
        # the witnesses of the open known findings run first (so that each one is re-confirmed on every run)
        witnesses = []
        for k in core.load_known():
            if k['property'] == 'C02' and k.get('status') == 'open' and 'session' in k.get('witness', {}):
                w = dict(k['witness']['session'])
                w['routes'] = [tuple(x) for x in w['routes']]
                w['droutes'] = [tuple(x) for x in w['droutes']]
                w.setdefault('syms', sorted({x for x, _ in w['routes']}))
                w.setdefault('balance', 100_000)
                witnesses.append(w)
        for key in ('witness_fast',):
            for k in core.load_known():
                if k['property'] == 'C02' and k.get('status') == 'open' and 'session' in k.get(key, {}):
                    witnesses.append(dict(k[key]['session']))
        witnesses += [dict(x) for x in core.load_regressions('C02')]
        for w in witnesses:
            w['routes'] = [tuple(x) for x in w['routes']]
            w['droutes'] = [tuple(x) for x in w['droutes']]
            w.setdefault('syms', sorted({x for x, _ in w['routes']}))
            w.setdefault('balance', 100_000)
        for sess in witnesses + self.sessions(self.budget(180, 1200, boost), rng) + engcorr.micro_sessions(rng, self.budget(250, 3000, boost)):
            cands = engcorr.candles_of(sess)
            ev, tr, err = engcorr.run_real(sess, cands)
            step = 1
            if sess['fast']:
                step = 0
                for (_, tf) in sess['routes'] + sess['droutes']:
                    step = gcd(step, engcorr.TFM[tf])
            bad = engoracles.c02_violations(sess, cands, tr, step, aborted=err is not None)
            if err is not None:
                res.count('session-error:' + type(err).__name__)
            multi = {}
            for e in tr.events:
                if e[0] == 'FILL':
                    multi[e[2]] = multi.get(e[2], 0) + 1
            res.seen((sess['candle_seed'], sess['fast']), any(v > 1 for v in multi.values()))
            res.count('sessions:' + ('fast' if sess['fast'] else 'step'))
            res.count('orders', len(tr.orders))
            overtaken = {k for (what, k, info) in bad if what == 'market-order-overtaken'}
            for (what, k, info) in bad[:3]:
                if what == 'market-not-filled-at-submission':
                    # the same MARKET order was overtaken inside its minute by a resting order (whose fill cut the candle
                    # below/above the MARKET order's price): the delay to a later minute is the consequence
                    info = dict(info, after_being_overtaken=k in overtaken)
                res.fail(**{'class': f'matching/{what}/' + ('fast' if sess['fast'] else 'step'),
                            'input': {'session': {kk: sess[kk] for kk in ('kind', 'fee', 'leverage', 'isolated', 'fast', 'routes',
                                                                         'droutes', 'n', 'scripts', 'candle_seed', 'vol', 'gap_prob', 'rows')
                                                  if kk in sess}},
                            'observed': {'order': k, 'info': {a: b for a, b in info.items()}},
                            'params': {'simulator': 'fast' if sess['fast'] else 'step',
                                       'in_gap_only': bool(info.get('in_gap_only')),
                                       'market_priced_at_path_position': info.get('market_priced_at_path_position'),
                                       'jumped_over_by_out_of_order_fill': info.get('jumped_over_by_out_of_order_fill'),
                                       'sorted_along_raw_inner_minute': info.get('sorted_along_raw_inner_minute'),
                                       'after_being_overtaken': info.get('after_being_overtaken')}})
            if not bad and len(res.samples) < 3:
                res.sample({'routes': sess['routes'], 'fast': sess['fast'], 'orders': len(tr.orders),
                            'max_fills_in_one_minute': max(multi.values()) if multi else 0})

    def replay(self, doc):
        print(doc['failure'])
        return 1


CHECK = C02
