"""C17 — sizing and numeric helpers never overspend, over-risk or round up."""
import itertools
import math
from fractions import Fraction

import core
import jesse_env
import purecorr
from core import wire, fr

TFS = ['1m', '3m', '5m', '15m', '30m', '45m', '1h', '2h', '3h', '4h', '6h', '8h', '12h', '1D', '3D', '1W', '1M']
MINUTES = [1, 3, 5, 15, 30, 45, 60, 120, 180, 240, 360, 480, 720, 1440, 4320, 10080, 43200]


def near_int(x: Fraction, tol=Fraction(1, 10**7)):
    """is the exact value within tol (relative to max(1,|x|)) of an integer (a floor discontinuity)?"""
    n = round(x)
    return abs(x - n) <= tol * max(1, abs(x))


class C17(core.Check):
    pid = 'C17'
    gen_keys = ['jesse/utils.py:size_to_qty', 'jesse/utils.py:risk_to_size', 'jesse/utils.py:risk_to_qty',
                'jesse/utils.py:limit_stop_loss', 'jesse/utils.py:estimate_risk', 'jesse/utils.py:qty_to_size',
                'jesse/helpers.py:floor_with_precision', 'jesse/helpers.py:round_decimals_down',
                'jesse/helpers.py:max_timeframe', 'jesse/utils.py:timeframe_to_one_minutes',
                'jesse/utils.py:anchor_timeframe', 'jesse/modes/backtest_mode.py:module:timeframe_to_one_minutes']
    rule = ('translator cross-check of size_to_qty/risk_to_size/risk_to_qty/floor_with_precision/round_decimals_down/'
            'limit_stop_loss/max_timeframe/tables on seeded decimal inputs (cases whose exact value sits within 1e-7 of a '
            'floor discontinuity are discarded and counted); oracle: the C17 statements evaluated in floats on the real '
            'functions (cost<=capital, risk<=requested, within one step, decimal-exact add/sub, never rounds up, stop never '
            'widens, max_timeframe over subsets, table agreement) and acceptance of the sized order by a fresh real '
            'Spot/FuturesExchange; non-trivial = the call returned a value; distinct = distinct (function, input) pairs')
    assumptions = ['sum_floats/subtract_floats are modelled as exact addition/subtraction (exact on short decimals; checked by the oracle)']

    # ------------------------------------------------------------------ generators
    def sizing_inputs(self, n):
        r = self.rng
        out = []
        for _ in range(n):
            cap = round(r.choice([r.uniform(1, 100), r.uniform(100, 1e5), r.uniform(1e5, 1e7)]), r.choice([0, 1, 2, 2]))
            price = float(f'{r.choice([r.uniform(1e-6, 1e-3), r.uniform(1e-3, 1), r.uniform(1, 1e3), r.uniform(1e3, 1e6)]):.6g}')
            fee = r.choice([0, 0, 0.0002, 0.0004, 0.00075, 0.001, 0.002, round(r.uniform(0, 0.01), 5)])
            prec = r.choice([0, 1, 2, 3, 3, 4, 5, 6, 8])
            out.append((cap, price, prec, fee))
        return out

    # ------------------------------------------------------------------ correspondence
    def correspondence(self, res, boost):
        jesse_env.setup()
        import jesse.helpers as jh
        from jesse import utils
        r = self.rng
        n = self.budget(300, 6000, boost)
        batch = []

        def add(fn, args, thunk, label, exact_probe=None):
            if exact_probe is not None and near_int(exact_probe):
                res.discarded += 1
                return
            batch.append((fn, [wire(a) if not isinstance(a, str) else a for a in args], thunk, label))

        for (cap, price, prec, fee) in self.sizing_inputs(n):
            hs = fr(cap) * (1 - fr(fee) * 3) if fee != 0 else fr(cap)
            add('size_to_qty', [cap, price, str(prec), fee],
                (lambda a=cap, b=price, c=prec, d=fee: utils.size_to_qty(a, b, c, d)), 'size_to_qty',
                hs / fr(price) * 10**prec)
            x = round(r.uniform(-1000, 1000), r.choice([0, 2, 5]))
            add('floor_with_precision', [x, str(prec)], (lambda a=x, c=prec: jh.floor_with_precision(a, c)),
                'floor_with_precision', fr(x) * 10**prec)
            d = r.choice([-2, -1, 0, 1, 2, 3, 5, 8])
            add('round_decimals_down', [x, str(d)], (lambda a=x, c=d: float(jh.round_decimals_down(a, c))),
                'round_decimals_down', fr(x) * Fraction(10)**d)
            entry = price
            stop = float(f'{entry * r.choice([0.5, 0.9, 0.99, 1.01, 1.1, 1.0, 2]):.6g}')
            risk = r.choice([0.5, 1, 2, 5, 10, 50, 100])
            rpq = abs(fr(entry) - fr(stop))
            add('risk_to_size', [cap, risk, float(rpq), entry],
                (lambda a=cap, b=risk, c=float(rpq), d=entry: utils.risk_to_size(a, b, c, d)), 'risk_to_size')
            if rpq != 0:
                size = min(fr(risk) / 100 * fr(cap) / rpq * fr(entry), fr(cap))
                if fee != 0:
                    size = size * (1 - fr(fee) * 3) * (1 - fr(fee) * 3)
                probe = size / fr(entry) * 10**prec
            else:
                probe = None
            add('risk_to_qty', [cap, risk, entry, stop, str(prec), fee],
                (lambda a=cap, b=risk, c=entry, d=stop, e=prec, f=fee: utils.risk_to_qty(a, b, c, d, e, f)),
                'risk_to_qty', probe)
            t = r.choice(['long', 'short'])
            mr = r.choice([1, 2, 5, 10, 0.5])
            add('limit_stop_loss', [entry, stop, t, mr],
                (lambda a=entry, b=stop, c=t, d=mr: utils.limit_stop_loss(a, b, c, d)), 'limit_stop_loss')
            add('estimate_risk', [entry, stop], (lambda a=entry, b=stop: utils.estimate_risk(a, b)), 'estimate_risk')
            add('qty_to_size', [x, price], (lambda a=x, b=price: utils.qty_to_size(a, b)), 'qty_to_size')
        for k in range(self.budget(120, 3000, boost)):
            sub = [t for t in TFS if r.random() < r.choice([0.15, 0.4])]
            r.shuffle(sub)
            add('max_timeframe', sub, (lambda s=sub: jh.max_timeframe(list(s))), 'max_timeframe')
        for t in TFS:
            add('tf_minutes', [t], (lambda t=t: jh.timeframe_to_one_minutes(t)), 'timeframe_to_one_minutes')
            add('anchor_timeframe', [t], (lambda t=t: utils.anchor_timeframe(t)), 'anchor_timeframe')
        purecorr.cross_check(res, batch)

    # ------------------------------------------------------------------ oracle
    def oracle(self, res, boost):
        jesse_env.setup()
        import numpy as np
        import jesse.helpers as jh
        from jesse import utils
        r = self.rng
        n = self.budget(4000, 200000, boost)
        # (a) size_to_qty: cost, one step
        witnesses = [(w['capital'], w['price'], w['precision'], w['fee_rate']) for w in
                     (k['witness'] for k in core.load_known() if k['property'] == 'C17') if w.get('fn') == 'size_to_qty']
        # exact quotients at fee 0: the sized order costs EXACTLY the capital — the boundary of "never more than the capital" on
        # the account's side (a fresh account holding that capital must accept it)
        exact = [(10000.0, 50.0, 3, 0), (1000.0, 250.0, 3, 0), (512.0, 0.5, 2, 0), (100.0, 100.0, 0, 0), (7500.0, 2.5, 1, 0),
                 (64.0, 0.25, 0, 0)]
        for (cap, price, prec, fee) in witnesses + exact + self.sizing_inputs(n):
            inp = {'fn': 'size_to_qty', 'capital': cap, 'price': price, 'precision': prec, 'fee_rate': fee}
            try:
                q = utils.size_to_qty(cap, price, precision=prec, fee_rate=fee)
            except Exception as e:  # noqa
                res.fail(**{'class': 'size_to_qty/raises', 'input': inp, 'observed': repr(e)})
                continue
            res.seen(('s2q', cap, price, prec, fee), q > 0)
            res.count('size_to_qty')
            cost = q * price * (1 + fee)
            if cost > cap:
                rel = (cost - cap) / cap
                res.fail(**{'class': 'size_to_qty/float-overspend', 'input': inp, 'observed': {'qty': q, 'cost': cost},
                            'expected': 'qty*price*(1+fee) <= capital', 'params': {'fee_rate': fee},
                            'metrics': {'rel_excess': rel}})
            exact_q = (fr(cap) * (1 - fr(fee) * 3) if fee != 0 else fr(cap)) / fr(price)
            step = Fraction(1, 10**prec)
            if not (exact_q - step * (1 + Fraction(1, 10**6)) - abs(exact_q) * Fraction(1, 10**12) < fr(q) <= exact_q + abs(exact_q) * Fraction(1, 10**12)):
                res.fail(**{'class': 'size_to_qty/not-within-one-step', 'input': inp,
                            'observed': {'qty': q, 'exact_quotient': float(exact_q)},
                            'expected': 'quotient - 10^-p < qty <= quotient'})
            res.sample({'size_to_qty': inp, 'qty': q, 'cost': cost})
        # (b) risk_to_qty
        for (cap, price, prec, fee) in self.sizing_inputs(n // 2):
            entry = price
            stop = float(f'{entry * r.choice([0.5, 0.9, 0.99, 1.01, 1.1, 2]):.6g}')
            if stop == entry:
                continue
            risk = r.choice([0.5, 1, 2, 5, 10, 50, 100])
            inp = {'fn': 'risk_to_qty', 'capital': cap, 'risk': risk, 'entry': entry, 'stop': stop,
                   'precision': prec, 'fee_rate': fee}
            try:
                q = utils.risk_to_qty(cap, risk, entry, stop, precision=prec, fee_rate=fee)
            except Exception as e:  # noqa
                res.fail(**{'class': 'risk_to_qty/raises', 'input': inp, 'observed': repr(e)})
                continue
            res.seen(('r2q', cap, risk, entry, stop, prec, fee), q > 0)
            res.count('risk_to_qty')
            lost = fr(q) * abs(fr(entry) - fr(stop))
            allowed = fr(risk) / 100 * fr(cap)
            if lost > allowed * (1 + Fraction(1, 10**12)):
                res.fail(**{'class': 'risk_to_qty/over-risk', 'input': inp, 'observed': {'qty': q, 'risked': float(lost)},
                            'expected': f'<= {float(allowed)}', 'params': {'fee_rate': fee},
                            'metrics': {'rel_excess': float((lost - allowed) / allowed)}})
            if fr(q) * fr(entry) * (1 + fr(fee)) > fr(cap) * (1 + Fraction(1, 10**12)):
                res.fail(**{'class': 'risk_to_qty/overspend', 'input': inp, 'observed': {'qty': q}})
        # (c) decimal helpers: exact in decimal arithmetic
        for _ in range(n):
            da, db = r.choice([0, 1, 2, 3, 5, 8]), r.choice([0, 1, 2, 3, 5, 8])
            a = round(r.uniform(-1e5, 1e5), da)
            b = round(r.uniform(-1e5, 1e5), db) if r.random() < 0.8 else round(r.uniform(-1, 1), 8)
            s = utils.sum_floats(a, b)
            d = utils.subtract_floats(a, b)
            res.seen(('dec', a, b), True)
            res.count('sum/subtract_floats')
            if fr(s) != fr(a) + fr(b):
                res.fail(**{'class': 'sum_floats/inexact', 'input': {'a': a, 'b': b}, 'observed': s,
                            'expected': str(fr(a) + fr(b))})
            if fr(d) != fr(a) - fr(b):
                res.fail(**{'class': 'subtract_floats/inexact', 'input': {'a': a, 'b': b}, 'observed': d,
                            'expected': str(fr(a) - fr(b))})
        # (d) rounding for live mode never rounds up (except to the minimum unit)
        for _ in range(n // 2):
            prec = r.choice([0, 1, 2, 3, 4, 6, 8])
            x = round(r.uniform(0, r.choice([1e-6, 1e-3, 1, 1e3])), r.choice([3, 6, 9, 12]))
            inp = {'fn': 'round_qty_for_live_mode', 'qty': x, 'precision': prec}
            try:
                y = jh.round_qty_for_live_mode(x, prec)
            except Exception as e:  # noqa
                res.fail(**{'class': 'round_qty_for_live_mode/raises', 'input': inp, 'observed': repr(e)})
                continue
            res.seen(('rq', x, prec), True)
            res.count('round_qty_for_live_mode')
            unit = 1 / 10 ** prec
            if y > x and not (y == unit and math.floor(x * 10 ** prec) == 0):
                res.fail(**{'class': 'round_qty_for_live_mode/rounds-up', 'input': inp, 'observed': y})
            y2 = float(jh.round_decimals_down(x, prec))
            if y2 > x:
                res.fail(**{'class': 'round_decimals_down/rounds-up', 'input': inp, 'observed': y2})
            y3 = jh.floor_with_precision(x, prec)
            if y3 > x:
                res.fail(**{'class': 'floor_with_precision/rounds-up', 'input': inp, 'observed': y3})
        # (e) limit_stop_loss never widens
        for _ in range(n // 2):
            entry = float(f'{r.uniform(1e-3, 1e5):.6g}')
            stop = float(f'{entry * r.uniform(0.3, 1.7):.6g}')
            t = 'long' if stop <= entry else 'short'
            mr = r.choice([0.5, 1, 2, 5, 10, 30])
            y = utils.limit_stop_loss(entry, stop, t, mr)
            res.seen(('lsl', entry, stop, mr), True)
            res.count('limit_stop_loss')
            tol = 1e-12 * entry
            if abs(entry - y) > abs(entry - stop) + tol or (t == 'long' and y > entry) or (t == 'short' and y < entry):
                res.fail(**{'class': 'limit_stop_loss/widens', 'input': {'entry': entry, 'stop': stop, 'type': t, 'max': mr},
                            'observed': y})
        # (f) timeframe tables and max_timeframe
        from jesse.modes import backtest_mode
        for t, m in zip(TFS, MINUTES):
            res.count('tables')
            a = jh.timeframe_to_one_minutes(t)
            b = backtest_mode.timeframe_to_one_minutes.get(t)
            if not (a == b == m):
                res.fail(**{'class': 'timeframe-tables/disagree', 'input': {'timeframe': t},
                            'observed': {'utils': a, 'backtest_mode': b}, 'expected': m})
            try:
                an = utils.anchor_timeframe(t)
                am = MINUTES[TFS.index(an)]
                if not (am > m and am % m == 0):
                    res.fail(**{'class': 'anchor_timeframe/not-longer-multiple', 'input': {'timeframe': t}, 'observed': an})
            except KeyError:
                pass
        subsets = []
        if self.thorough or boost:
            subsets = (list(s) for k in range(1, 18) for s in itertools.combinations(TFS, k)) if self.thorough else None
        if subsets is None or not (self.thorough):
            subsets = [[t for t in TFS if r.random() < 0.3] or [r.choice(TFS)] for _ in range(3000)]
            subsets += [list(s) for s in itertools.combinations(TFS, 2)] + [[t] for t in TFS]
        for sub in subsets:
            got = jh.max_timeframe(list(sub))
            want = max(sub, key=lambda t: MINUTES[TFS.index(t)])
            res.seen(('mt', tuple(sub)), True)
            res.count('max_timeframe')
            if got != want:
                res.fail(**{'class': 'max_timeframe/not-longest', 'input': {'timeframes': list(sub)},
                            'observed': got, 'expected': want})
        # (g) acceptance of the sized order by a fresh real account
        self.acceptance(res, self.budget(150, 3000, boost))

    def acceptance(self, res, n):
        from jesse import utils
        import acct
        witnesses = [(w['capital'], w['price'], w['precision'], w['fee_rate']) for w in
                     (k['witness'] for k in core.load_known() if k['property'] == 'C17') if w.get('fn') == 'size_to_qty+submit']
        # exact quotients at fee 0: the sized order costs EXACTLY the capital — the boundary of "never more than the capital" on
        # the account's side (a fresh account holding that capital must accept it)
        exact = [(10000.0, 50.0, 3, 0), (1000.0, 250.0, 3, 0), (512.0, 0.5, 2, 0), (100.0, 100.0, 0, 0), (7500.0, 2.5, 1, 0),
                 (64.0, 0.25, 0, 0)]
        for (cap, price, prec, fee) in witnesses + exact + self.sizing_inputs(n):
            q = utils.size_to_qty(cap, price, precision=prec, fee_rate=fee)
            if q <= 0:
                continue
            for kind in ('spot', 'futures'):
                lev = 1 if kind == 'spot' else self.rng.choice([1, 2, 10, 125])
                inp = {'fn': 'size_to_qty+submit', 'exchange': kind, 'capital': cap, 'price': price, 'precision': prec,
                       'fee_rate': fee, 'leverage': lev, 'qty': q}
                verdict = acct.fresh_account_accepts(kind, cap, fee, lev, q, price)
                res.seen(('acc', kind, cap, price, prec, fee), True)
                res.count('accept:' + kind)
                if verdict is not True:
                    cost = q * price
                    res.fail(**{'class': f'size_to_qty/rejected-by-fresh-{kind}-account', 'input': inp, 'observed': verdict,
                                'expected': 'accepted', 'params': {'fee_rate': fee},
                                'metrics': {'rel_excess': (cost - cap) / cap, 'float_overspend': 1 if cost > cap else 0}})

    def replay(self, doc):
        print(doc['failure'])
        return 1


CHECK = C17
