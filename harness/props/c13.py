"""C13 — indicator series are causal: value i depends only on candles 0..i."""
import core
import indlib
import indmodel
import jesse_env

# the one documented exemption: the extrema detector needs `order` confirming candles
EXEMPT_TAIL = {'minmax': lambda kw: kw.get('order', 3)}

TIE_KINDS = ('flat', 'alt', 'lattice')

PREFIXES_QUICK = [1, 2, 3, 5, 8, 13, 21, 34, 55, 89, 144, 233, 299]


class C13(core.Check):
    pid = 'C13'
    rule = ('correspondence: every Lean kernel (exact rationals) against the real indicator (floats) on seeded candle series '
            '(random walks, trends, flats, spikes, alternating, integer lattice with ties; lengths 1..300; default and '
            'non-default periods; all eight source types), relative tolerance 1e-7, NaN <-> none; oracle: for EVERY public '
            'indicator with a sequential mode, modelled or not: ind(c[:k], sequential=True) against ind(c, sequential=True)[:k] '
            'for 13+ prefix lengths k, every field, default parameters and non-default ones found from the signature, NaN-aware, '
            'relative tolerance 1e-9 (minmax exempt in its last `order` rows); each indicator runs in its own forked process; '
            'non-trivial = the prefix call returned at least one non-NaN row; distinct = distinct (indicator, parameters, series, k)')
    assumptions = ['kernels are modelled for NaN-free candle input; the isnan branch of rma_fast is unreachable there and not modelled',
                   'unmodelled indicators are covered by the oracle only (search, no theorem); they are listed in coverage.oracle.notes']

    def correspondence(self, res, boost):
        jesse_env.setup()
        indmodel.correspondence(self, res, boost, quick=520, thorough=5000)

    # ------------------------------------------------------------------ the property on one indicator
    @staticmethod
    def eval_case(f, name, kw, c, ks, ties=False):
        """returns (counts, first_failure_per_field) for one (indicator, params, series)"""
        counts = {}
        fails = {}

        def cnt(k):
            counts[k] = counts.get(k, 0) + 1
        st, full = indlib.call(f, c, True, kw)
        if st != 'ok':
            cnt('full-raised')
            return counts, fails, full
        ff = [(n, indlib.as_series(v)) for n, v in indlib.fields(full)]
        tail = EXEMPT_TAIL.get(name, lambda kw: 0)(kw)
        for k in ks:
            if k >= len(c):
                continue
            st, part = indlib.call(f, c[:k], True, kw)
            if st != 'ok':
                cnt('prefix-raised')       # shorter than the indicator's look-back: no result to compare
                continue
            pf = [(n, indlib.as_series(v)) for n, v in indlib.fields(part)]
            if len(pf) != len(ff):
                cnt('prefix-shape')
                continue
            nontrivial = False
            for (fn, s_full), (_, s_part) in zip(ff, pf):
                if s_full is None or s_part is None:
                    cnt('not-a-series')    # C14's business (length / type of the sequential result)
                    continue
                if ties and any(isinstance(x, str) for x in s_full):
                    # a categorical field (hull_suit.signal = buy/sell) is a comparison of floats: on series with exact
                    # ties (flat, alternating, lattice) rounding decides it, which is noise, not look-ahead
                    cnt('categorical-on-ties-skipped')
                    continue
                m = min(len(s_part), k, len(s_full)) - tail
                if m <= 0:
                    continue
                if any(x is not None and x == x for x in s_part[:m]):
                    nontrivial = True
                scale = 1.0
                i = indlib.first_diff(s_part[:m], s_full[:m], rel=1e-9, scale=scale)
                shaken = None
                while i is not None:
                    # a row decided by float rounding (0/0-like: a deviation of a flat window divided by its spread) differs
                    # between two calls for reasons that have nothing to do with the data after the cut (NumPy's reductions
                    # round differently at different array lengths / alignments).  Such a row shows itself when every
                    # row's prices are moved by a relative 1e-13: if THAT moves the value by more than 1e-6, the row is
                    # noise and is skipped (counted); the scan goes on behind it.
                    if shaken is None:
                        import numpy as np
                        c2 = np.array(c[:k], dtype=float, copy=True)
                        c2[:, 1:5] *= (1 + 1e-13 * np.random.RandomState(k).choice([-1.0, 1.0], size=(len(c2), 1)))
                        st2, part2 = indlib.call(f, c2, True, kw)
                        shaken = dict((n, indlib.as_series(v)) for n, v in indlib.fields(part2)) if st2 == 'ok' else {}
                    s2 = shaken.get(fn)
                    if s2 is not None and i < len(s2) and not isinstance(s_part[i], str) \
                            and not indlib.same(s_part[i], s2[i], 1e-6, scale):
                        cnt('noise-dominated-row-skipped')
                        j = indlib.first_diff(s_part[i + 1:m], s_full[i + 1:m], rel=1e-9, scale=scale)
                        i = None if j is None else i + 1 + j
                        continue
                    break
                if i is not None and fn not in fails:
                    a, b = s_part[i], s_full[i]
                    fails[fn] = {'k': k, 'row': i, 'prefix_value': a, 'full_value': b}
            cnt('compared' if nontrivial else 'compared-all-nan')
        return counts, fails, None

    def oracle(self, res, boost):
        jesse_env.setup()
        inds = indlib.indicators()
        r = self.rng
        n = 300
        kinds = ['walk', 'gappy', 'stall', 'session'] if not (self.thorough or boost) else ['walk', 'spike', 'stall', 'gappy', 'session', 'trend', 'flat', 'lattice', 'alt', 'down']
        series = {k: indlib.candles(r, n, k) for k in kinds}
        ks = list(PREFIXES_QUICK)
        if self.thorough or boost:
            ks = sorted(set(ks + [r.randint(1, n - 1) for _ in range(40)]))
        plan = {}
        skipped = []
        for name, f in inds.items():
            d = indlib.describe(f)
            if not d['sequential']:
                skipped.append(f'{name}: no sequential mode (outside the property)')
                continue
            if d['required']:
                skipped.append(f'{name}: needs extra arguments {d["required"]} (not synthesised)')
                continue
            plan[name] = indlib.variants(name, f, r, n_extra=2 if not (self.thorough or boost) else 6)
        # witnesses of the known findings are replayed first
        known = [k for k in core.load_known() if k['property'] == 'C13' and k.get('witness', {}).get('candles')]

        SHORT = 55          # prefixes below this may be shorter than a look-back: numba kernels without bounds
        #                     checks can then corrupt the heap, so each such k gets a process of its own

        def run_cases(name, cases):
            f = inds[name]
            out = {'counts': {}, 'fails': [], 'evals': 0, 'traces': [], 'dropped': []}
            for (kw, kind, c, k3) in cases:
                counts, fails, err = C13.eval_case(f, name, kw, c, k3, ties=kind in TIE_KINDS)
                for k2, v in counts.items():
                    out['counts'][k2] = out['counts'].get(k2, 0) + v
                if err is not None:
                    out['dropped'].append(f'{kw}: {err}')
                    continue
                out['evals'] += counts.get('compared', 0) + counts.get('compared-all-nan', 0)
                out['traces'].append((name, tuple(sorted(kw.items())), kind, tuple(k3), counts.get('compared', 0)))
                if fails:
                    out['fails'].append({'kw': kw, 'kind': kind, 'fields': fails,
                                         'candles': indlib.jsonable_candles(c)})
            return out

        def work(name):
            """long prefixes in this process; every short prefix length in a process of its own, forked from here
            (so that the compiled kernels are inherited)"""
            cases = []
            for kn in known:
                w = kn['witness']
                if w.get('indicator') == name:
                    cases.append((w.get('params', {}), 'witness', indlib.candles_from_json(w['candles']), [w['k']]))
            long_ks = [k for k in ks if k >= SHORT]
            for kw in plan[name]:
                for kind in kinds:
                    cases.append((kw, kind, series[kind], long_ks))
            outs = {'long': ('ok', run_cases(name, cases))}

            def sub(k):
                cs = []
                for vi, kw in enumerate(plan[name]):
                    for ki, kind in enumerate(kinds):
                        if k in ks or (vi == 0 and ki == 0):     # every k < SHORT for the default call on one series
                            cs.append((kw, kind, series[kind], [k]))
                return run_cases(name, cs)
            outs.update(indlib.run_isolated(list(range(1, SHORT)), sub, workers=2, timeout=120))
            return outs

        results = indlib.run_isolated(list(plan), work, workers=14, timeout=1800 if self.thorough else 400)
        modelled = set(indmodel.MODELS)
        crashed = {}
        for name in plan:
            fails_all = []
            evals = 0
            st0, outs = results[name]
            if st0 != 'ok':
                res.notes.append(f'{name}: evaluation {st0} ({str(outs)[:160]})')
                res.count('isolated:' + st0)
                continue
            for key, (st, out) in outs.items():
                if st != 'ok':
                    crashed.setdefault(name, []).append(f'k={key}: {st}')
                    res.count('isolated:' + st)
                    continue
                for k2, v in out['counts'].items():
                    res.count(k2, v)
                for (nm, kw, kind, k3, cmp_) in out['traces']:
                    for j in range(max(cmp_, 1)):
                        res.seen((nm, kw, kind, k3, j), cmp_ > 0)
                if out['dropped']:
                    res.count('variant-dropped', len(out['dropped']))
                fails_all += out['fails']
                evals += out['evals']
            # failures at a degenerate window of 1 are reported apart (params.window = '1'), so that a known finding about
            # them does not cover the indicator at ordinary windows
            groups = [([fl for fl in fails_all if not indlib.window1(fl['kw'])], None),
                      ([fl for fl in fails_all if indlib.window1(fl['kw'])], '1')]
            for fails_all, win in groups:
                if not fails_all:
                    continue
                # one failure per indicator: the set of fields that are not prefix-stable pins the mechanism
                flds = sorted({fn for fl in fails_all for fn in fl['fields']})
                first = fails_all[0]
                fn0 = sorted(first['fields'])[0]
                d0 = first['fields'][fn0]
                k0 = d0['k']
                res.fail(**{'class': f'causality/{name}',
                            'input': {'indicator': name, 'params': first['kw'], 'kind': first['kind'], 'k': k0,
                                      'field': fn0, 'candles': first['candles']},
                            'observed': {'prefix_value': d0['prefix_value'], 'row': d0['row']},
                            'expected': {'full_value': d0['full_value']},
                            'params': dict({'indicator': name, 'fields': ','.join(flds)}, **({'window': win} if win else {})),
                            'metrics': {'first_row': min(d['row'] for fl in fails_all for d in fl['fields'].values()),
                                        'cases_failing': len(fails_all)},
                            'how': f'{name}(c[:k], sequential=True)[row] != {name}(c, sequential=True)[row]'})
            if not any(g for g, _ in groups) and len(res.samples) < 3 and evals:
                res.sample({'indicator': name, 'variants': [str(v) for v in plan[name]][:3], 'prefix_comparisons': evals})
        for name, l in sorted(crashed.items()):
            res.notes.append(f'{name}: the interpreter died on a prefix shorter than the look-back (no result to compare): ' + '; '.join(l)[:300])
        unmodelled = sorted(n for n in plan if n not in modelled)
        res.notes.append(f'{len(plan)} indicators evaluated, {len(skipped)} outside/skipped: ' + '; '.join(skipped))
        res.notes.append('search only (no theorem): ' + ', '.join(unmodelled))
        res.notes.append('modelled (theorem or witness + correspondence): ' + ', '.join(sorted(n for n in plan if n in modelled)))

    def replay(self, doc):
        jesse_env.setup()
        f = doc['failure']
        i = f.get('input')
        if not i or 'candles' not in i:
            print('nothing to replay:', doc.get('no_longer_checks'))
            return 1
        inds = indlib.indicators()
        c = indlib.candles_from_json(i['candles'])
        counts, fails, err = C13.eval_case(inds[i['indicator']], i['indicator'], i.get('params', {}), c, [i['k']])
        print('indicator:', i['indicator'], 'params:', i.get('params'), 'k:', i['k'], 'counts:', counts)
        print('not prefix-stable:' if fails else 'prefix-stable on this input', fails or '')
        return 1 if fails else 0


CHECK = C13
