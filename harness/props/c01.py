"""C01 — backtest decisions never depend on future candles (no look-ahead)."""
import random
from math import gcd

import core
import engcorr
import engoracles
import jesse_env

M = 60_000


def lcm_all(xs):
    out = 1
    for x in xs:
        out = out * x // gcd(out, x)
    return out


class C01(core.Check):
    pid = 'C01'
    unproved = [
        'warm-up: step_prefix / fast_prefix hold from EVERY engine state, so also from the one the injection leaves (the warm-up rows are shared by both runs); the injection itself is modelled and proved at store level (C07.inject_warmup_establishes_inv); that the engine model started with warm-up is the real session with warm-up is decided by the paired-run oracle with injected warm-up candles',
    ]
    gen_keys = ['jesse/services/candle.py:split_candle', 'jesse/services/candle.py:generate_candle_from_one_minutes',
                'jesse/modes/backtest_mode.py:_get_fixed_jumped_candle', 'jesse/services/candle.py:candle_includes_price']
    rule = ('correspondence: whole sessions (1-2 symbols, trading timeframe 1m..15m, extra data-route timeframes, spot and '
            'futures, both simulators, scripted strategies using every hook) run on the real engine and on the Lean engine '
            'model; the complete event traces (hook calls with index/price/position, submissions, fills, cancels, equity '
            'samples, final state) must be identical; oracle: pairs of REAL runs sharing the candles before a cut point t and '
            'continuing with different random tails (also of different length): every event recorded before t must be '
            'identical, cut at random minutes (normal simulator) and at trading-candle boundaries (fast simulator); '
            'non-trivial = at least one fill before the cut; distinct = distinct (session, cut)')
    assumptions = ['hook observations carry the strategy index, its price and position size; candle reads are covered by C07']

    def primer(self, res):
        """sessions of one process come in every order: the first one of this check is a fast-simulator session on a 15m
        route, so that anything a simulator keeps from an earlier session (chunk size, clocks, stores) is a LARGE one"""
        if getattr(self, '_primed', False):
            return
        self._primed = True
        prng = random.Random(self.seed + 17)
        primer = engcorr.gen_session(prng, max_n=60, allow_two=False, fast=True, tfs=('15m',), data=False, lengths=[60])
        try:
            engoracles.c01_compare(primer, engcorr.candles_of(primer), 30, prng)
            res.count('primer-session')
        except Exception:  # noqa
            res.count('primer-session-error')

    def correspondence(self, res, boost):
        jesse_env.setup()
        self.primer(res)
        rng = random.Random(self.seed * 7919 + 1)
        sessions = [engcorr.gen_session(rng, watch=rng.random() < 0.15) for _ in range(self.budget(80, 500, boost))]
        engcorr.compare_sessions(res, sessions)

    def oracle(self, res, boost):
        jesse_env.setup()
        self.primer(res)
        rng = random.Random(self.seed * 104729 + 5)
        for _ in range(self.budget(100, 800, boost)):
            if rng.random() < 0.25:
                # isolated margin at leverage 50..125 on wide minutes: forced closes (and the hooks they fire) are events too,
                # and in the fast simulator they happen at the END of a chunk — their clock must say so
                sess = engcorr.gen_session(rng, max_n=120, vol=rng.choice([8, 16]), kinds=('futures',), isolated=True,
                                           leverage=rng.choice([50, 100, 125]), force={'kind': 'market'})
                res.count('pairs-with-isolated-high-leverage')
            elif rng.random() < 0.5:
                # the normal simulator with every route above 1m, gapped minutes and orders resting close to the price: a
                # fill in the middle of a trading candle must not depend on how that trading candle goes on (the cut
                # falls inside a trading candle; one tail comes back to the gap, the shifted one does not)
                sess = engcorr.gen_session(rng, max_n=120, tight=True, vol=rng.choice([1, 1, 2]), fast=False,
                                           tfs=('3m', '5m', '15m'), data=rng.random() < 0.3, allow_two=False,
                                           gap_prob=0.5)
                sess['gapped_family'] = True
                res.count('pairs-step-no-1m-route-gapped')
            else:
                sess = engcorr.gen_session(rng, max_n=120, tight=rng.random() < 0.4, vol=rng.choice([4, 8]), watch=rng.random() < 0.25)
            if rng.random() < 0.35:
                sess['warmup'] = 720        # half a day of injected warm-up candles (a multiple of every timeframe used)
                res.count('pairs-with-warm-up')
            cands = engcorr.candles_of(sess)
            n = sess['n']
            tfs = [engcorr.TFM[tf] for (_, tf) in sess['routes'] + sess['droutes']]
            unit = lcm_all(tfs) if sess['fast'] else 1
            if unit >= n:
                continue
            cut = rng.randrange(1, max(2, n // unit)) * unit
            cut = min(max(cut, unit), n - 1)
            sess.pop('tail_back', None)
            if sess.get('gapped_family'):
                # cut right after a minute that opened with a gap, inside a trading candle; the other tail crosses the gap back
                arr0 = cands[sess['syms'][0]]
                w0 = sess.get('warmup', 0)
                gaps = [i for i in range(2, n - 1) if (i + 1) % min(tfs) != 0
                        and abs(float(arr0[w0 + i][1]) - float(arr0[w0 + i - 1][2])) >= 0.25]
                # prefer a gap that holds a resting order: one scouting run tells which orders are active when
                _, tr0, err0 = engcorr.run_real(sess, cands)
                t00 = int(arr0[0][0])
                held = []
                for i in gaps:
                    ti = t00 + (w0 + i) * M
                    pc, op = float(arr0[w0 + i - 1][2]), float(arr0[w0 + i][1])
                    for o in engoracles.order_table(tr0).values():
                        lo_i, hi_i = float(arr0[w0 + i][4]), float(arr0[w0 + i][3])
                        if o['type'] != 'MARKET' and min(pc, op) < float(o['price']) < max(pc, op) and o['submitted'] <= ti \
                                and not lo_i <= float(o['price']) <= hi_i \
                                and (o['filled'] is None or o['filled'] >= ti) and (o['cancelled'] is None or o['cancelled'] >= ti):
                            held.append(i)
                            break
                if held:
                    gaps = held
                    res.count('pairs-cut-after-gap-holding-an-order')
                if gaps:
                    cut = rng.choice(gaps) + 1
                    sess['tail_back'] = True
                    res.count('pairs-cut-after-gap')
            ev1, ev2, tr1, tr2 = engoracles.c01_compare(sess, cands, cut, rng)
            t_cut = int(cands[sess['syms'][0]][0][0]) + (cut + sess.get('warmup', 0)) * M
            a = engoracles.events_before(tr1, ev1, t_cut)
            b = engoracles.events_before(tr2, ev2, t_cut)
            fills = sum(1 for x in a if x.startswith('FILL'))
            res.seen((sess['candle_seed'], cut, sess['fast']), fills > 0)
            res.count('pairs:' + ('fast' if sess['fast'] else 'step'))
            res.count('prefix-events', len(a))
            if getattr(tr1, 'future_candles', None):
                res.fail(**{'class': 'look-ahead/future-candle-in-store/' + ('fast' if sess['fast'] else 'step'),
                            'input': {'session': {kk: sess[kk] for kk in ('kind', 'fee', 'leverage', 'isolated', 'fast', 'routes',
                                                                         'droutes', 'n', 'scripts', 'candle_seed')}},
                            'observed': tr1.future_candles[0], 'expected': 'every stored candle starts before the current time',
                            'params': {'simulator': 'fast' if sess['fast'] else 'step'}})
            if a != b:
                k = next((i for i, (x, y) in enumerate(zip(a, b)) if x != y), min(len(a), len(b)))
                res.fail(**{'class': 'look-ahead/' + ('fast' if sess['fast'] else 'step'),
                            'input': {'session': {kk: sess[kk] for kk in ('kind', 'fee', 'leverage', 'isolated', 'fast', 'routes',
                                                                         'droutes', 'n', 'scripts', 'candle_seed')}, 'cut': cut,
                                      'warmup_rows': sess.get('warmup', 0)},
                            'observed': {'event_index': k, 'run_a': a[k] if k < len(a) else '<end>', 'run_b': b[k] if k < len(b) else '<end>',
                                         'context': a[max(0, k - 3):k]},
                            'expected': 'identical prefixes', 'params': {'simulator': 'fast' if sess['fast'] else 'step'}})
            elif len(res.samples) < 3:
                res.sample({'routes': sess['routes'], 'fast': sess['fast'], 'n': n, 'cut': cut, 'prefix_events': len(a), 'fills_before_cut': fills})

    def replay(self, doc):
        print(doc['failure'])
        return 1


CHECK = C01
