"""C08 — fills inside one minute follow a single continuous price path (pure part: split_candle)."""
import itertools

import random

import core
import engcorr
import engoracles
import jesse_env
import purecorr
from core import wire


class C08(core.Check):
    pid = 'C08'
    unproved = [
        'order of several fills inside one minute on real sessions: engine correspondence + path oracle (the static half is C02.sorted_head_first_on_path)',
    ]
    gen_keys = ['jesse/services/candle.py:split_candle', 'jesse/services/candle.py:is_bullish',
                'jesse/services/candle.py:is_bearish', 'jesse/services/candle.py:candle_includes_price']
    rule = ('matching loop: whole sessions of the normal simulator with volatile candles and tight exits (several orders '
            'reachable inside one minute, reaction orders placed by hooks) on the real engine and on the Lean engine model, '
            'identical fill sequences required; path oracle on the real traces: the fills of one minute lie in order on one '
            'continuous O-L-H-C / O-H-L-C path; translator cross-check: real split_candle/is_bullish/is_bearish/candle_includes_price vs the generated Lean '
            'definitions on every valid candle of a 7-point lattice x every lattice price, plus seeded random decimal candles; '
            'oracle: the C08 clauses and equality with Spec.pathSplit (computed by the Lean driver) on the real function; '
            'a case is non-trivial when the price lies inside the range; distinct = distinct (candle, price, reply)')
    assumptions = []

    def lattice_cases(self, pts):
        for o, h, l, c in itertools.product(pts, repeat=4):
            if l <= o <= h and l <= c <= h:
                for p in pts:
                    yield (o, h, l, c, p)

    def random_cases(self, n):
        r = self.rng
        for _ in range(n):
            l = round(r.uniform(1, 1000), r.choice([0, 1, 2, 4]))
            h = round(l + r.choice([0, 0, r.uniform(0, 50)]), 4)
            o = round(r.uniform(l, h), 4)
            c = round(r.uniform(l, h), 4)
            o = min(max(o, l), h)
            c = min(max(c, l), h)
            p = r.choice([o, h, l, c, round(r.uniform(l - 1, h + 1), 4), round(r.uniform(l, h), 4)])
            yield (o, h, l, c, p)

    def all_cases(self, boost):
        pts = [1, 2, 3, 4, 5, 6, 7] if (self.thorough or boost) else [1, 2, 3, 4, 5]
        cases = list(self.lattice_cases(pts))
        cases += list(self.random_cases(self.budget(400, 20000, boost)))
        return cases

    def correspondence(self, res, boost):
        jesse_env.setup()
        import numpy as np
        from jesse.services import candle as cs
        batch = []
        for (o, h, l, c, p) in self.all_cases(boost):
            k = np.array([60000.0, o, c, h, l, 7.0])
            kw = [wire(x) for x in (60000, o, c, h, l, 7)]
            batch.append(('split_candle', kw + [wire(p)], (lambda k=k, p=p: cs.split_candle(k.copy(), p)), 'split_candle'))
            batch.append(('candle_includes_price', kw + [wire(p)], (lambda k=k, p=p: cs.candle_includes_price(k, p)), 'candle_includes_price'))
        for (o, h, l, c, p) in list(self.lattice_cases([1, 2, 3]))[::3]:
            k = np.array([0.0, o, c, h, l, 1.0])
            kw = [wire(x) for x in (0, o, c, h, l, 1)]
            batch.append(('is_bullish', kw, (lambda k=k: cs.is_bullish(k)), 'is_bullish'))
            batch.append(('is_bearish', kw, (lambda k=k: cs.is_bearish(k)), 'is_bearish'))
        purecorr.cross_check(res, batch)
        # the matching loop: whole sessions of the normal simulator on the real engine and on the Lean engine model
        rng = random.Random(self.seed * 7919 + 8)
        sessions = [engcorr.gen_session(rng, fast=False, max_n=60, tight=True, vol=rng.choice([10, 16, 24]),
                                        gap_prob=rng.choice([0.1, 0.4]), lengths=[15, 20, 30], data=False, allow_two=False)
                    for _ in range(self.budget(120, 1000, boost))]
        engcorr.compare_sessions(res, sessions + engcorr.micro_sessions(rng, self.budget(80, 800, boost)))

    def path_oracle(self, res, boost):
        rng = random.Random(self.seed * 104729 + 8)
        sessions = [engcorr.gen_session(rng, fast=False, max_n=60, tight=True, vol=rng.choice([10, 16, 24]),
                                        gap_prob=rng.choice([0.1, 0.4]), lengths=[15, 20, 30], data=rng.random() < 0.3)
                    for _ in range(self.budget(200, 1500, boost))]
        for sess in sessions + engcorr.micro_sessions(rng, self.budget(250, 3000, boost)):
            cands = engcorr.candles_of(sess)
            ev, tr, err = engcorr.run_real(sess, cands)
            bad = engoracles.c08_violations(sess, cands, tr)
            multi = {}
            for e in tr.events:
                if e[0] == 'FILL':
                    multi[e[2]] = multi.get(e[2], 0) + 1
            res.seen(('path', sess['candle_seed']), any(v > 1 for v in multi.values()))
            res.count('path-sessions')
            res.count('minutes-with-several-fills', sum(1 for v in multi.values() if v > 1))
            for (what, k, info) in bad[:2]:
                res.fail(**{'class': 'matching/' + what, 'input': {'session': {kk: sess[kk] for kk in (
                    'kind', 'fee', 'leverage', 'isolated', 'fast', 'routes', 'droutes', 'n', 'scripts', 'candle_seed', 'vol', 'gap_prob', 'rows')
                    if kk in sess}},
                    'observed': {'order': k, 'info': info}})

    def oracle(self, res, boost):
        self.path_oracle(res, boost)
        self.split_oracle(res, boost)

    def split_oracle(self, res, boost):
        jesse_env.setup()
        import numpy as np
        from jesse.services import candle as cs
        cases = [x for x in self.all_cases(boost) if x[2] <= x[4] <= x[1]]
        spec = None
        if getattr(self, 'driver_ok', True):
            lines = ['call path_split ' + ' '.join(wire(x) for x in (60000, o, c, h, l, 7, p)) for (o, h, l, c, p) in cases]
            try:
                spec = core.Driver.run(lines)
            except core.Infra:
                spec = None
        for i, (o, h, l, c, p) in enumerate(cases):
            k = np.array([60000.0, o, c, h, l, 7.0])
            inp = {'candle': [60000, o, c, h, l, 7], 'price': p}
            try:
                r = cs.split_candle(k.copy(), p)
            except Exception as e:  # noqa
                res.fail(**{'class': 'split_candle/raises', 'input': inp, 'observed': repr(e), 'expected': 'two candles'})
                continue
            res.seen((o, h, l, c, p), True)
            res.count('p==open' if p == o else ('rising' if c >= o else 'falling'))
            if r is None:
                res.fail(**{'class': 'split_candle/none-inside-range', 'input': inp, 'observed': None, 'expected': 'two candles'})
                continue
            a, b = r
            probs = []
            for nm, x in (('first', a), ('second', b)):
                if not (x[4] <= x[1] <= x[3] and x[4] <= x[2] <= x[3]):
                    probs.append(f'{nm} part is not a valid candle: {list(x)}')
            if a[1] != o:
                probs.append('first.open != open')
            if b[2] != c:
                probs.append('second.close != close')
            if max(a[3], b[3]) != h:
                probs.append('max of highs != high')
            if min(a[4], b[4]) != l:
                probs.append('min of lows != low')
            if p != o and not (a[2] == p and b[1] == p):
                probs.append('parts do not meet at the split price')
            if spec is not None and p != o:
                got = purecorr.canon_value(r)
                if not purecorr.tokens_agree(got, spec[i]):
                    probs.append(f'differs from the cut of the continuous path: spec {spec[i]}')
            if probs:
                res.fail(**{'class': 'split_candle/' + probs[0].split(':')[0], 'input': inp,
                            'observed': [list(map(float, a)), list(map(float, b))], 'expected': probs})
            res.sample({'candle[o,c,h,l]': [o, c, h, l], 'price': p, 'first': list(map(float, a[1:5])), 'second': list(map(float, b[1:5]))})

    def replay(self, doc):
        jesse_env.setup()
        import numpy as np
        from jesse.services import candle as cs
        f = doc['failure']
        if not f.get('input'):
            print('nothing to replay: ', f.get('no_longer_checks'))
            return 1
        k = np.array([float(x) for x in f['input']['candle']])
        print('split_candle', list(k), f['input']['price'], '->', cs.split_candle(k, f['input']['price']))
        print('expected:', f.get('expected'))
        return 1


CHECK = C08
