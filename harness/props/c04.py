"""C04 — spot balances equal a cash-account model; no overspending or overselling."""
from fractions import Fraction

import acctcorr
import core
import jesse_env
from core import fr


class Cash:
    """the reference of the property, in exact arithmetic"""

    def __init__(self, quote, fee):
        self.free = fr(quote)
        self.base = Fraction(0)
        self.fee = fr(fee)
        self.resting = {}      # ordinal -> (side, type, qty, price)

    def reserved(self):
        return sum(q * p for (s, t, q, p) in self.resting.values() if s == 'buy')

    def resting_sells(self, typ):
        return sum(q for (s, t, q, p) in self.resting.values() if s == 'sell' and t == typ)

    def would_reject(self, side, typ, qty, price):
        q, p = fr(qty), fr(price)
        if side == 'buy':
            return q * p > self.free
        if typ == 'MARKET':
            return q + self.resting_sells('LIMIT') > self.base
        return q + self.resting_sells(typ) > self.base

    def submit(self, k, side, typ, qty, price):
        q, p = fr(qty), fr(price)
        if side == 'buy':
            self.free -= q * p
        self.resting[k] = (side, typ, q, p)

    def cancel(self, k):
        if k in self.resting:
            s, t, q, p = self.resting.pop(k)
            if s == 'buy':
                self.free += q * p

    def execute(self, k):
        if k in self.resting:
            s, t, q, p = self.resting.pop(k)
            if s == 'buy':
                self.base += q * (1 - self.fee)
            else:
                q = min(q, self.base)
                self.base -= q
                self.free += q * p * (1 - self.fee)


class C04(core.Check):
    pid = 'C04'
    rule = ('correspondence: seeded operation sequences (price moves, buy/sell MARKET/LIMIT/STOP submissions mostly affordable '
            'plus deliberately oversize ones, executions and cancellations in any order, repeated calls on final orders) on '
            'the real SpotExchange/Order/Position objects and on the Lean accounts model, full state compared after every '
            'step; oracle: the real objects against an exact-arithmetic cash account after every operation (balances, '
            'position = base, non-negativity, no short, rejection exactly when the property says, cancel releases exactly); '
            'quantities include decimals that are not binary fractions; non-trivial = at least one fill and one cancellation; '
            'distinct = distinct operation sequences')

    def gen(self, n, lattice=True):
        """yield ops given a view of the reference account; ops are tuples"""
        r = self.rng
        return [r.random() for _ in range(n)]

    def run_sequence(self, res, seqlen, lattice, oracle):
        r = self.rng
        fee = r.choice([0, 0, fr('1/1024'), fr('1/512')]) if lattice else r.choice([0, 0.001, 0.00075])
        bal = r.choice([1000, 10_000, 250])
        w = acctcorr.RealWorld('spot', float(bal), float(fee), 1, 1)
        ref = Cash(bal, fee)
        price = 100.0
        w.price(0, price)
        nfill = ncancel = 0
        verdict = None
        last_exec = None

        def qty():
            if lattice:
                return r.choice([0.25, 0.5, 1.0, 1.5, 2.0, 3.0])
            return r.choice([0.1, 0.3, 0.7, 1.1, 0.123, 2.345, 0.05, 0.12345678, 0.00321987])     # also 8-decimal sizes
        for _ in range(seqlen):
            active = [k for k, o in enumerate(w.s.orders) if o.status == 'ACTIVE']
            final = [k for k, o in enumerate(w.s.orders) if o.status != 'ACTIVE']
            x = r.random()
            if x < 0.15:
                price = max(1.0, price + r.choice([-2, -1, -0.5, 0.5, 1, 2]))
                w.price(0, price)
                continue
            if x < 0.55 and float(w.e.assets['BTC']) > 0 and r.random() < 0.25:
                # the standard exit pair: a take-profit LIMIT and a stop-loss STOP, each for the whole base
                b = float(w.e.assets['BTC'])
                stop_now = False
                # … or a PARTIAL take-profit with a full-size stop: when both fill, the stop is clamped to what is left
                frac = r.choice([1, 1, 0.5, 0.25])
                for typ, p, qq in (('LIMIT', price + 3, b * frac), ('STOP', price - 3, b)):
                    if ref.would_reject('sell', typ, qq, p):
                        continue
                    ok = w.submit(0, 'sell', typ, qq, p, True)
                    if not ok:
                        if oracle:
                            # the cash account accepts it (it plus the resting sells of its kind does not exceed the base held)
                            verdict = ('rejection', w.lines[-1], 'rejected', 'accepted')
                        stop_now = True
                        break
                    ref.submit(len(w.s.orders) - 1, 'sell', typ, qq, p)
                if stop_now:
                    break
                continue
            if x < 0.55 or not active:
                side = r.choice(['buy', 'buy', 'sell', 'sell', 'sell'])
                typ = r.choice(['MARKET', 'LIMIT', 'STOP'])
                p = price if typ == 'MARKET' else price + r.choice([-3, -1, 1, 3])
                q = qty()
                if side == 'sell' and ref.base > 0 and r.random() < 0.6:
                    # "sell everything" uses the balance the account reports (what a strategy would read)
                    u_ = r.random()
                    if u_ < 0.3:
                        q = float(w.e.assets['BTC'])
                    elif u_ < 0.5 and not lattice:
                        # "sell everything" rounded DOWN to the exchange's 8 decimals: leaves dust below 1e-8, which is
                        # still a position (and still base held)
                        import math
                        q = math.floor(float(w.e.assets['BTC']) * 1e8) / 1e8
                    else:
                        q = min(q, float(w.e.assets['BTC']))
                if r.random() < 0.08:
                    q = q * 50      # deliberately unaffordable
                if q <= 0:
                    continue
                expect_reject = ref.would_reject(side, typ, q, p)
                # float products (qty * (1 - fee), qty * price) are not exact on decimal inputs: a rejection decision
                # within 1e-9 (relative) of the boundary is not comparable with the exact reference
                if side == 'buy':
                    slack = fr(q) * fr(p) - ref.free
                    scale = max(1, abs(ref.free))
                else:
                    slack = fr(q) + (ref.resting_sells('LIMIT') if typ == 'MARKET' else ref.resting_sells(typ)) - ref.base
                    scale = max(1, abs(ref.base))
                near = abs(slack) <= Fraction(1, 10**9) * scale
                before = (fr(w.e.assets[w.e.settlement_currency]), fr(w.e.assets['BTC']))
                ok = w.submit(0, side, typ, q, p, side == 'sell')
                k = len(w.s.orders) - 1
                if near and ok == expect_reject:
                    res.discarded += 1
                    if not ok:
                        break
                    ref.submit(k, side, typ, q, p)
                    continue
                if oracle and ok == expect_reject:
                    verdict = ('reject-iff', {'side': side, 'type': typ, 'qty': q, 'price': p},
                               'accepted' if ok else 'rejected', 'rejected' if expect_reject else 'accepted')
                    break
                if not ok:
                    break          # a rejected submission ends the sequence
                ref.submit(k, side, typ, q, p)
            elif x < 0.8:
                k = r.choice(active)
                last_exec = {'side': w.s.orders[k].side, 'pos_before': float(w.s.position('BTC-USDT').qty),
                             'reduce_only': bool(w.s.orders[k].reduce_only)}
                w.execute(k)
                ref.execute(k)
                nfill += 1
            elif x < 0.93:
                k = r.choice(active)
                w.cancel(k)
                ref.cancel(k)
                ncancel += 1
            elif final:
                k = r.choice(final)
                (w.execute if r.random() < 0.5 else w.cancel)(k)
            if oracle:
                quote = fr(w.e.assets[w.e.settlement_currency])
                base = fr(w.e.assets['BTC'])
                posq = fr(w.s.position('BTC-USDT').qty)
                tol = Fraction(1, 10**9)
                if abs(quote - ref.free) > tol * max(1, abs(ref.free)):
                    verdict = ('quote-balance', w.lines[-1], float(quote), float(ref.free))
                elif abs(base - ref.base) > tol * max(1, abs(ref.base)):
                    verdict = ('base-balance', w.lines[-1], float(base), float(ref.base))
                elif abs(posq - base) > tol * max(1, abs(base)):
                    verdict = ('position-not-base', w.lines[-1], float(posq), float(base))
                elif w.s.position('BTC-USDT').qty != w.e.assets['BTC']:
                    # the two books are kept by the same float operations on the same fills, so they are the SAME float:
                    # a last-digit difference is what makes "sell exactly position.qty" (liquidate) either rejected
                    # as exceeding the base held, or leave dust behind
                    verdict = ('position-not-base/last-digit', w.lines[-1], repr(w.s.position('BTC-USDT').qty),
                               repr(w.e.assets['BTC']))
                elif quote < -tol or base < -tol:
                    verdict = ('negative-balance', w.lines[-1], [float(quote), float(base)], '>= 0')
                elif posq < -tol:
                    verdict = ('short-position', w.lines[-1], float(posq), '>= 0')
                if verdict:
                    break
        self.last_exec = last_exec
        return w, verdict, nfill, ncancel

    def correspondence(self, res, boost):
        jesse_env.setup()
        worlds = []
        for t in range(self.budget(300, 3000, boost)):
            w, _, nf, nc = self.run_sequence(res, self.rng.randint(3, 30 if not self.thorough else 60), lattice=True, oracle=False)
            worlds.append((w, {'seq': t}))
        self.replace_exits(res, worlds)
        acctcorr.compare(res, worlds, 'corr/accounts-spot')

    def witness_sequences(self, res):
        """every run replays the witnesses of the known findings on the real classes"""
        for k in core.load_known():
            if k['property'] != 'C04' or k.get('status') != 'open':
                continue
            ops = k['witness']['ops']
            _, kind, bal, fee, lev, nsym = ops[0].split()[1:7] if False else ops[0].split()[1:]
            w = acctcorr.RealWorld(kind, float(fr(bal)), float(fr(fee)), int(lev), int(nsym))
            pos_before = None
            for line in ops[1:]:
                t = line.split()
                if t[1] == 'price':
                    w.price(int(t[2]), float(fr(t[3])))
                elif t[1] == 'submit':
                    w.submit(int(t[2]), t[3], t[4], float(fr(t[5])), float(fr(t[6])), t[7] == '1')
                elif t[1] == 'execute':
                    pos_before = float(w.s.position('BTC-USDT').qty)
                    side = w.s.orders[int(t[2])].side
                    w.execute(int(t[2]))
                elif t[1] == 'cancel':
                    w.cancel(int(t[2]))
            posq = float(w.s.position('BTC-USDT').qty)
            base = float(w.e.assets['BTC'])
            if abs(posq - base) > 1e-9:
                res.fail(**{'class': 'spot/position-not-base', 'input': {'ops': ops}, 'observed': posq, 'expected': base,
                            'params': {'at': ops[-1], 'sell_executed_on_closed_position': pos_before == 0 and side == 'sell'}})

    def replace_exits(self, res, worlds=None):
        """the standard way of moving exits: buy T, rest two sells a + b = T (LIMIT or STOP), cancel them, then rest ONE
        sell for the whole base — which the property says is accepted (it plus the resting sells of its kind, now none,
        does not exceed the base held).  Decimal splits whose float sum is inexact (0.1 + 0.7, 0.02 + 0.18, …)."""
        r = self.rng
        splits = [(0.1, 0.7), (0.7, 0.1), (0.02, 0.18), (0.03, 0.3), (0.3, 0.5), (0.1, 0.2), (0.25, 0.5), (1.1, 2.2), (0.07, 0.21)]
        splits += [(round(r.randint(1, 99) / 100, 2), round(r.randint(1, 99) / 100, 2)) for _ in range(self.budget(12, 300))]
        for (a, b) in splits:
            for typ in ('LIMIT', 'STOP'):
                tot = float(fr(a) + fr(b))
                w = acctcorr.RealWorld('spot', 10_000.0, 0.0, 1, 1)
                w.price(0, 100.0)
                p = 110.0 if typ == 'LIMIT' else 90.0
                ok = w.submit(0, 'buy', 'MARKET', tot, 100.0, False)
                w.execute(0)
                ok = ok and w.submit(0, 'sell', typ, a, p, True) and w.submit(0, 'sell', typ, b, p + 1, True)
                w.cancel(1)
                w.cancel(2)
                accepted = ok and w.submit(0, 'sell', typ, tot, p, True)
                res.seen(('replace-exits', a, b, typ), True)
                res.count('sequences:replace-exits')
                if worlds is not None:
                    worlds.append((w, {'replace_exits': [a, b, typ]}))
                elif not accepted:
                    res.fail(**{'class': 'spot/rejection', 'input': {'ops': w.lines}, 'observed': w.replies[-1][:200],
                                'expected': 'accepted: nothing is resting any more and the base balance equals the quantity',
                                'params': {'at': w.lines[-1], 'split': [a, b], 'kind': typ}})

    def dust_cycles(self, res):
        """buy an 8-decimal size with a fee, sell everything rounded DOWN to 8 decimals (dust below 1e-8 stays: it is still
        base held and still a position), several rounds, then buy again and sell the whole base: position size = base
        balance after every fill, never negative"""
        import math
        for fee in (0.00075, 0.001):
            for q8 in (0.12345678, 0.00321987, 1.23456789):
                w = acctcorr.RealWorld('spot', 10_000.0, fee, 1, 1)
                w.price(0, 100.0)
                bad = None

                def check(tag):
                    base = float(w.e.assets['BTC'])
                    pos = float(w.s.position('BTC-USDT').qty)
                    if abs(pos - base) > 1e-12 or pos < 0 or base < 0:
                        return ('position-not-base', tag, pos, base)
                    return None
                for rnd in range(3):
                    for side, qf in (('buy', lambda: q8), ('sell', lambda: math.floor(float(w.e.assets['BTC']) * 1e8) / 1e8)):
                        q = qf()
                        if q <= 0 or not w.submit(0, side, 'MARKET', q, 100.0, side == 'sell'):
                            break
                        w.execute(len(w.s.orders) - 1)
                        bad = bad or check(w.lines[-1])
                if not bad and w.submit(0, 'buy', 'MARKET', q8, 100.0, False):
                    w.execute(len(w.s.orders) - 1)
                    bad = check(w.lines[-1])
                    qall = float(w.e.assets['BTC'])
                    if not bad and qall > 0 and w.submit(0, 'sell', 'MARKET', qall, 100.0, True):
                        w.execute(len(w.s.orders) - 1)
                        bad = check(w.lines[-1])
                res.seen(('dust', fee, q8), True)
                res.count('sequences:dust-cycles')
                if bad:
                    res.fail(**{'class': 'spot/' + bad[0], 'input': {'ops': w.lines}, 'observed': bad[2], 'expected': bad[3],
                                'params': {'at': bad[1], 'family': 'dust-cycles'}})

    def oracle(self, res, boost):
        jesse_env.setup()
        self.witness_sequences(res)
        self.replace_exits(res)
        self.dust_cycles(res)
        for t in range(self.budget(800, 8000, boost)):
            lattice = t % 2 == 0
            w, verdict, nf, nc = self.run_sequence(res, self.rng.randint(3, 40 if not self.thorough else 80), lattice, oracle=True)
            res.seen(tuple(w.lines), nf > 0 and nc > 0)
            res.count('sequences:' + ('lattice' if lattice else 'decimal'))
            if verdict:
                what, where, got, want = verdict
                params = {'at': where if isinstance(where, str) else where}
                le = self.last_exec
                if le and isinstance(where, str) and where.startswith('acc execute') and le['side'] == 'sell' and le['pos_before'] == 0:
                    params['sell_executed_on_closed_position'] = True
                res.fail(**{'class': 'spot/' + what, 'input': {'ops': w.lines}, 'observed': got, 'expected': want,
                            'params': params})
            elif len(res.samples) < 3:
                res.sample({'ops': w.lines[:12], 'final': w.replies[-1][:200]})

    def replay(self, doc):
        print(doc['failure'])
        return 1


CHECK = C04
