"""C06 — position events and the trade log are a faithful record of the fills."""
import random

import core
import engcorr
import engoracles
import jesse_env

M = 60_000
POS_HOOKS = ('on_open_position', 'on_increased_position', 'on_reduced_position', 'on_close_position')


class C06(core.Check):
    pid = 'C06'
    unproved = [
        'hook reporting (exactly one matching hook per fill) and trade open/close times: engine correspondence + trade-log oracle',
        'several symbols in one world',
        'spot trade records (base-asset fee): correspondence + oracle',
    ]
    gen_keys = ['jesse/helpers.py:estimate_PNL', 'jesse/helpers.py:estimate_average_price']
    rule = ('correspondence: whole sessions (multi-point entries, partial take-profits, stops moved after reductions, '
            'liquidate(), flips, open position at session end; spot and futures, both simulators) on the real engine and on '
            'the Lean engine model — identical traces incl. the position hooks and the closed-trade count; oracle on real '
            'traces: per symbol the fills form cycles open (inc|red)* close, each fill is reported exactly once by the hook '
            'its size change implies, every cycle yields one closed trade with the side, quantity, weighted entry/exit '
            'prices, open/close times and order list of its fills, and in futures the net PnL of all closed trades equals '
            'the wallet change; non-trivial = a cycle with at least three fills; distinct = distinct sessions')

    def sessions(self, n, rng):
        out = []
        for _ in range(n):
            # a quarter of the sessions: multi-point entries of decimal sizes (0.1 + 0.2, 0.3 + 0.1, 0.7 + 0.2) closed by
            # exits for the exact decimal total — position sizes whose float sum is inexact
            force = {'kind': 'ladder', 'q': rng.choice([0.1, 0.3, 0.7]), 'style': rng.choice(['go', 'on_open'])} \
                if rng.random() < 0.25 else None
            # a fifth of the sessions: isolated margin at leverage 50..125 on wide minutes — stops that lie BEYOND the
            # bankruptcy price are filled (matching comes before the liquidation check) with a loss larger than the
            # margin, and forced closes are fills like any other: the ledger must still add up
            iso = force is None and rng.random() < 0.2
            out.append(engcorr.gen_session(rng, max_n=120, tight=(rng.random() < 0.5) or force is not None,
                                           vol=rng.choice([12, 16]) if iso else rng.choice([4, 8, 12]), lengths=[30, 60, 90, 120],
                                           isolated=iso, leverage=rng.choice([50, 100, 125]) if iso else None,
                                           kinds=('futures',) if iso else ('futures', 'futures', 'spot'), force=force))
            if out[-1]['kind'] == 'futures' and rng.random() < 0.12:
                # a maker rebate (negative fee rate): the wallet and the trade log read the same signed setting
                out[-1]['fee'] = -1 / 2048
        return out

    def correspondence(self, res, boost):
        jesse_env.setup()
        rng = random.Random(self.seed * 7919 + 6)
        engcorr.compare_sessions(res, self.sessions(self.budget(100, 700, boost), rng))

    def analyse(self, sess, cands, ev, tr):
        """returns (list of problems, flags)"""
        probs = []
        flags = {'flip': False, 'oversize_reduce_only': False, 'reduce_only_no_effect': False, 'cycle3': False}
        orders = engoracles.order_table(tr)
        sidx = {s: i for i, s in enumerate(sess['syms'])}
        # walk the formatted events: FILL n … HOOK … POS sym qty entry
        from fractions import Fraction
        pos = {i: 0.0 for i in sidx.values()}
        exact = {i: Fraction(0) for i in sidx.values()}   # position size the fills imply, in exact decimal arithmetic
        cycles = {i: [] for i in sidx.values()}     # current cycle's fills per symbol
        cflags = {i: {'flip': False, 'oversize_reduce_only': False} for i in sidx.values()}   # of the running cycle
        done = []                                   # finished cycles
        i = 0
        toks = [e.split() for e in ev]
        while i < len(toks):
            t = toks[i]
            if t[0] == 'FILL':
                n = int(t[1])
                o = orders[n]
                s = sidx[o['sym']]
                hooks = []
                j = i + 1
                depth_guard = 0
                # the hooks of THIS fill come before its POS event; nested fills (market orders executed inside hooks do
                # not happen: they are queued) so the next POS for this symbol closes the fill
                while j < len(toks) and not (toks[j][0] == 'POS' and int(toks[j][1]) == s):
                    if toks[j][0] == 'HOOK' and toks[j][2] in POS_HOOKS:
                        hooks.append((toks[j][2], float(toks[j][5])))
                    if toks[j][0] == 'FILL':
                        depth_guard += 1
                    j += 1
                if j >= len(toks):
                    break
                after = float(toks[j][2])
                before = pos[s]
                q = float(o['qty'])
                # materially larger than the position it reduces (a difference of float dust is not the known finding)
                if before != 0 and (before > 0) != (q > 0) and abs(q) > abs(before) * (1 + 1e-9) + 1e-12:
                    if o['ro']:
                        flags['oversize_reduce_only'] = True
                        cflags[s]['oversize_reduce_only'] = True
                    else:
                        flags['flip'] = True
                        cflags[s]['flip'] = True
                # the size the fills imply, exactly (jesse adds sizes in decimal arithmetic: sum_floats / subtract_floats)
                fq = Fraction(repr(float(q)))
                if exact[s] != 0 and (exact[s] > 0) != (fq > 0) and abs(fq) > abs(exact[s]) and o['ro']:
                    exact[s] = Fraction(0)
                elif not (o['ro'] and exact[s] != 0 and (exact[s] > 0) == (fq > 0)):
                    exact[s] += fq
                if sess['kind'] == 'futures' and ((exact[s] == 0) != (after == 0) or abs(float(exact[s]) - after) > 1e-9 * max(1.0, abs(after))):
                    probs.append(('position-size', {'order': n, 'before': before, 'after': after, 'implied_by_fills': float(exact[s]),
                                                    '_flags': dict(cflags[s])}))
                    exact[s] = Fraction(repr(float(after)))
                if o['ro'] and before != 0 and (before > 0) == (q > 0):
                    flags['reduce_only_no_effect'] = True
                if before == 0 and after != 0:
                    want = ['on_open_position']
                elif before != 0 and after == 0:
                    want = ['on_close_position']
                elif before != 0 and after != 0 and (before > 0) != (after > 0):
                    want = ['on_close_position', 'on_open_position']     # a flip is a close followed by an open
                elif abs(after) > abs(before):
                    want = ['on_increased_position']
                elif abs(after) < abs(before):
                    want = ['on_reduced_position']
                else:
                    want = []
                got = [h for (h, _) in hooks]
                if depth_guard == 0 and got != want:
                    probs.append(('position-hook', {'order': n, 'before': before, 'after': after, 'hooks': got, 'expected': want,
                                                    '_flags': dict(cflags[s])}))
                # cycles
                if before == 0 and after != 0:
                    cycles[s] = [(n, q, float(o['price']), int(float(t[2])))]
                elif before != 0:
                    cycles[s].append((n, q, float(o['price']), int(float(t[2]))))
                    if after == 0 or (after > 0) != (before > 0):
                        done.append((s, before > 0, cycles[s], dict(cflags[s])))
                        cycles[s] = [] if after == 0 else [(n, after, float(o['price']), int(float(t[2])))]
                        # a cycle started by a flip inherits the flag (its opening order belongs to the previous trade)
                        cflags[s] = {'flip': after != 0, 'oversize_reduce_only': False}
                pos[s] = after
                i = j + 1
                continue
            i += 1
        if tr.final is None:
            return probs, flags
        trades = tr.final['trades']
        if len(trades) != len(done):
            probs.append(('closed-trade-count', {'trades': len(trades), 'cycles': len(done)}))
        for (s, is_long, fills, cf), td in zip(done, trades):
            n_before = len(probs)
            if len(fills) >= 3:
                flags['cycle3'] = True
            entry = [(abs(q), p) for (n, q, p, t) in fills if (q > 0) == is_long]
            exits = [(abs(q), p) for (n, q, p, t) in fills if (q > 0) != is_long]
            eq = sum(q for q, _ in entry)
            xq = sum(q for q, _ in exits)
            want = {'type': 'long' if is_long else 'short', 'qty': eq,
                    'entry_price': sum(q * p for q, p in entry) / eq if eq else None,
                    'exit_price': sum(q * p for q, p in exits) / xq if xq else None,
                    'orders': [n for (n, q, p, t) in fills], 'opened_at': fills[0][3], 'closed_at': fills[-1][3]}
            for key in ('type', 'orders'):
                if td[key] != want[key]:
                    probs.append(('trade-' + key, {'trade': td, 'expected': want}))
            for key in ('qty', 'entry_price', 'exit_price'):
                if want[key] is None or isinstance(td[key], str) or abs(float(td[key]) - want[key]) > 1e-9 * max(1, abs(want[key])):
                    probs.append(('trade-' + key, {'observed': td[key], 'expected': want[key], 'orders': want['orders']}))
            for key in ('opened_at', 'closed_at'):
                if td[key] is None or int(td[key]) != want[key]:
                    probs.append(('trade-' + key, {'observed': td[key], 'expected': want[key], 'orders': want['orders']}))
            if abs(xq - eq) > 1e-9 * max(1, eq) and sess['kind'] == 'futures':
                probs.append(('exit-qty-not-entry-qty', {'entry_qty': eq, 'exit_qty': xq, 'orders': want['orders']}))
            for (_, info) in probs[n_before:]:
                info['_flags'] = cf
        if sess['kind'] == 'futures':
            st = tr.final['state']
            wallet = list(st['exchanges'].values())[0]['assets']['USDT']
            net = sum(float(t['pnl']) for t in trades if not isinstance(t['pnl'], str))
            if abs((wallet - sess['balance']) - net) > 1e-7 * max(1, abs(net)):
                probs.append(('net-pnl-not-wallet-change', {'sum_trade_pnl': net, 'wallet_change': wallet - sess['balance']}))
        return probs, flags

    def oracle(self, res, boost):
        jesse_env.setup()
        rng = random.Random(self.seed * 104729 + 66)
        witnesses = []
        for k in core.load_known():
            if k['property'] == 'C06' and k.get('status') == 'open':
                w = dict(k['witness']['session'])
                w['routes'] = [tuple(x) for x in w['routes']]
                w['droutes'] = [tuple(x) for x in w['droutes']]
                witnesses.append(w)
        for sess in witnesses + self.sessions(self.budget(200, 1500, boost), rng):
            cands = engcorr.candles_of(sess)
            ev, tr, err = engcorr.run_real(sess, cands)
            res.count('sessions:' + ('fast' if sess['fast'] else 'step') + ':' + sess['kind'])
            if err is not None:
                res.count('session-error:' + type(err).__name__)
                continue
            probs, flags = self.analyse(sess, cands, ev, tr)
            res.seen((sess['candle_seed'], sess['fast']), flags['cycle3'])
            for k, v in flags.items():
                if v:
                    res.count('flag:' + k)
            seen_classes = set()
            for (what, info) in probs:
                if what in seen_classes:
                    continue
                seen_classes.add(what)
                # a failure is attributed to the known situations only through the flags of ITS OWN cycle; session-level
                # identities (trade count, net PnL) through the flags of the whole session
                pf = info.pop('_flags', None) if isinstance(info, dict) else None
                if pf is None:
                    pf = {'flip': flags['flip'], 'oversize_reduce_only': flags['oversize_reduce_only']}
                res.count(f"failure:{what}|flip={pf['flip']}|oversize={pf['oversize_reduce_only']}|{sess['kind']}")
                res.fail(**{'class': 'trade-log/' + what,
                            'input': {'session': {kk: sess[kk] for kk in ('kind', 'fee', 'leverage', 'isolated', 'fast', 'routes',
                                                                         'droutes', 'n', 'scripts', 'candle_seed', 'vol', 'gap_prob')}},
                            'observed': info,
                            'params': {'flip': pf['flip'], 'oversize_reduce_only': pf['oversize_reduce_only'],
                                       'reduce_only_no_effect': flags['reduce_only_no_effect'], 'kind': sess['kind']}})
            if not probs and len(res.samples) < 3:
                res.sample({'routes': sess['routes'], 'kind': sess['kind'], 'closed_trades': len(tr.final['trades']), 'flags': flags})

    def replay(self, doc):
        print(doc['failure'])
        return 1


CHECK = C06
