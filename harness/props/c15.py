"""C15 — indicators match their definitions, ranges and orderings."""
import math
import os
import re
import sys

import core
import indlib
import indmodel
import indref as R
import jesse_env

sys.path.insert(0, os.path.join(core.VERIF, 'py2lean'))


def flo(xs):
    return [float(v) for v in xs]


class Series:
    """one candle series with its columns as plain lists"""

    def __init__(self, kind, c):
        self.kind = kind
        self.c = c
        self.o, self.cl, self.h, self.l, self.v = (flo(c[:, j]) for j in (1, 2, 3, 4, 5))
        self.scale = max(1e-300, max(abs(x) for x in self.h))

    def src(self, st):
        return flo(indlib.source_of(self.c, st))

    def sscale(self, st):
        """magnitude of a source series (volume is not on the price scale)"""
        return max(1e-300, max(abs(x) for x in self.src(st)))


def decay_rows(alpha, tol=1e-9):
    """rows after which a start-up seed's influence (1-alpha)^m is below tol"""
    return int(math.ceil(math.log(tol) / math.log(1 - alpha))) + 2 if alpha < 1 else 2


class Probe:
    """collects problems for one indicator"""

    def __init__(self, name):
        self.name = name
        self.problems = []
        self.evals = 0
        self.nontrivial = 0

    def add(self, cls, clause, detail, s, kw):
        if len(self.problems) < 60:
            self.problems.append({'cls': cls, 'clause': clause, 'detail': detail, 'kind': s.kind, 'kw': dict(kw),
                                  'candles': None if any(p['cls'] == cls for p in self.problems) else indlib.jsonable_candles(s.c)})

    def value(self, clause, real, ref, s, kw, scale, rel=1e-9, start=0, degree=1):
        """real: floats; ref: float|None per row; rows >= start with a defined reference must agree"""
        self.evals += 1
        if real is None:
            self.add('definition', clause, 'result is not a series', s, kw)
            return
        if len(real) != len(ref):
            self.add('definition', clause, f'{len(real)} rows for {len(ref)} candles', s, kw)
            return
        seen = False
        for i in range(start, len(ref)):
            b = ref[i]
            if b is None:
                continue
            a = real[i]
            # `scale` may be one magnitude for the series or one per row (the magnitude of that row's own window)
            sc = (scale[i] if isinstance(scale, list) else scale) ** degree
            seen = True
            if a is None or a != a:
                # NaN where the textbook value is defined: kept apart from a wrong number (overflow, missing rows)
                self.add('definition', clause + ':nan', {'row': i, 'observed': 'NaN', 'textbook': b}, s, kw)
                return
            if abs(a - b) > rel * max(sc, abs(a), abs(b)):
                self.add('definition', clause, {'row': i, 'observed': a, 'textbook': b, 'tolerance': rel * max(sc, abs(b))}, s, kw)
                return
        if seen:
            self.nontrivial += 1

    def holds(self, cls, clause, ok, detail, s, kw):
        self.evals += 1
        self.nontrivial += 1
        if not ok:
            self.add(cls, clause, detail, s, kw)


def ser(v):
    s = indlib.as_series(v)
    return None if s is None else [float('nan') if x is None else x for x in s]


def field(res, name):
    return ser(getattr(res, name))


class C15(core.Check):
    pid = 'C15'
    rule = ('tie 1: Lean kernels vs real indicators as in C13; tie 2: the dispatch table and docstring of ma() are re-read from '
            'the source on every run (Jesse/Gen/IndWrappers.lean) and C15.ma_dispatch is re-proved over them; oracle: the real '
            'core indicators against independent plain-Python textbook references (harness/indref.py) - exact (1e-9 relative to '
            'the price scale) for window functions and standard-seeded recursions, recurrence step exact for smoothers, value '
            'after the seed influence (1-alpha)^m < 1e-9 has decayed (1e-6) otherwise; ranges, band orderings, channel '
            'enclosure, non-negativity, homogeneity under scaling by 4 and 1/8, ma(matype) == the selected function; periods '
            '2..60, all source types, walk / constant / monotone / alternating / spike / huge / tiny prices; '
            'non-trivial = at least one defined row compared; distinct = distinct (indicator, clause, parameters, series)')
    assumptions = ['the textbook references use the standard seeds (SMA seed for EMA/Wilder, first TR = high-low); rows where the '
                   'textbook value is undefined (0/0, not enough history) are not compared',
                   'sqrt is abstract in the Lean kernels of stddev/bollinger (theorems for every sqrt with sqrt x >= 0); the driver uses a rational Newton approximation']

    def main(self):
        try:
            import warnings
            import indwrappers
            warnings.simplefilter('ignore', SyntaxWarning)
            with core.BuildLock():
                self.wstatus = indwrappers.generate(core.REPO, os.path.join(core.LEAN, 'Jesse', 'Gen'))
        except Exception as e:  # noqa
            raise core.Infra(f'indwrappers failed: {type(e).__name__}: {e}')
        return super().main()

    def correspondence(self, res, boost):
        jesse_env.setup()
        import indwrappers
        for d in indwrappers.diff_against_baseline(core.REPO):
            if d.get('name') == 'ma:tables':
                res.fail(**{'class': 'corr/ma-dispatch-table', 'input': None, 'observed': d.get('now'), 'expected': d.get('baseline'),
                            'how': 'the if/elif chain or the docstring of ma() differs from py2lean/indwrappers_baseline.json'})
        indmodel.correspondence(self, res, boost, quick=330, thorough=3000)

    # ------------------------------------------------------------------ series
    def make_series(self, big):
        import numpy as np
        r = self.rng
        n = 420
        out = [Series(k, indlib.candles(r, n, k)) for k in (['walk', 'flat', 'trend', 'alt', 'spike', 'gappy'] + (['down', 'lattice', 'walk', 'stall'] if big else []))]
        for name, f in (('huge', 2.0 ** 20), ('tiny', 2.0 ** -20), ('micro', 2.0 ** -34)):   # 1e6, 1e-6, 6e-11 x the price
            c = indlib.candles(r, n, 'walk')
            c[:, 1:5] *= f
            out.append(Series(name, c))
        # a market that collapses: prices 2^30 times larger in the first third, and one volume spike of 4e13 — a value
        # computed from a window must be as precise as THAT WINDOW's numbers allow, not as the largest number ever seen
        c = indlib.candles(r, n, 'walk')
        c[:n // 3, 1:5] *= 2.0 ** 30
        c[n // 4, 5] = 3.7e13
        out.append(Series('collapse', c))
        long = Series('walk-long', indlib.candles(r, 2600, 'walk'))
        return out, long

    def periods(self, default, big):
        if big:
            return list(range(2, 61))
        r = self.rng
        return sorted({2, 3, default, 60, r.randint(4, 30), r.randint(31, 59)})

    # ------------------------------------------------------------------ per-indicator checks (run in a forked child)
    def checks(self, big):
        ta = indlib.indicators()
        r = self.rng
        series, long = self.make_series(big)
        SRC = indlib.SOURCES

        def srcs():
            return SRC if big else [r.choice(SRC), 'close']

        def src_window(name, ref, default, degree=1):
            def run(P):
                for p in self.periods(default, big):
                    for st in srcs():
                        for s in series:
                            kw = {'period': p, 'source_type': st}
                            st_, out = indlib.call(ta[name], s.c, True, kw)
                            if st_ != 'ok':
                                P.add('definition', 'value', 'raises: ' + out, s, kw)
                                continue
                            P.value('value', ser(out), ref(s.src(st), p), s, kw, s.sscale(st), degree=degree)
            return run

        def smoother(name, alpha_of, pname='period', default=14, step_from=1, exact_ref=None, step=True):
            def run(P):
                for p in self.periods(default, big):
                    a = alpha_of(p)
                    for st in srcs():
                        kw = {pname: p, 'source_type': st}
                        for s in series:
                            x = s.src(st)
                            st_, out = indlib.call(ta[name], s.c, True, kw)
                            if st_ != 'ok':
                                P.add('definition', 'step', 'raises: ' + out, s, kw)
                                continue
                            y = ser(out)
                            if exact_ref is not None:
                                P.value('value', y, exact_ref(x, p), s, kw, s.sscale(st))
                            if step and y is not None and len(y) == len(x):
                                # recurrence step: y[i] = a*x[i] + (1-a)*y[i-1] wherever y[i-1] is defined
                                bad = None
                                for i in range(max(step_from, 1), len(x)):
                                    if y[i - 1] == y[i - 1]:
                                        want = a * x[i] + (1 - a) * y[i - 1]
                                        if not (abs(y[i] - want) <= 1e-9 * max(s.sscale(st), abs(want))):
                                            bad = {'row': i, 'observed': y[i], 'alpha*x+(1-alpha)*prev': want}
                                            break
                                P.holds('definition', 'step', bad is None, bad, s, kw)
                        # value once the seed has decayed, on the long series
                        x = long.src(st)
                        st_, out = indlib.call(ta[name], long.c, True, kw)
                        if st_ == 'ok':
                            m = decay_rows(a)
                            if p + m < len(x) - 50:
                                P.value('decayed', ser(out), R.ema(x, p, alpha=a), long, kw, long.sscale(st), rel=1e-6, start=p + m)
            return run

        def composed(name, ref, default):
            def run(P):
                for p in self.periods(default, big):
                    for st in srcs():
                        kw = {'period': p, 'source_type': st}
                        st_, out = indlib.call(ta[name], long.c, True, kw)
                        if st_ != 'ok':
                            P.add('definition', 'decayed', 'raises: ' + out, long, kw)
                            continue
                        m = 3 * decay_rows(2 / (p + 1))
                        if 3 * p + m < len(long.cl) - 50:
                            P.value('decayed', ser(out), ref(long.src(st), p), long, kw, long.sscale(st), rel=1e-6, start=3 * p + m)
            return run

        def c_sma(P):
            src_window('sma', R.sma, 5)(P)
            # the mean of a window, to the precision of the window's own magnitude (also through the ma() selector)
            coll = [s for s in series if s.kind == 'collapse']
            for s in coll:
                for p in (2, 5, 14):
                    for st in ('close', 'volume') if 'volume' in SRC else ('close',):
                        x = s.src(st)
                        local = [max(abs(v) for v in x[max(0, i - p + 1):i + 1]) for i in range(len(x))]
                        for name, kw in (('sma', {'period': p, 'source_type': st}), ('ma', {'period': p, 'matype': 0, 'source_type': st})):
                            st_, out = indlib.call(ta[name], s.c, True, kw)
                            if st_ == 'ok':
                                P.value('value: mean of the window, to the window\'s own precision', ser(out), R.sma(x, p), s, kw,
                                        [max(v, 1e-300) for v in local], rel=1e-7)

        def c_stddev(P):
            for p in self.periods(5, big):
                for nb in (1, 2.5):
                    for st in srcs():
                        for s in series:
                            kw = {'period': p, 'nbdev': nb, 'source_type': st}
                            st_, out = indlib.call(ta['stddev'], s.c, True, kw)
                            if st_ != 'ok':
                                P.add('definition', 'value', 'raises: ' + out, s, kw)
                                continue
                            y = ser(out)
                            ref = R.variance(s.src(st), p)
                            P.value('value', None if y is None else [v * v for v in y], [None if v is None else nb * nb * v for v in ref],
                                    s, kw, s.sscale(st), degree=2)
                            P.holds('nonneg', 'stddev>=0', y is not None and all(not (v < 0) for v in y), 'negative standard deviation', s, kw)

        def c_var(P):
            for p in self.periods(14, big):
                for st in srcs():
                    for s in series:
                        kw = {'period': p, 'source_type': st}
                        st_, out = indlib.call(ta['var'], s.c, True, kw)
                        if st_ != 'ok':
                            P.add('definition', 'value', 'raises: ' + out, s, kw)
                            continue
                        y = ser(out)
                        P.value('value', y, R.variance(s.src(st), p), s, kw, s.sscale(st), degree=2)
                        P.holds('nonneg', 'var>=0', y is not None and all(not (v < -1e-9 * s.sscale(st) ** 2) for v in y), 'negative variance', s, kw)

        def c_rsi(P):
            for p in self.periods(14, big):
                for st in srcs():
                    for s in series:
                        kw = {'period': p, 'source_type': st}
                        st_, out = indlib.call(ta['rsi'], s.c, True, kw)
                        if st_ != 'ok':
                            P.add('definition', 'value', 'raises: ' + out, s, kw)
                            continue
                        y = ser(out)
                        P.value('value', y, R.rsi(s.src(st), p), s, kw, 100.0)
                        P.holds('range', '0<=rsi<=100', y is not None and all(not (v < -1e-9 or v > 100 + 1e-9) for v in y), 'out of range', s, kw)

        def c_macd(P):
            combos = [(12, 26, 9), (5, 13, 4), (2, 3, 2)] + ([(r.randint(2, 20), r.randint(21, 60), r.randint(2, 30)) for _ in range(6)] if big else
                                                             [(r.randint(2, 20), r.randint(21, 60), r.randint(2, 30))])
            for (fa, sl, sg) in combos:
                for st in srcs():
                    kw = {'fast_period': fa, 'slow_period': sl, 'signal_period': sg, 'source_type': st}
                    for s in series + [long]:
                        st_, out = indlib.call(ta['macd'], s.c, True, kw)
                        if st_ != 'ok':
                            P.add('definition', 'value', 'raises: ' + out, s, kw)
                            continue
                        m_, sg_, h_ = field(out, 'macd'), field(out, 'signal'), field(out, 'hist')
                        ok = all(abs(h_[i] - (m_[i] - sg_[i])) <= 1e-9 * s.sscale(st) for i in range(len(m_)))
                        P.holds('definition', 'hist=macd-signal', ok, 'hist != macd - signal', s, kw)
                        a = 2 / (sg + 1)
                        bad = next((i for i in range(1, len(m_)) if abs(sg_[i] - (a * m_[i] + (1 - a) * sg_[i - 1])) > 1e-9 * s.sscale(st)), None)
                        P.holds('definition', 'signal-step', bad is None, {'row': bad}, s, kw)
                    x = long.src(st)
                    st_, out = indlib.call(ta['macd'], long.c, True, kw)
                    if st_ == 'ok':
                        line, signal, hist = R.macd(x, fa, sl, sg)
                        start = sl + decay_rows(2 / (sl + 1)) + 2 * decay_rows(2 / (sg + 1))
                        if start < len(x) - 50:
                            P.value('decayed', field(out, 'macd'), line, long, kw, long.sscale(st), rel=1e-6, start=start)
                            P.value('decayed', field(out, 'signal'), signal, long, kw, long.sscale(st), rel=1e-6, start=start)

        def c_bollinger(P):
            for p in self.periods(20, big):
                for (du, dd) in ((2, 2), (1.5, 3)):
                    for st in srcs():
                        for s in series:
                            kw = {'period': p, 'devup': du, 'devdn': dd, 'source_type': st}
                            st_, out = indlib.call(ta['bollinger_bands'], s.c, True, kw)
                            if st_ != 'ok':
                                P.add('definition', 'value', 'raises: ' + out, s, kw)
                                continue
                            u, m, l = field(out, 'upperband'), field(out, 'middleband'), field(out, 'lowerband')
                            x = s.src(st)
                            sc = s.sscale(st)
                            P.value('middle=sma', m, R.sma(x, p), s, kw, sc)
                            v = R.variance(x, p)
                            P.value('upper-middle=devup*std', [(a - b) ** 2 for a, b in zip(u, m)], [None if w is None else du * du * w for w in v],
                                    s, kw, sc, degree=2)
                            P.value('middle-lower=devdn*std', [(b - a) ** 2 for a, b in zip(l, m)], [None if w is None else dd * dd * w for w in v],
                                    s, kw, sc, degree=2)
                            ok = all(not (u[i] < m[i] - 1e-9 * sc or m[i] < l[i] - 1e-9 * sc) for i in range(len(m)))
                            P.holds('ordering', 'upper>=middle>=lower', ok, 'bands out of order', s, kw)

        def c_keltner(P):
            for p in self.periods(20, big):
                for mult in (2, 1.5):
                    for st in srcs():
                        for s in series:
                            kw = {'period': p, 'multiplier': mult, 'source_type': st}
                            st_, out = indlib.call(ta['keltner'], s.c, True, kw)
                            if st_ != 'ok':
                                P.add('definition', 'value', 'raises: ' + out, s, kw)
                                continue
                            u, m, l = field(out, 'upperband'), field(out, 'middleband'), field(out, 'lowerband')
                            sc = max(s.sscale(st), s.scale)
                            P.value('middle=ema', m, R.ema(s.src(st), p), s, kw, s.sscale(st))
                            a = R.atr(s.h, s.l, s.cl, p)
                            P.value('upper-middle=mult*atr', [x - y for x, y in zip(u, m)], [None if w is None else mult * w for w in a], s, kw, sc)
                            P.value('middle-lower=mult*atr', [y - x for x, y in zip(l, m)], [None if w is None else mult * w for w in a], s, kw, sc)
                            ok = all(not (u[i] < m[i] - 1e-9 * sc or m[i] < l[i] - 1e-9 * sc) for i in range(len(m)))
                            P.holds('ordering', 'upper>=middle>=lower', ok, 'bands out of order', s, kw)

        def c_donchian(P):
            for p in self.periods(20, big):
                for s in series:
                    kw = {'period': p}
                    st_, out = indlib.call(ta['donchian'], s.c, True, kw)
                    if st_ != 'ok':
                        P.add('definition', 'value', 'raises: ' + out, s, kw)
                        continue
                    u, m, l = field(out, 'upperband'), field(out, 'middleband'), field(out, 'lowerband')
                    hh, ll = R.rolling_max(s.h, p), R.rolling_min(s.l, p)
                    P.value('upper=max high', u, hh, s, kw, s.scale)
                    P.value('lower=min low', l, ll, s, kw, s.scale)
                    P.value('middle=(upper+lower)/2', m, [None if a is None else (a + b) / 2 for a, b in zip(hh, ll)], s, kw, s.scale)
                    P.holds('ordering', 'upper>=middle>=lower', all(not (u[i] < m[i] or m[i] < l[i]) for i in range(len(m))), 'bands out of order', s, kw)
                    P.holds('ordering', 'channel encloses price',
                            all(not (u[i] < s.h[i] or l[i] > s.l[i]) for i in range(len(m))), 'price outside the channel', s, kw)
                    st_, one = indlib.call(ta['donchian'], s.c, False, kw)
                    if st_ == 'ok':
                        P.holds('definition', 'single', indlib.same(float(one.upperband), hh[-1]) and indlib.same(float(one.lowerband), ll[-1]),
                                'non-sequential bands != max/min of the last period', s, kw)

        def c_stoch(P):
            combos = [(14, 3, 3), (5, 2, 4)] + ([(r.randint(2, 60), r.randint(1, 10), r.randint(1, 10)) for _ in range(8 if big else 2)])
            for (fk, sk, sd) in combos:
                for s in series:
                    kw = {'fastk_period': fk, 'slowk_period': sk, 'slowd_period': sd}
                    st_, out = indlib.call(ta['stoch'], s.c, True, kw)
                    if st_ != 'ok':
                        P.add('definition', 'value', 'raises: ' + out, s, kw)
                        continue
                    k, d = field(out, 'k'), field(out, 'd')
                    raw = R.stoch_raw(s.h, s.l, s.cl, fk)
                    rk = R.sma_of(raw, sk)
                    P.value('k=sma(%K)', k, rk, s, kw, 100.0)
                    P.value('d=sma(k)', d, R.sma_of(rk, sd), s, kw, 100.0)
                    P.holds('range', '0<=k,d<=100', all(not (v < -1e-7 or v > 100 + 1e-7) for v in k + d), 'out of range', s, kw)
            # STAGES: each smoothing stage uses its OWN moving-average knob: the result with (matype_a, matype_b) is the
            # composition of jesse's own ma() (itself covered by the `ma` clauses) with those two types over the textbook raw
            # series — for every pair of different types, which is where a knob routed to the wrong stage shows
            import numpy as np
            nanarr = lambda xs: np.array([float('nan') if v is None else v for v in xs], dtype=float)
            pairs = [(0, 2), (2, 0), (1, 0), (0, 1), (2, 1)] + ([(3, 0), (0, 3), (1, 2)] if big else [])
            for (mk, md) in pairs:
                for s in series[:4 if not big else len(series)]:
                    fk, sk, sd = r.choice([(14, 3, 3), (5, 2, 4), (9, 3, 5)])
                    raw = nanarr(R.stoch_raw(s.h, s.l, s.cl, fk))
                    try:
                        ek = ta['ma'](raw, period=sk, matype=mk, sequential=True)
                        ed = ta['ma'](ek, period=sd, matype=md, sequential=True)
                    except Exception:  # noqa
                        continue
                    opt = lambda a: [None if v != v else float(v) for v in a]
                    for name, kw, fields_ in (
                            ('stoch', {'fastk_period': fk, 'slowk_period': sk, 'slowk_matype': mk, 'slowd_period': sd, 'slowd_matype': md},
                             (('k', ek), ('d', ed))),
                            ('kdj', {'fastk_period': fk, 'slowk_period': sk, 'slowk_matype': mk, 'slowd_period': sd, 'slowd_matype': md},
                             (('k', ek), ('d', ed), ('j', 3 * ek - 2 * ed)))):
                        st_, out = indlib.call(ta[name], s.c, True, kw)
                        if st_ != 'ok':
                            P.add('definition', 'value', 'raises: ' + out, s, kw)
                            continue
                        for fname, exp in fields_:
                            P.value(f'{name} {fname}: stage smoothed with its own matype', field(out, fname), opt(exp), s, kw, 100.0, rel=1e-7)
                    # mab: the fast and the slow average each use their own knob
                    fp, sp = r.choice([(10, 50), (5, 20)])
                    kw = {'fast_period': fp, 'slow_period': sp, 'fast_matype': mk, 'slow_matype': md}
                    st_, out = indlib.call(ta['mab'], s.c, True, kw)
                    if st_ == 'ok':
                        try:
                            ef = ta['ma'](np.array(s.cl, dtype=float), period=fp, matype=mk, sequential=True)
                        except Exception:  # noqa
                            ef = None
                        if ef is not None:
                            P.value('mab middleband: the fast average with fast_matype', field(out, 'middleband'), opt(ef), s, kw, s.scale, rel=1e-7)
            for (fk, fd) in [(5, 3), (14, 2)] + [(r.randint(2, 60), r.randint(1, 10)) for _ in range(6 if big else 2)]:
                for s in series:
                    kw = {'fastk_period': fk, 'fastd_period': fd}
                    st_, out = indlib.call(ta['stochf'], s.c, True, kw)
                    if st_ != 'ok':
                        P.add('definition', 'value', 'raises: ' + out, s, kw)
                        continue
                    k, d = field(out, 'k'), field(out, 'd')
                    raw = R.stoch_raw(s.h, s.l, s.cl, fk)
                    P.value('stochf k=%K', k, raw, s, kw, 100.0)
                    P.value('stochf d=sma(k)', d, R.sma_of(raw, fd), s, kw, 100.0, start=fk + fd)
                    P.holds('range', 'stochf 0<=k,d<=100', all(not (v < -1e-7 or v > 100 + 1e-7) for v in k + d), 'out of range', s, kw)

        def cnd_window(name, ref, default, scale100=True, rng_=None, pname='period'):
            def run(P):
                for p in self.periods(default, big):
                    for s in series:
                        kw = {pname: p}
                        st_, out = indlib.call(ta[name], s.c, True, kw)
                        if st_ != 'ok':
                            P.add('definition', 'value', 'raises: ' + out, s, kw)
                            continue
                        y = ser(out)
                        P.value('value', y, ref(s, p), s, kw, 100.0 if scale100 else s.scale)
                        if rng_ is not None and y is not None:
                            lo, hi = rng_
                            P.holds('range', f'{lo}<={name}<={hi}', all(not (v < lo - 1e-7 or v > hi + 1e-7) for v in y), 'out of range', s, kw)
            return run

        def c_simple(P):
            for s in series:
                for name, ref in (('avgprice', [(a + b + c + d) / 4 for a, b, c, d in zip(s.o, s.h, s.l, s.cl)]),
                                  ('medprice', [(a + b) / 2 for a, b in zip(s.h, s.l)]),
                                  ('typprice', [(a + b + c) / 3 for a, b, c in zip(s.h, s.l, s.cl)]),
                                  ('wclprice', [(a + b + 2 * c) / 4 for a, b, c in zip(s.h, s.l, s.cl)]),
                                  ('obv', R.obv(s.cl, s.v)), ('trange', R.true_range(s.h, s.l, s.cl))):
                    st_, out = indlib.call(ta[name], s.c, True, {})
                    if st_ != 'ok':
                        P.add('definition', name, 'raises: ' + out, s, {'indicator': name})
                        continue
                    P.value(name, ser(out), ref, s, {'indicator': name}, s.scale if name != 'obv' else max(s.v) * len(s.v))
                    if name == 'trange':
                        P.holds('nonneg', 'trange>=0', all(not (v < 0) for v in ser(out)), 'negative true range', s, {'indicator': name})

        def c_atr(P):
            for p in self.periods(14, big):
                for s in series:
                    kw = {'period': p}
                    st_, out = indlib.call(ta['atr'], s.c, True, kw)
                    if st_ != 'ok':
                        P.add('definition', 'value', 'raises: ' + out, s, kw)
                        continue
                    y = ser(out)
                    P.value('value', y, R.atr(s.h, s.l, s.cl, p), s, kw, s.scale)
                    P.holds('nonneg', 'atr>=0', all(not (v < 0) for v in y), 'negative atr', s, kw)

        def c_adx(P):
            for p in self.periods(14, big):
                kw = {'period': p}
                for s in series + [long]:
                    for name in ('adx', 'di', 'dm'):
                        st_, out = indlib.call(ta[name], s.c, True, kw)
                        if st_ != 'ok':
                            P.add('definition', name, 'raises: ' + out, s, kw)
                            continue
                        if name == 'adx':
                            y = ser(out)
                            if y is not None:
                                P.holds('range', '0<=adx<=100', all(not (v < -1e-7 or v > 100 + 1e-7) for v in y), 'adx out of range', s, kw)
                            if s is long:
                                m = 2 * decay_rows(1 / p)
                                if 2 * p + m < len(s.cl) - 50:
                                    P.value('adx decayed', y, R.adx(s.h, s.l, s.cl, p), s, kw, 100.0, rel=1e-6, start=2 * p + m)
                        elif name == 'di':
                            pl, mi = field(out, 'plus'), field(out, 'minus')
                            P.holds('range', '0<=di<=100', all(not (v < -1e-7 or v > 100 + 1e-7) for v in pl + mi), 'di out of range', s, kw)
                            if s is long:
                                m = decay_rows(1 / p)
                                if p + m < len(s.cl) - 50:
                                    rp, rm = R.di(s.h, s.l, s.cl, p)
                                    P.value('di decayed', pl, rp, s, kw, 100.0, rel=1e-6, start=p + m)
                                    P.value('di decayed', mi, rm, s, kw, 100.0, rel=1e-6, start=p + m)
                        else:
                            rp, rm = R.dm(s.h, s.l, s.cl, p)
                            P.value('dm', field(out, 'plus'), rp, s, kw, s.scale * p)
                            P.value('dm', field(out, 'minus'), rm, s, kw, s.scale * p)

        def c_homog(P):
            import numpy as np
            for name, pname, dflt in (('sma', 'period', 5), ('ema', 'period', 5), ('wma', 'period', 30), ('dema', 'period', 30),
                                      ('tema', 'period', 9), ('trima', 'period', 30), ('smma', 'period', 5), ('wilders', 'period', 5),
                                      ('rma', 'length', 14)):
                for p in self.periods(dflt, big)[:4 if not big else 12]:
                    for st in ('close', 'hl2', 'ohlc4'):
                        for s in series[:3]:
                            kw = {pname: p, 'source_type': st}
                            st1, a = indlib.call(ta[name], s.c, True, kw)
                            if st1 != 'ok':
                                continue
                            for f in (4.0, 0.125):
                                c2 = np.array(s.c)
                                c2[:, 1:5] *= f
                                st2, b = indlib.call(ta[name], c2, True, kw)
                                ok = st2 == 'ok' and indlib.first_diff([f * v for v in ser(a)], ser(b), rel=1e-9, scale=s.sscale(st) * f) is None
                                P.holds('homogeneity', name, ok, f'{name}({f}*x) != {f}*{name}(x)', s, dict(kw, indicator=name, factor=f))

        def c_ma(P):
            doc = ta['ma'].__doc__ or ''
            table = {int(m.group(1)): m.group(2).replace('\\\\', '').replace('\\', '')
                     for m in re.finditer(r'^\s*(\d+):\s*([A-Za-z0-9_\\]+)', doc, re.M)}
            P.holds('ma-dispatch', 'docstring', len(table) >= 30, f'docstring table has {len(table)} rows', series[0], {})
            import inspect
            for mt, fname in sorted(table.items()):
                if fname not in ta:
                    st_, out = indlib.call(ta['ma'], series[0].c, True, {'matype': mt})
                    # documented but not exported (19: ht_trendline): ma must refuse it
                    P.holds('ma-dispatch', f'matype {mt}', st_ == 'raise', f'matype {mt} ({fname}) is not a public indicator but ma() returned a value', series[0], {'matype': mt})
                    continue
                fn = ta[fname]
                takes_period = 'period' in inspect.signature(fn).parameters
                for p in ([30, 7] if not big else [30, 7, 2, 14, 55]):
                    for st in (['close', r.choice(SRC)]):
                        for s in series[:2] if not big else series[:4]:
                            for seq in (True, False):
                                kw = {'period': p, 'matype': mt, 'source_type': st}
                                st1, a = indlib.call(ta['ma'], s.c, seq, kw)
                                kw2 = {'source_type': st}
                                if takes_period:
                                    kw2['period'] = p
                                st2, b = indlib.call(fn, s.c, seq, kw2)
                                if st1 != 'ok' or st2 != 'ok':
                                    P.holds('ma-dispatch', f'matype {mt}', st1 == st2, f'ma: {a if st1 != "ok" else "ok"} / {fname}: {b if st2 != "ok" else "ok"}', s, kw)
                                    continue
                                if seq:
                                    ok = indlib.first_diff(ser(a), ser(b), rel=1e-12, scale=s.scale) is None and len(ser(a)) == len(ser(b))
                                else:
                                    ok = indlib.same(indlib.as_scalar(a), indlib.as_scalar(b), rel=1e-12, scale=s.scale)
                                P.holds('ma-dispatch', f'matype {mt}', ok, f'ma(matype={mt}) != {fname}(...)', s, dict(kw, sequential=seq))

        return {
            'sma': c_sma,
            'wma': src_window('wma', R.wma, 30),
            'trima': src_window('trima', R.trima, 30),
            'roc': src_window('roc', R.roc, 10),
            'mom': src_window('mom', R.mom, 10),
            'ema': smoother('ema', lambda p: 2 / (p + 1), default=5, exact_ref=R.ema),
            'smma': smoother('smma', lambda p: 1 / p, default=5, step=False),
            'wilders': smoother('wilders', lambda p: 1 / p, default=5),
            'rma': smoother('rma', lambda p: 1 / p, pname='length', default=14),
            'dema': composed('dema', R.dema, 30),
            'tema': composed('tema', R.tema, 9),
            'stddev': c_stddev, 'var': c_var, 'rsi': c_rsi, 'macd': c_macd,
            'bollinger_bands': c_bollinger, 'keltner': c_keltner, 'donchian': c_donchian, 'stoch': c_stoch,
            'cci': cnd_window('cci', lambda s, p: R.cci(s.h, s.l, s.cl, p), 14, scale100=True),
            'willr': cnd_window('willr', lambda s, p: R.willr(s.h, s.l, s.cl, p), 14, rng_=(-100, 0)),
            'mfi': cnd_window('mfi', lambda s, p: R.mfi(s.h, s.l, s.cl, s.v, p), 14, rng_=(0, 100)),
            'transforms+obv+trange': c_simple, 'atr': c_atr, 'adx+di+dm': c_adx,
            'homogeneity': c_homog, 'ma': c_ma,
        }

    def oracle(self, res, boost):
        jesse_env.setup()
        big = self.thorough or boost
        checks = self.checks(big)

        def work(key):
            P = Probe(key)
            checks[key](P)
            return {'problems': P.problems, 'evals': P.evals, 'nontrivial': P.nontrivial}

        results = indlib.run_isolated(list(checks), work, workers=14, timeout=1700 if big else 500)
        for key in checks:
            st, out = results[key]
            if st != 'ok':
                # a reference check that cannot run is a broken oracle, not a held property
                res.fail(**{'class': f'oracle-broken/{key}', 'input': None, 'observed': f'{st}: {str(out)[:300]}',
                            'params': {'indicator': key}})
                continue
            res.count(key, out['evals'])
            for j in range(out['evals']):
                res.seen((key, j), j < out['nontrivial'])
            by = {}
            for p in out['problems']:
                by.setdefault(p['cls'], []).append(p)
            for cls, ps in sorted(by.items()):
                first = next((p for p in ps if p.get('candles')), ps[0])
                clauses = sorted({p['clause'] for p in ps})
                res.fail(**{'class': f'{cls}/{key}',
                            'input': {'check': key, 'params': first['kw'], 'kind': first['kind'], 'clause': first['clause'],
                                      'candles': first.get('candles')},
                            'observed': first['detail'], 'expected': f'{key}: {first["clause"]}',
                            'params': {'indicator': key, 'clauses': ','.join(clauses)},
                            'metrics': {'cases_failing': len(ps)},
                            'how': f'real jesse.indicators vs textbook reference (harness/indref.py): {first["clause"]}'})
            if not by and len(res.samples) < 3:
                res.sample({'check': key, 'comparisons': out['evals'], 'with_defined_rows': out['nontrivial']})
        inds = indlib.indicators()
        covered = {'sma', 'wma', 'trima', 'roc', 'mom', 'ema', 'smma', 'wilders', 'rma', 'dema', 'tema', 'stddev', 'var', 'rsi', 'macd',
                   'bollinger_bands', 'keltner', 'donchian', 'stoch', 'stochf', 'cci', 'willr', 'mfi', 'avgprice', 'medprice', 'typprice',
                   'wclprice', 'obv', 'trange', 'atr', 'adx', 'di', 'dm', 'ma'}
        res.notes.append('core indicators with a textbook reference: ' + ', '.join(sorted(covered)))
        res.notes.append('search only (no theorem): ' + ', '.join(sorted(covered - set(indmodel.MODELS))))
        res.notes.append('outside C15 (no textbook reference here; covered by C13/C14 oracles only): '
                         + ', '.join(sorted(n for n in inds if n not in covered)))

    def replay(self, doc):
        jesse_env.setup()
        f = doc['failure']
        i = f.get('input')
        if not i or not i.get('check'):
            print('nothing to replay:', doc.get('no_longer_checks'))
            return 1
        # re-run the whole reference check of that indicator on the current tree (seeded like the failing run)
        checks = self.checks(self.thorough)
        P = Probe(i['check'])
        checks[i['check']](P)
        for p in P.problems[:10]:
            print({k: v for k, v in p.items() if k != 'candles'})
        print(f'{len(P.problems)} problem(s) in {P.evals} comparisons for {i["check"]}')
        return 1 if P.problems else 0


CHECK = C15
