"""C10 — smart order routing (decision tables; the reconciliation part is covered by the engine model)."""
import random

import core
import engcorr
import engine
import engoracles
import jesse_env
import purecorr
from core import wire, fr


class FakeApi:
    def __init__(self):
        self.calls = []

    def market_order(self, exchange, symbol, qty, price, side, reduce_only):
        self.calls.append(('MARKET', qty, price, side, reduce_only))
        return self.calls[-1]

    def limit_order(self, exchange, symbol, qty, price, side, reduce_only):
        self.calls.append(('LIMIT', qty, price, side, reduce_only))
        return self.calls[-1]

    def stop_order(self, exchange, symbol, qty, price, side, reduce_only):
        self.calls.append(('STOP', qty, price, side, reduce_only))
        return self.calls[-1]


class FakePos:
    def __init__(self, typ, cur):
        self.type = typ
        self.current_price = cur
        self.is_close = typ == 'close'


def api_str(c):
    t, q, p, s, ro = c
    return f'ok {t} {purecorr.num(q)} {purecorr.num(p)} {s} {1 if ro else 0}'


class C10(core.Check):
    pid = 'C10'
    unproved = [
        'reconciliation after every strategy step (no stale exit order, none after close, entries cancelled iff should_cancel_entry): engine correspondence + reconciliation oracle',
    ]
    gen_keys = ['jesse/strategies/Strategy.py:Strategy._submit_buy_orders', 'jesse/strategies/Strategy.py:Strategy._submit_sell_orders',
                'jesse/services/broker.py:Broker._validate_qty', 'jesse/services/broker.py:Broker.buy_at_market',
                'jesse/services/broker.py:Broker.sell_at_market', 'jesse/services/broker.py:Broker.buy_at',
                'jesse/services/broker.py:Broker.sell_at', 'jesse/services/broker.py:Broker.start_profit_at',
                'jesse/services/broker.py:Broker.reduce_position_at', 'jesse/helpers.py:is_price_near',
                'jesse/helpers.py:opposite_side', 'jesse/helpers.py:type_to_side']
    rule = ('engine: whole sessions whose scripts re-declare entries and exits in go_long/go_short, on_open_position, '
            'update_position, on_reduced_position and liquidate() on the real engine and the Lean engine model (identical '
            'traces); reconciliation oracle on real sessions after every strategy step (active exit orders = distinct rows of '
            'the latest declaration, none after close, entries cancelled iff should_cancel_entry, routing of every submission); '
            'translator cross-check: the real Strategy._submit_buy/sell_orders (on a real Strategy object with a recording '
            'broker) and the real Broker methods (with a recording exchange API) vs the generated definitions, on prices at, '
            'inside, on and just outside the 0.015 % band and far away, positive/negative/zero quantities, long/short/closed '
            'positions; oracle: the routing table of C10 evaluated on the real composition strategy -> broker -> api; '
            'non-trivial = an order was produced; distinct = distinct (request, reply)')
    assumptions = []

    def price_points(self, cur):
        r = self.rng
        band = fr(cur) * fr('15/100000')
        pts = [cur, float(fr(cur) + band), float(fr(cur) - band), float(fr(cur) + band * fr('1001/1000')),
               float(fr(cur) - band * fr('1001/1000')), float(fr(cur) + band / 2), cur * 1.01, cur * 0.99, cur * 2, cur / 2,
               # just outside the band by 5e-5 of its width (7.5e-9 of the price ratio): far enough from the edge for the
               # float comparison to be decided, close enough to tell "relative to the current price" from other readings
               float(fr(cur) + band * fr('100005/100000')), float(fr(cur) - band * fr('100005/100000')),
               float(fr(cur) + band * fr('99995/100000')), float(fr(cur) - band * fr('99995/100000')),
               round(cur * r.uniform(0.9, 1.1), 4), 0.0, -1.0]
        return pts

    def cases(self, boost):
        r = self.rng
        out = []
        n = self.budget(12, 200, boost)
        for _ in range(n):
            cur = r.choice([100.0, 8.0, 0.5, 1024.0, round(r.uniform(0.01, 50000), r.choice([0, 2, 4]))])
            for p in self.price_points(cur):
                q = r.choice([1.0, 2.5, -3.0, 0.0, 0.125, round(r.uniform(0.001, 100), 3)])
                out.append((q, p, cur))
        return out

    def near_boundary(self, p, cur):
        if cur == 0:
            return True
        x = abs(1 - fr(p) / fr(cur))
        thr = fr('15/100000')
        # the threshold 0.00015 is not a binary fraction: at (or within 1e-10 of) the exact boundary the float
        # comparison is decided by rounding, which the Rat model idealises -> not comparable, counted as discarded
        return abs(x - thr) < fr('1/10000000000')

    def strategy_decision(self, side, q, p, cur):
        from jesse.strategies import Strategy

        class S(Strategy):
            def should_long(self): return False
            def go_long(self): pass
            def should_cancel_entry(self): return False
        s = S()
        s._is_executing = True
        s._cached_price = cur
        calls = []

        class B:
            def buy_at_market(self, q): calls.append(f'buy_at_market {purecorr.num(q)}')
            def sell_at_market(self, q): calls.append(f'sell_at_market {purecorr.num(q)}')
            def buy_at(self, q, p): calls.append(f'buy_at {purecorr.num(q)} {purecorr.num(p)}')
            def sell_at(self, q, p): calls.append(f'sell_at {purecorr.num(q)} {purecorr.num(p)}')
            def start_profit_at(self, sd, q, p): calls.append(f'start_profit_at {sd} {purecorr.num(q)} {purecorr.num(p)}')
        s.broker = B()
        if side == 'buy':
            s._buy = [(q, p)]
            s._submit_buy_orders()
        else:
            s._sell = [(q, p)]
            s._submit_sell_orders()
        return calls[0]

    def broker(self, typ, cur):
        from jesse.services.broker import Broker
        b = Broker.__new__(Broker)
        b.position = FakePos(typ, cur)
        b.symbol = 'BTC-USDT'
        b.exchange = 'Sandbox'
        b.timeframe = '1m'
        b.api = FakeApi()
        return b

    def correspondence(self, res, boost):
        jesse_env.setup()
        batch = []
        for (q, p, cur) in self.cases(boost):
            if cur == 0 or self.near_boundary(p, cur):
                res.discarded += 1
                continue
            w = [wire(q), wire(p), wire(cur)]
            batch.append(('submit_buy', w, (lambda q=q, p=p, cur=cur: self.strategy_decision('buy', q, p, cur)), '_submit_buy_orders'))
            batch.append(('submit_sell', w, (lambda q=q, p=p, cur=cur: self.strategy_decision('sell', q, p, cur)), '_submit_sell_orders'))
            for typ in ('long', 'short', 'close'):
                batch.append(('reduce_position_at', [wire(q), wire(p), wire(cur), typ],
                              (lambda q=q, p=p, cur=cur, typ=typ: api_str(self.broker(typ, cur).reduce_position_at(q, p, cur))[3:]),
                              'Broker.reduce_position_at'))
            batch.append(('buy_at_market', [wire(q), wire(cur)], (lambda q=q, cur=cur: api_str(self.broker('close', cur).buy_at_market(q))[3:]), 'Broker.buy_at_market'))
            batch.append(('sell_at_market', [wire(q), wire(cur)], (lambda q=q, cur=cur: api_str(self.broker('close', cur).sell_at_market(q))[3:]), 'Broker.sell_at_market'))
            batch.append(('buy_at', [wire(q), wire(p)], (lambda q=q, p=p, cur=cur: api_str(self.broker('close', cur).buy_at(q, p))[3:]), 'Broker.buy_at'))
            batch.append(('sell_at', [wire(q), wire(p)], (lambda q=q, p=p, cur=cur: api_str(self.broker('close', cur).sell_at(q, p))[3:]), 'Broker.sell_at'))
            for sd in ('buy', 'sell'):
                batch.append(('start_profit_at', [sd, wire(q), wire(p), wire(cur)],
                              (lambda sd=sd, q=q, p=p, cur=cur: api_str(self.broker('close', cur).start_profit_at(sd, q, p))[3:]),
                              'Broker.start_profit_at'))
            batch.append(('is_price_near', [wire(p), wire(cur)], (lambda p=p, cur=cur: __import__('jesse.helpers').helpers.is_price_near(p, cur)), 'is_price_near'))
        purecorr.cross_check(res, batch)
        self.engine_correspondence(res, boost)

    # ------------------------------------------------------------------ engine level
    def engine_sessions(self, n, rng):
        return [engcorr.gen_session(rng, max_n=120, rich=True, tight=rng.random() < 0.4, vol=rng.choice([4, 8]),
                                    lengths=[30, 60, 120]) for _ in range(n)]

    def engine_correspondence(self, res, boost):
        rng = random.Random(self.seed * 7919 + 10)
        engcorr.compare_sessions(res, self.engine_sessions(self.budget(100, 700, boost), rng))

    def engine_oracle(self, res, boost):
        """real sessions: after every strategy step with an open position every active stop-loss / take-profit order
        corresponds to a distinct row of the latest declaration; none remains once the position is closed; resting
        entries are all cancelled exactly when should_cancel_entry() answers yes; every submission obeys the routing
        table with respect to the current price at that moment"""
        from jesse.store import store
        rng = random.Random(self.seed * 104729 + 10)
        thr = 0.00015
        sessions = self.engine_sessions(self.budget(180, 1200, boost), rng)
        # two trading routes that react to EACH OTHER's position events (on_route_* hooks re-declare the stop-loss of an
        # open position): the first route enters with MARKET orders at its own step, so its events reach the second route
        # at every possible moment of that route's own cycle.  Real sessions only (the model knows no such hook).
        extra = 0
        while extra < self.budget(40, 300, boost):
            s2 = engcorr.gen_session(rng, max_n=120, rich=True, tight=rng.random() < 0.4, vol=rng.choice([4, 8]), lengths=[30, 60, 120],
                                     kinds=('futures',), data=False)
            if len(s2['routes']) != 2:
                continue
            for j, (sym, _) in enumerate(s2['routes']):
                s2['scripts'][sym] = engine.gen_script(rng, spot=False, rich=True, force={'kind': 'market'} if j == 0 else None,
                                                       route_hooks=True)
            # the first route opens with a MARKET order every other step and closes it at the next one through a bracket
            # inside the 0.015 % band (two MARKET exits): a stream of open / close events, all produced in its own step
            first = s2['routes'][0][0]
            s2['scripts'][first]['long'] = {'every': 2, 'phase': rng.randrange(2), 'rows': [(rng.choice([0.5, 1.0]), 0.0)]}
            s2['scripts'][first].pop('short', None)
            s2['scripts'][first]['update'] = {'every': 1, 'sl': 0.0, 'tp': 0.125 / 16, 'inplace': False}
            s2['route_hooks'] = True
            sessions.append(s2)
            extra += 1
        for sess in sessions:
            cands = engcorr.candles_of(sess)
            problems = []
            state = {}

            def observer(strategy, hook, order=None):
                if problems:
                    return
                key = f'{strategy.exchange}-{strategy.symbol}'
                if hook == 'before':
                    state[key] = {'active_before': [o for o in store.orders.get_active_orders(strategy.exchange, strategy.symbol) if o.is_active],
                                  'asked': None, 'was_closed': strategy.position.is_close,
                                  'entry_price': state.get(key, {}).get('entry_price')}
                if hook == 'should_cancel_entry':
                    sc = sess['scripts'][strategy.symbol]
                    n = sc.get('cancel_after')
                    state[key]['asked'] = n is not None and strategy.index - strategy.vars.get('entered_at', 0) >= n
                if hook in ('on_close_position:enter', 'on_reduced_position:enter') and order is not None and \
                        getattr(order, 'submitted_via', None) in ('stop-loss', 'take-profit') and order.type == 'MARKET':
                    # a MARKET exit that was executed must be JUSTIFIED by the latest declaration: a row of its quantity whose
                    # price is inside the 0.015 % band of the fill, or lies on the wrong side of the entry price (which is
                    # why the strategy layer replaced it by a MARKET order) — not the leftover of a superseded declaration
                    import numpy as np
                    decl = strategy.stop_loss if order.submitted_via == 'stop-loss' else strategy.take_profit
                    rows = [] if decl is None else [list(map(float, r)) for r in np.array(decl, dtype=float).reshape(-1, 2)]
                    entry = state.get(key, {}).get('entry_price')
                    long_ = order.side == 'sell'
                    ok = False
                    for (rq, rp) in rows:
                        if abs(abs(rq) - abs(order.qty)) > 1e-9:
                            continue
                        near = abs(1 - rp / order.price) <= thr + 1e-9 if order.price else False
                        if order.submitted_via == 'stop-loss':
                            wrong = entry is not None and (rp >= entry if long_ else rp <= entry)
                        else:
                            wrong = entry is not None and (rp <= entry if long_ else rp >= entry)
                        if near or wrong:
                            ok = True
                    if rows and not ok and entry is not None:
                        problems.append(('executed-market-exit-matches-no-declared-row', strategy.index,
                                         {'via': order.submitted_via, 'order': [order.type, order.qty, order.price], 'declaration': rows,
                                          'entry_price': entry}))
                        return
                if hook in ('on_open_position', 'on_increased_position') and strategy.position.is_open:
                    state.setdefault(key, {})['entry_price'] = float(strategy.position.entry_price)
                if hook != 'after':
                    return
                st = state.get(key, {})
                act = [o for o in store.orders.get_active_orders(strategy.exchange, strategy.symbol) if o.is_active]
                if strategy.position.is_open:
                    for via, decl in (('stop-loss', strategy.stop_loss), ('take-profit', strategy.take_profit)):
                        # (a declaration the strategy layer has not processed yet is still the raw tuple / list)
                        import numpy as np
                        rows = [] if decl is None else [list(map(float, r)) for r in np.array(decl, dtype=float).reshape(-1, 2)]
                        free = list(rows)
                        for o in act:
                            if o.submitted_via != via:
                                continue
                            m = next((r for r in free if abs(abs(r[0]) - abs(o.qty)) < 1e-9 and
                                      (abs(r[1] - o.price) < 1e-9 or o.type == 'MARKET')), None)
                            if m is None:
                                problems.append(('stale-exit-order', strategy.index, {'via': via, 'order': [o.type, o.qty, o.price], 'declaration': rows}))
                                return
                            free.remove(m)
                        # conversely: every row of the latest declaration was submitted as an order of this trade (it may
                        # have been executed since)
                        opened = getattr(strategy.position, 'opened_at', None)
                        mine = [o for o in store.orders.get_orders(strategy.exchange, strategy.symbol)
                                if o.submitted_via == via and not o.is_canceled and (opened is None or o.created_at >= opened)]
                        for r in rows:
                            m = next((o for o in mine if abs(abs(r[0]) - abs(o.qty)) < 1e-9 and
                                      (abs(r[1] - o.price) < 1e-9 or o.type == 'MARKET')), None)
                            if m is None:
                                problems.append(('declared-exit-without-order', strategy.index,
                                                 {'via': via, 'row': r, 'declaration': rows,
                                                  'orders_of_trade': [[o.type, o.qty, o.price, o.status] for o in mine]}))
                                return
                            mine.remove(m)
                else:
                    ro = [o for o in act if o.reduce_only]
                    if ro:
                        problems.append(('exit-order-after-close', strategy.index, {'orders': [[o.type, o.qty, o.price] for o in ro]}))
                        return
                if st.get('asked') is not None and st.get('was_closed'):
                    before = st['active_before']
                    still = [o for o in before if o.is_active]
                    cancelled = [o for o in before if o.is_canceled]
                    if st['asked'] and still:
                        problems.append(('entry-not-cancelled', strategy.index, {'still_active': [[o.type, o.qty, o.price] for o in still]}))
                    if not st['asked'] and cancelled:
                        problems.append(('entry-cancelled-without-yes', strategy.index, {'cancelled': [[o.type, o.qty, o.price] for o in cancelled]}))
            ev, tr, err = engcorr.run_real(sess, cands, extra_observer=observer)
            res.seen((sess['candle_seed'], sess['fast']), any(e[0] == 'CANCEL' for e in tr.events))
            res.count('engine-sessions:' + ('fast' if sess['fast'] else 'step') + (':route-hooks' if sess.get('route_hooks') else ''))
            desc = {'session': {kk: sess[kk] for kk in ('kind', 'fee', 'leverage', 'isolated', 'fast', 'routes', 'droutes', 'n',
                                                        'scripts', 'candle_seed', 'vol', 'gap_prob')}}
            if problems:
                what, idx, info = problems[0]
                res.fail(**{'class': 'reconciliation/' + what, 'input': desc, 'observed': dict(info, strategy_index=idx)})
            # an exit order never outlives its position: a reduce-only order is never executed on a flat position
            posq = {}
            pend = None
            for e in tr.events:
                if e[0] == 'FILL':
                    pend = e
                    od = next((x for x in tr.events if x[0] == 'SUBMIT' and x[1] == e[1]), None)
                    if od is not None and od[8] and od[1] not in getattr(tr, 'liq_orders', set()) and posq.get(e[3], 0.0) == 0:
                        res.fail(**{'class': 'reconciliation/exit-order-executed-on-flat-position', 'input': desc,
                                    'observed': {'order': e[1], 'type': e[5], 'side': e[4], 'qty': e[6], 'price': e[7], 'time': e[2]}})
                        break
                elif e[0] == 'POS':
                    posq[e[1]] = float(e[2])
            # routing of every submission against the current price at that moment
            for e in tr.events:
                if e[0] != 'SUBMIT':
                    continue
                _, k, t, sym, side, typ, qty, price, ro, cur = e
                if cur is None or cur <= 0 or price is None:
                    continue
                x = abs(1 - price / cur)
                if abs(x - thr) < 1e-10:
                    continue
                res.count('submit:' + typ)
                if typ == 'MARKET':
                    continue        # a MARKET order is priced at the current price (entries) or within the band / forced (exits)
                if x <= thr:
                    res.fail(**{'class': 'routing/not-market-inside-band', 'input': desc, 'observed': [typ, side, qty, price, cur]})
                    continue
                better = (price < cur) if side == 'buy' else (price > cur)
                want = 'LIMIT' if better else 'STOP'
                if typ != want:
                    res.fail(**{'class': 'routing/wrong-type', 'input': desc, 'observed': [typ, side, qty, price, cur], 'expected': want})

    def route(self, side, q, p, cur):
        """real composition: strategy decision -> real broker -> recording api"""
        d = self.strategy_decision(side, q, p, cur).split()
        b = self.broker('close', cur)
        name, args = d[0], d[1:]
        if name in ('buy_at_market', 'sell_at_market'):
            getattr(b, name)(float(args[0]))
        elif name in ('buy_at', 'sell_at'):
            getattr(b, name)(float(args[0]), float(args[1]))
        else:
            b.start_profit_at(args[0], float(args[1]), float(args[2]))
        return b.api.calls[0]

    def oracle(self, res, boost):
        jesse_env.setup()
        self.engine_oracle(res, boost)
        thr = fr('15/100000')
        for (q, p, cur) in self.cases(boost):
            if q == 0 or p < 0 or cur <= 0:
                continue
            if self.near_boundary(p, cur):
                res.discarded += 1
                continue
            near = abs(1 - fr(p) / fr(cur)) <= thr
            for side in ('buy', 'sell'):
                inp = {'request': 'entry', 'side': side, 'qty': q, 'price': p, 'current_price': cur}
                try:
                    t, oq, op, os_, ro = self.route(side, q, p, cur)
                except Exception as e:  # noqa
                    res.fail(**{'class': 'entry-routing/raises', 'input': inp, 'observed': repr(e)})
                    continue
                if near:
                    want = ('MARKET', abs(q), cur, side, False)
                elif (p > cur) == (side == 'buy'):
                    want = ('STOP', abs(q), p, side, False)
                else:
                    want = ('LIMIT', abs(q), p, side, False)
                res.seen((side, q, p, cur, t), True)
                res.count('entry:' + t)
                if (t, oq, op, os_, bool(ro)) != want:
                    res.fail(**{'class': 'entry-routing/wrong-order', 'input': inp, 'observed': [t, oq, op, os_, ro], 'expected': list(want)})
            for typ in ('long', 'short'):
                inp = {'request': 'exit', 'position': typ, 'qty': q, 'price': p, 'current_price': cur}
                b = self.broker(typ, cur)
                try:
                    b.reduce_position_at(q, p, cur)
                    t, oq, op, os_, ro = b.api.calls[0]
                except Exception as e:  # noqa
                    res.fail(**{'class': 'exit-routing/raises', 'input': inp, 'observed': repr(e)})
                    continue
                closing = 'sell' if typ == 'long' else 'buy'
                profit = (p > cur) if typ == 'long' else (p < cur)
                want = ('MARKET' if near else ('LIMIT' if profit else 'STOP'), abs(q), p, closing, True)
                res.seen((typ, q, p, cur, t), True)
                res.count('exit:' + t)
                if (t, oq, op, os_, bool(ro)) != want:
                    res.fail(**{'class': 'exit-routing/wrong-order', 'input': inp, 'observed': [t, oq, op, os_, ro], 'expected': list(want)})
                res.sample({'exit': inp, 'order': [t, oq, op, os_, ro]})

    def replay(self, doc):
        print(doc['failure'])
        return 1


CHECK = C10
