"""C14 — sequential and single-value indicator results agree."""
import json
import os
import sys

import core
import indlib
import indmodel
import jesse_env

sys.path.insert(0, os.path.join(core.VERIF, 'py2lean'))

# minmax documents that its non-sequential flags are those of the entry order+1 from the end
SINGLE_INDEX = {'minmax': lambda kw, field: -(kw.get('order', 3) + 1) if field in ('is_min', 'is_max') else -1}

LENGTHS_QUICK = [60, 150, 239, 240, 241, 300, 481]
# inputs that may be shorter than a look-back: default parameters only, one process per (indicator, length)
LENGTHS_SHORT = [10, 25]


def regenerate_wrappers():
    import warnings
    import indwrappers
    warnings.simplefilter('ignore', SyntaxWarning)      # ma.py's docstring contains '\\_'
    with core.BuildLock():
        return indwrappers.generate(core.REPO, os.path.join(core.LEAN, 'Jesse', 'Gen'))


class C14(core.Check):
    pid = 'C14'
    rule = ('tie 1: the wrapper-shape table is re-read from the AST of every file of jesse/indicators on every run '
            '(py2lean/indwrappers.py -> Jesse/Gen/IndWrappers.lean); C14.table_standard is re-proved over it and the table is '
            'diffed against the committed baseline; tie 2: Lean kernels vs real indicators as in C13; oracle: for EVERY public '
            'indicator with a sequential mode, default and non-default parameters, lengths 60, 150, 239, 240, 241, 300, 481 '
            '(more in the thorough tier): every field of the sequential result is a series of exactly len(candles) entries; '
            'its last entry equals the non-sequential result (len <= 240); the non-sequential result equals the last entry of '
            'the sequential result on the trailing 240 candles (all lengths); minmax per its documented order+1 rule; '
            'non-trivial = the last entry is not NaN; distinct = distinct (indicator, parameters, series, length)')
    assumptions = ['length preservation of UNMODELLED kernels is an assumption of C14.standard_wrapper that only the oracle examines',
                   'env.data.warmup_candles_num is at its default 240']

    def main(self):
        try:
            self.wstatus = regenerate_wrappers()
        except Exception as e:  # noqa
            raise core.Infra(f'indwrappers failed: {type(e).__name__}: {e}')
        return super().main()

    def correspondence(self, res, boost):
        jesse_env.setup()
        import indwrappers
        diffs = indwrappers.diff_against_baseline(core.REPO)
        st = getattr(self, 'wstatus', None) or {}
        res.count('wrapper-entries', len(st.get('entries', {})))
        res.count('wrapper-standard', sum(1 for e in st.get('entries', {}).values() if e.get('standard')))
        for d in diffs:
            if d.get('name') == 'ma:tables':
                continue            # the ma dispatch table belongs to C15
            res.fail(**{'class': 'corr/wrapper-shape', 'input': {'indicator': d.get('name')},
                        'observed': d.get('now'), 'expected': d.get('baseline'),
                        'how': 'wrapper shape read from the source differs from py2lean/indwrappers_baseline.json'})
        for name, why in (st.get('errors') or {}).items():
            res.fail(**{'class': 'corr/wrapper-shape', 'input': {'indicator': name}, 'observed': f'unparsed: {why}'})
        res.notes.append('wrapper table: ' + json.dumps(st.get('counts', {})))
        indmodel.correspondence(self, res, boost, quick=260, thorough=2500)

    # ------------------------------------------------------------------ the property on one (indicator, params, candles)
    @staticmethod
    def eval_case(f, name, kw, c, values=True, ties=False):
        """returns (status, [problem dicts]); status in ok / raised-both / raised"""
        n = len(c)
        s1, seq = indlib.call(f, c, True, kw)
        s2, single = indlib.call(f, c, False, kw)
        s3, seqw = indlib.call(f, c[-indlib.WARMUP:], True, kw) if n > indlib.WARMUP else (s1, seq)
        if s1 != 'ok' and s2 != 'ok':
            return 'raised-both', [], False
        probs = []
        if s1 != 'ok' or s2 != 'ok' or s3 != 'ok':
            probs.append({'cls': 'seq-vs-single', 'field': '*', 'what': 'one mode raises',
                          'sequential': seq if s1 != 'ok' else 'ok', 'single': single if s2 != 'ok' else 'ok',
                          'window': seqw if s3 != 'ok' else 'ok'})
            return 'raised', probs, False
        fs, fn_, fw = indlib.fields(seq), indlib.fields(single), indlib.fields(seqw)
        if not (len(fs) == len(fn_) == len(fw)):
            probs.append({'cls': 'seq-vs-single', 'field': '*', 'what': f'field counts differ: {len(fs)} vs {len(fn_)}'})
            return 'ok', probs, False
        nontrivial = False
        for (fname, vs), (_, vn), (_, vw) in zip(fs, fn_, fw):
            ss = indlib.as_series(vs)
            sw = indlib.as_series(vw)
            x = indlib.as_scalar(vn)
            if ties and ss is not None and any(isinstance(v, str) for v in ss):
                if len(ss) != n:
                    probs.append({'cls': 'seq-length', 'field': fname, 'what': f'{len(ss)} entries for {n} candles'})
                continue        # categorical field on a series with exact ties: rounding decides it (see C13)
            if ss is None:
                probs.append({'cls': 'seq-length', 'field': fname, 'what': f'sequential result is not a series: {type(vs).__name__} {str(vs)[:40]}'})
                continue
            if len(ss) != n:
                probs.append({'cls': 'seq-length', 'field': fname, 'what': f'{len(ss)} entries for {n} candles'})
            if not ss:
                continue
            idx = SINGLE_INDEX.get(name, lambda kw, fld: -1)(kw, fname)
            if x is not None and not isinstance(x, (float, str)):
                probs.append({'cls': 'seq-vs-single', 'field': fname, 'what': f'non-sequential result is not a number: {type(vn).__name__}'})
                continue
            if len(ss) >= -idx:
                last = ss[idx]
                if last is not None and last == last:
                    nontrivial = True
                if not values:
                    # shorter than a look-back: several numba kernels read out of bounds there (not reproducible);
                    # only the None / string / float pattern is compared
                    last, x = C14.pattern(last), C14.pattern(x)
                if n <= indlib.WARMUP and not indlib.same(last, x, rel=1e-9):
                    probs.append({'cls': 'seq-vs-single', 'field': fname, 'what': 'last sequential entry != non-sequential result',
                                  'sequential_last': last, 'single': x})
            if sw is not None and len(sw) >= -idx and n > indlib.WARMUP:
                if not indlib.same(sw[idx], x, rel=1e-9):
                    probs.append({'cls': 'single-vs-window', 'field': fname,
                                  'what': 'non-sequential result != last entry of the sequential result on the trailing 240 candles',
                                  'window_last': sw[idx], 'single': x})
        return 'ok', probs, nontrivial

    @staticmethod
    def pattern(v):
        if v is None or isinstance(v, str):
            return v
        return 1.0          # a float (NaN or not: out-of-bounds reads make even that non-reproducible)

    def oracle(self, res, boost):
        jesse_env.setup()
        inds = indlib.indicators()
        r = self.rng
        big = self.thorough or boost
        lengths = list(LENGTHS_QUICK)
        if big:
            lengths = sorted(set(lengths + [r.randint(50, 238) for _ in range(8)] + [r.randint(242, 700) for _ in range(8)] + [1000]))
        kinds = ['walk', 'spike', 'lattice'] if not big else ['walk', 'spike', 'lattice', 'trend', 'flat', 'alt', 'gappy', 'stall']
        nmax = max(lengths)
        series = {k: indlib.candles(r, nmax, k) for k in kinds}
        plan, skipped = {}, []
        for name, f in inds.items():
            d = indlib.describe(f)
            if not d['sequential']:
                skipped.append(f'{name}: no sequential mode (outside the property)')
                continue
            if d['required']:
                skipped.append(f'{name}: needs extra arguments {d["required"]} (not synthesised)')
                continue
            plan[name] = indlib.variants(name, f, r, n_extra=2 if not big else 6)
        known = [k for k in core.load_known() if k['property'] == 'C14' and k.get('witness', {}).get('candles')]

        def work(task):
            name, short = task
            f = inds[name]
            out = {'counts': {}, 'probs': [], 'traces': []}
            cases = []
            if short is None:
                for kn in known:
                    w = kn['witness']
                    if w.get('indicator') == name and len(w['candles']) >= 50:
                        cases.append((w.get('params', {}), 'witness', indlib.candles_from_json(w['candles'])))
                for kw in plan[name]:
                    for kind in kinds:
                        for L in lengths:
                            cases.append((kw, kind, series[kind][:L]))
            else:
                for kn in known:
                    w = kn['witness']
                    if w.get('indicator') == name and len(w['candles']) == short:
                        cases.append((w.get('params', {}), 'witness', indlib.candles_from_json(w['candles'])))
                for kind in kinds:
                    cases.append(({}, kind, series[kind][:short]))
            for (kw, kind, c) in cases:
                st, probs, nontrivial = C14.eval_case(f, name, kw, c, values=short is None, ties=kind in ('flat', 'alt', 'lattice'))
                out['counts'][st] = out['counts'].get(st, 0) + 1
                out['traces'].append((tuple(sorted(kw.items())), kind, len(c), nontrivial))
                for p in probs:
                    p.update({'kw': kw, 'kind': kind, 'n': len(c)})
                    if len(out['probs']) < 400:
                        out['probs'].append(dict(p, candles=None))
                        # keep the candles of the first problem of each class only (replay input)
                        if not any(q.get('candles') and q['cls'] == p['cls'] for q in out['probs'][:-1]):
                            out['probs'][-1]['candles'] = indlib.jsonable_candles(c)
            return out

        tasks = [(name, None) for name in plan] + [(name, L) for name in plan for L in LENGTHS_SHORT]
        results = indlib.run_isolated(tasks, work, workers=14, timeout=1500 if big else 300)
        modelled = set(indmodel.MODELS)
        for name in plan:
            by_cls = {}
            for task in tasks:
                if task[0] != name:
                    continue
                st, out = results[task]
                if st != 'ok':
                    if task[1] is None:
                        res.notes.append(f'{name}: evaluation {st} ({str(out)[:160]})')
                    else:
                        res.notes.append(f'{name}: the interpreter died on {task[1]} candles (shorter than the look-back; nothing to compare)')
                    res.count('isolated:' + st)
                    continue
                for k2, v in out['counts'].items():
                    res.count('case:' + k2, v)
                for (kw, kind, L, nt) in out['traces']:
                    res.seen((name, kw, kind, L), nt)
                for p in out['probs']:
                    by_cls.setdefault((p['cls'], '1' if indlib.window1(p['kw']) else None), []).append(p)
            for (cls, win), ps in sorted(by_cls.items(), key=lambda kv: (kv[0][0], kv[0][1] or '')):
                flds = sorted({p['field'] for p in ps})
                regimes = sorted({('<=240' if p['n'] <= indlib.WARMUP else '>240') for p in ps})
                first = next((p for p in ps if p.get('candles')), ps[0])
                res.fail(**{'class': f'{cls}/{name}',
                            'input': {'indicator': name, 'params': first['kw'], 'kind': first['kind'], 'n': first['n'],
                                      'candles': first.get('candles')},
                            'observed': {k: v for k, v in first.items() if k not in ('candles', 'kw', 'kind', 'cls')},
                            'expected': 'the three clauses of C14 for every field',
                            'params': dict({'indicator': name, 'fields': ','.join(flds), 'lengths': ','.join(regimes)},
                                           **({'window': win} if win else {})),
                            'metrics': {'cases_failing': len(ps)},
                            'how': first['what']})
            if not by_cls and len(res.samples) < 3:
                res.sample({'indicator': name, 'variants': [str(v) for v in plan[name]][:3], 'lengths': lengths})
        res.notes.append(f'{len(plan)} indicators evaluated, {len(skipped)} outside/skipped: ' + '; '.join(skipped))
        res.notes.append('search only (no theorem; length preservation assumed, examined here): '
                         + ', '.join(sorted(n for n in plan if n not in modelled)))

    def replay(self, doc):
        jesse_env.setup()
        f = doc['failure']
        i = f.get('input')
        if not i or not i.get('candles'):
            print('nothing to replay:', doc.get('no_longer_checks'), json.dumps(doc['failure'].get('correspondence_disagreements', ''))[:800])
            return 1
        inds = indlib.indicators()
        c = indlib.candles_from_json(i['candles'])
        st, probs, _ = C14.eval_case(inds[i['indicator']], i['indicator'], i.get('params', {}), c, values=len(c) >= 50)
        print('indicator:', i['indicator'], 'params:', i.get('params'), 'n:', len(c), 'status:', st)
        for p in probs:
            print('  ', p)
        return 1 if probs else 0


CHECK = C14
