"""C18 — the dynamic array behaves like a growing list of rows."""
import itertools

import core
import jesse_env
import purecorr
from core import wire


def fmt_rows(rows):
    return '[' + ''.join('(' + ' '.join(purecorr.num(x) for x in r) + ')' for r in rows) + ']'


def fmt_row(r):
    return '(' + ' '.join(purecorr.num(x) for x in r) + ')'


class ListModel:
    """the reference of the property: a plain list, with the documented drop-oldest rule"""

    def __init__(self, drop_at=None):
        self.l = []
        self.drop_at = drop_at

    def _drop(self):
        if self.drop_at and len(self.l) != 1 and len(self.l) % self.drop_at == 0:
            self.l = self.l[int(self.drop_at / 2):]

    def append(self, r):
        self.l.append(r)
        self._drop()

    def append_multiple(self, rows):
        self.l.extend(rows)
        self._drop()


class C18(core.Check):
    pid = 'C18'
    unproved = [
        'equal-length slice assignment is proved as a method theorem (C18.refines_setSlice) but is not yet an operation of the history theorem refines_history: sequences containing it are covered by correspondence + list oracle',
    ]
    rule = ('correspondence: seeded operation sequences (append, append_multiple, get, slice, set, setslice, delete, flush, '
            'last, past; buckets 1-5, with/without drop_at; valid and malformed operands) replayed step by step on the real '
            'DynamicNumpyArray and on the Lean model through the line protocol, comparing the full abstract state (length, '
            'capacity, rows) or the error kind after every step; oracle: the real class against a plain Python list '
            '(bounded-exhaustive over short sequences for buckets 1-3, random long sequences); non-trivial = the sequence '
            'crosses a bucket boundary or contains a deletion; distinct = distinct canonical traces')
    assumptions = ['rows are compared as tuples of numbers; NumPy dtype/broadcast corner cases outside equal-length assignment are not part of the property']

    # ------------------------------------------------------------------ op generation
    def gen_ops(self, n, malformed=False, drop=None):
        """mostly-valid operations: indices are drawn inside an estimate of the current length"""
        r = self.rng
        ops = []
        ln = 0
        for _ in range(n):
            k = r.choice(['append'] * 6 + ['append_multiple', 'append_multiple', 'delete', 'delete', 'get', 'slice', 'slice',
                                            'flush', 'setslice', 'set', 'last', 'past', 'append_own', 'append_own'])
            wild = malformed and r.random() < 0.3
            lo, hi = (-ln - 3, ln + 3) if wild else (-ln, ln - 1)

            def idx():
                return r.randint(lo, hi) if lo <= hi else 0
            if k == 'append':
                ops.append(('append',))
                ln += 1
            elif k == 'append_own':
                # append one of the array's OWN rows, handed over as the view the array itself returned (a[i], the last
                # item, a past item): the list keeps the value the row had at that moment
                if ln == 0:
                    continue
                ops.append(('append_own', r.choice(['index', 'last', 'past']), r.randint(-ln, ln - 1)))
                ln += 1
            elif k == 'append_multiple':
                m = r.randint(0 if malformed else 1, 4)
                ops.append(('append_multiple', m))
                ln += m
            elif k == 'delete':
                if ln == 0 and not wild:
                    continue
                ops.append((k, idx()))
                ln = max(ln - 1, 0)
            elif k in ('get', 'set', 'past'):
                if ln == 0 and not wild:
                    continue
                ops.append((k, idx() if k != 'past' else r.randint(0 if not wild else -3, max(ln - 1, 0) + (3 if wild else 0))))
            elif k in ('slice', 'setslice'):
                b = [None] + list(range(-ln - 2, ln + 3))
                ops.append((k, r.choice(b), r.choice(b)))
            elif k == 'flush':
                if r.random() < 0.3:
                    ops.append((k,))
                    ln = 0
            else:
                if ln == 0 and not wild:
                    continue
                ops.append((k,))
            if drop and ln >= drop:
                ln -= int(drop / 2)
        return ops

    # ------------------------------------------------------------------ run on the real class, producing lines + replies
    def run_real(self, bucket, width, drop_at, ops, against_list):
        """returns (lines, replies, verdict) — replies in the driver's format; verdict = property failure or None"""
        import numpy as np
        from jesse.libs import DynamicNumpyArray
        a = DynamicNumpyArray((bucket, width), drop_at=drop_at)
        m = ListModel(drop_at)
        c = 0
        lines = [f'da new {bucket} {width}' + (f' {drop_at}' if drop_at else '')]
        replies = ['ok ' + self.state(a)]
        verdict = None

        def newrow():
            nonlocal c
            c += 1
            return [float(c)] * width

        for op in ops:
            kind = op[0]
            line = None
            reply = None
            try:
                if kind == 'append':
                    row = newrow()
                    line = 'da append ' + ' '.join(wire(x) for x in row)
                    m.append(row)
                    a.append(np.array(row))
                elif kind == 'append_own':
                    how, j = op[1], op[2]
                    if how == 'last':
                        view, row = a.get_last_item(), list(m.l[-1])
                    elif how == 'past':
                        back = min(max(1, abs(j)), len(m.l) - 1)
                        if back < 1:
                            view, row = a.get_last_item(), list(m.l[-1])
                        else:
                            view, row = a.get_past_item(back), list(m.l[-1 - back])
                    else:
                        view, row = a[j], list(m.l[j])
                    line = 'da append ' + ' '.join(wire(x) for x in row)
                    m.append(row)
                    a.append(view)
                elif kind == 'append_multiple':
                    rows = [newrow() for _ in range(op[1])]
                    line = f'da append_multiple {len(rows)} ' + ' '.join(wire(x) for rr in rows for x in rr)
                    m.append_multiple(rows)
                    a.append_multiple(np.array(rows).reshape(len(rows), width))
                elif kind == 'delete':
                    line = f'da delete {op[1]}'
                    valid = True
                    try:
                        del m.l[op[1]]
                    except IndexError:
                        valid = False
                    if against_list and not valid:
                        continue
                    a.delete(op[1], axis=0)
                elif kind == 'get':
                    line = f'da get {op[1]}'
                    try:
                        want = m.l[op[1]]
                    except IndexError:
                        want = 'IndexError'
                    try:
                        got = [float(x) for x in a[op[1]]]
                    except IndexError:
                        got = 'IndexError'
                    reply = 'err IndexError' if got == 'IndexError' else 'ok ' + fmt_row(got)
                    if against_list and got != want:
                        verdict = ('getitem', op, got, want)
                elif kind == 'slice':
                    s = slice(op[1], op[2])
                    line = f'da slice {"_" if op[1] is None else op[1]} {"_" if op[2] is None else op[2]}'
                    got = [[float(x) for x in rr] for rr in a[s]]
                    reply = 'ok ' + fmt_rows(got)
                    if against_list and got != m.l[s]:
                        verdict = ('slice', op, got, m.l[s])
                elif kind == 'flush':
                    line = 'da flush'
                    m.l = []
                    a.flush()
                elif kind == 'setslice':
                    s = slice(op[1], op[2])
                    n = len(m.l[s])
                    if against_list and n == 0:
                        continue
                    rows = [newrow() for _ in range(n if against_list else max(n, 0))]
                    line = (f'da setslice {"_" if op[1] is None else op[1]} {"_" if op[2] is None else op[2]} {len(rows)} '
                            + ' '.join(wire(x) for rr in rows for x in rr)).rstrip()
                    if not rows:
                        continue
                    m.l[s] = rows
                    a[s] = np.array(rows)
                elif kind == 'set':
                    row = newrow()
                    line = f'da set {op[1]} ' + ' '.join(wire(x) for x in row)
                    valid = True
                    try:
                        m.l[op[1]] = row
                    except IndexError:
                        valid = False
                    if against_list and not valid:
                        continue
                    a[op[1]] = np.array(row)
                elif kind == 'last':
                    line = 'da last'
                    try:
                        got = [float(x) for x in a.get_last_item()]
                        reply = 'ok ' + fmt_row(got)
                    except IndexError:
                        got = 'IndexError'
                        reply = 'err IndexError'
                    want = m.l[-1] if m.l else 'IndexError'
                    if against_list and got != want:
                        verdict = ('get_last_item', op, got, want)
                elif kind == 'past':
                    k = op[1]
                    line = f'da past {k}'
                    try:
                        got = [float(x) for x in a.get_past_item(k)]
                        reply = 'ok ' + fmt_row(got)
                    except IndexError:
                        got = 'IndexError'
                        reply = 'err IndexError'
                    if against_list and k >= 0:
                        want = m.l[len(m.l) - 1 - k] if 0 <= len(m.l) - 1 - k < len(m.l) else 'IndexError'
                        if got != want:
                            verdict = ('get_past_item', op, got, want)
            except Exception as e:  # noqa
                reply = 'err ' + purecorr.ERRMAP.get(type(e).__name__, 'Other')
                if against_list:
                    verdict = ('raises', op, repr(e)[:200], 'valid on the list')
            if line is None:
                continue
            if reply is None:
                reply = 'ok ' + self.state(a)
            lines.append(line)
            replies.append(reply)
            if verdict is None and against_list:
                if len(a) != len(m.l):
                    verdict = ('len', op, len(a), len(m.l))
                else:
                    cur = [[float(x) for x in rr] for rr in a[:]]
                    if cur != m.l:
                        verdict = ('content', op, cur, m.l)
            if verdict is not None or reply.startswith('err'):
                break      # a failed operation ends the sequence (the real object may be half-updated)
        return lines, replies, verdict

    @staticmethod
    def state(a):
        n = a.index + 1
        rows = [[float(x) for x in rr] for rr in a.array[:max(n, 0)]]
        return f'len={n} cap={len(a.array)} rows={fmt_rows(rows)}'

    # ------------------------------------------------------------------ correspondence
    def correspondence(self, res, boost):
        jesse_env.setup()
        r = self.rng
        all_lines, all_replies, metas = [], [], []
        nseq = self.budget(300, 6000, boost)
        for t in range(nseq):
            bucket = r.choice([1, 2, 3, 3, 4, 5])
            drop = r.choice([None, None, None, 4, 6, 7])
            malformed = r.random() < 0.25
            ops = self.gen_ops(r.randint(1, 16 if not self.thorough else 40), malformed=malformed, drop=drop)
            lines, replies, _ = self.run_real(bucket, 2, drop, ops, against_list=False)
            metas.append((len(all_lines), len(lines), bucket, drop, ops))
            all_lines += lines
            all_replies += replies
        outs = core.Driver.run(all_lines)
        for (start, n, bucket, drop, ops) in metas:
            trace = []
            ok = True
            for i in range(start, start + n):
                trace.append(all_lines[i].split()[1])
                res.count(all_lines[i].split()[1])
                if outs[i].startswith('err'):
                    res.count('error:' + outs[i].split()[1])
                if not purecorr.tokens_agree(outs[i].replace('(', '( ').replace(')', ' )').replace('[', '[ ').replace(']', ' ]').replace('=', '= '),
                                             all_replies[i].replace('(', '( ').replace(')', ' )').replace('[', '[ ').replace(']', ' ]').replace('=', '= ')):
                    res.fail(**{'class': 'corr/dynarray', 'input': {'bucket': bucket, 'drop_at': drop, 'lines': all_lines[start:i + 1]},
                                'observed_model': outs[i], 'expected_impl': all_replies[i]})
                    ok = False
                    break
            nontrivial = ('delete' in trace) or any('cap=' in o and f'cap={bucket} ' not in o for o in outs[start:start + n])
            res.seen((bucket, drop, tuple(all_lines[start:start + n])), nontrivial)
            if ok:
                res.sample({'bucket': bucket, 'drop_at': drop, 'ops': all_lines[start + 1:start + n][:12], 'final': outs[start + n - 1]})

    # ------------------------------------------------------------------ oracle
    def oracle(self, res, boost):
        jesse_env.setup()
        r = self.rng
        known = [k for k in core.load_known() if k['property'] == 'C18']
        seqs = []
        for k in known:
            w = k['witness']
            seqs.append((w['bucket'], w.get('drop_at'), [tuple(o) for o in w['ops']]))
        # bounded-exhaustive: all sequences up to length L over a small alphabet, buckets 1..3
        alphabet = [('append',), ('append_multiple', 2), ('delete', 0), ('delete', -1), ('slice', -2, None), ('slice', None, -1),
                    ('get', -1), ('setslice', -2, None), ('flush',)]
        L = 5 if (self.thorough or boost) else 4
        for bucket in (1, 2, 3):
            for n in range(1, L + 1):
                for ops in itertools.product(alphabet, repeat=n):
                    seqs.append((bucket, None, list(ops)))
        self.exhaustive_count = len(seqs)
        for t in range(self.budget(2000, 60000, boost)):
            bucket = r.choice([1, 2, 3, 5, 10])
            drop = r.choice([None, None, None, 4, 6, 7, 10])
            seqs.append((bucket, drop, self.gen_ops(r.randint(1, 30 if not self.thorough else 80), drop=drop)))
        for (bucket, drop, ops) in seqs:
            lines, replies, verdict = self.run_real(bucket, 2, drop, ops, against_list=True)
            kinds = [l.split()[1] for l in lines]
            res.seen((bucket, drop, tuple(lines)), 'delete' in kinds or len(kinds) > bucket)
            res.count('seq-len:' + str(min(len(ops), 10) // 5 * 5))
            if verdict is not None:
                what0 = verdict[0]

                def still(cand, bucket=bucket, drop=drop, what0=what0):
                    v = self.run_real(bucket, 2, drop, cand, against_list=True)[2]
                    return v is not None and v[0] == what0
                if len(res.failures) < 3:
                    ops = core.shrink_list(ops, still)
                    verdict = self.run_real(bucket, 2, drop, ops, against_list=True)[2]
                what, op, got, want = verdict
                uses_drop = drop is not None
                res.fail(**{'class': f'dynarray/{what}' + ('+drop_at' if uses_drop else ''),
                            'input': {'bucket': bucket, 'drop_at': drop, 'ops': [list(o) for o in ops]},
                            'observed': got, 'expected': want,
                            'params': {'op': op[0], 'drop_at_set': uses_drop}})
            elif len(res.samples) < 4 and len(ops) > 4:
                res.sample({'bucket': bucket, 'drop_at': drop, 'ops': lines[1:10], 'final': replies[-1]})

    def replay(self, doc):
        jesse_env.setup()
        f = doc['failure']
        if not f.get('input'):
            print('nothing to replay:', doc.get('no_longer_checks'))
            return 1
        i = f['input']
        if 'ops' in i:
            lines, replies, verdict = self.run_real(i['bucket'], 2, i.get('drop_at'), [tuple(o) for o in i['ops']], True)
            for l, rp in zip(lines, replies):
                print(l, '->', rp)
            print('verdict:', verdict)
        return 1


CHECK = C18
