"""C16 — reported metrics are consistent with the trades and the equity series.

correspondence: the Lean model (lean/Jesse/Metrics.lean, `mt …` commands of the driver) against
  * the real `jesse.services.metrics.trades` on structured synthetic trade lists (stand-ins for ClosedTrade:
    `trades` reads only `t.to_dict`), every returned key that depends on the list;
  * the real ratio helpers through `trades(..., daily_balance)` on synthetic balance series (max drawdown
    exactly; Sharpe/Sortino/annual return/Calmar/Omega recomposed in floats from the model's exact
    mean / variance / downside mean square / growth / years);
  * real backtests: which loop indices record a sample (both simulators) and what each sample records
    given the account snapshot taken at the sampling call.
oracle: the property itself on the real code — identities recomputed independently with Fractions,
  standard-definition ratios (365-day year) recomputed from the balances, drawdown <= 0, and on real
  backtests (futures/spot, 1-2 routes, 1-6 days, both simulators) the equity series captured by wrapping
  `save_daily_portfolio_balance`: starts at the starting balance, one sample per day plus the final one,
  each sample = account equity recomputed from wallet / positions / resting orders, ends at the final value.
"""
import itertools
import math
import sys
import traceback
from fractions import Fraction

import bt
import core
import jesse_env
import purecorr
from core import fr, wire

if hasattr(sys, 'set_int_max_str_digits'):
    sys.set_int_max_str_digits(0)      # exact rationals of long balance series have thousands of digits

T0 = bt.T0_aligned()
TF_MIN = {'1m': 1, '5m': 5, '15m': 15, '30m': 30, '1h': 60, '2h': 120, '4h': 240, '6h': 360, '1D': 1440, '3D': 4320}
SYMS = ['BTC-USDT', 'ETH-USDT', 'SOL-USDT']

# inputs on which the defects repaired by 5df2a81f / 8600f13b (drawdown, Calmar, Sortino) and 34cd8255 (spot
# sample) used to show; they stay in every run so that a regression is reported with the old failure class
REGRESSION_BALANCES = [[100.0, 90.0, 95.0], [100.0, 99.0], [1000.0, 965.09, 977.3], [100.0, 95.85, 91.3, 88.82]]
REGRESSION_SESSIONS = [
    {'type': 'spot', 'fee': 0.0, 'balance': 10000.0, 'leverage': 1, 'routes': [
        {'symbol': 'BTC-USDT', 'timeframe': '1h', 'strategy': {'side': 'long', 'period': 90, 'enter_at': 5, 'exit_at': 6, 'qty': 5.0, 'offset': 30.0}},
        {'symbol': 'ETH-USDT', 'timeframe': '1h', 'strategy': {'side': 'long', 'period': 90, 'enter_at': 5, 'exit_at': 6, 'qty': 2.0, 'offset': 30.0}}],
     'minutes': 2880, 'fast': False, 'candle_seed': 11},
    {'type': 'spot', 'fee': 0.0, 'balance': 10000.0, 'leverage': 1, 'routes': [
        {'symbol': 'ETH-USDT', 'timeframe': '15m', 'strategy': {'side': 'long', 'period': 90, 'enter_at': 7, 'exit_at': 8, 'qty': 1.0, 'offset': 30.0}},
        {'symbol': 'SOL-USDT', 'timeframe': '1h', 'strategy': {'side': 'long', 'period': 90, 'enter_at': 3, 'exit_at': 4, 'qty': 10.0, 'offset': 30.0}},
        {'symbol': 'BTC-USDT', 'timeframe': '4h', 'strategy': {'side': 'long', 'period': 90, 'enter_at': 2, 'exit_at': 3, 'qty': 2.0, 'offset': 30.0}}],
     'minutes': 4320, 'fast': True, 'candle_seed': 5},
]

# (token of the driver reply, key of the dict returned by metrics.trades)
KEYS = [('total', 'total'), ('winners', 'total_winning_trades'), ('losers', 'total_losing_trades'),
        ('win_rate', 'win_rate'), ('ratio_avg_win_loss', 'ratio_avg_win_loss'), ('longs_count', 'longs_count'),
        ('longs_percentage', 'longs_percentage'), ('shorts_percentage', 'shorts_percentage'),
        ('shorts_count', 'shorts_count'), ('fee', 'fee'), ('net_profit', 'net_profit'),
        ('net_profit_percentage', 'net_profit_percentage'), ('average_win', 'average_win'),
        ('average_loss', 'average_loss'), ('expectancy', 'expectancy'),
        ('expectancy_percentage', 'expectancy_percentage'),
        ('expected_net_profit_every_100_trades', 'expected_net_profit_every_100_trades'),
        ('average_holding_period', 'average_holding_period'),
        ('average_winning_holding_period', 'average_winning_holding_period'),
        ('average_losing_holding_period', 'average_losing_holding_period'),
        ('gross_profit', 'gross_profit'), ('gross_loss', 'gross_loss'), ('streak_win', 'winning_streak'),
        ('streak_lose', 'losing_streak'), ('largest_losing_trade', 'largest_losing_trade'),
        ('largest_winning_trade', 'largest_winning_trade'), ('current', 'current_streak')]


class TradeStub:
    """what `metrics.trades` reads from a ClosedTrade: the `to_dict` property (columns PNL, type, fee,
    holding_period; the other columns are carried along as in the real dict)"""
    __slots__ = ('to_dict',)

    def __init__(self, i, pnl, typ, fee, hp):
        self.to_dict = {'id': i, 'strategy_name': 'S', 'symbol': 'BTC-USDT', 'exchange': 'Sandbox', 'type': typ,
                        'entry_price': 100.0, 'exit_price': 100.0, 'qty': 1.0, 'opened_at': T0, 'closed_at': T0 + hp * 1000,
                        'fee': fee, 'size': 100.0, 'PNL': pnl, 'PNL_percentage': pnl, 'holding_period': hp}


def spaced(s):
    return s.replace('=', '= ').replace('[', '[ ').replace(']', ' ]')


def isnan(x):
    return isinstance(x, float) and x != x


def relclose(a, b, rel):
    if isnan(a) or isnan(b):
        return isnan(a) and isnan(b)
    if math.isinf(a) or math.isinf(b):
        return a == b
    return abs(a - b) <= rel * max(1.0, abs(a), abs(b))


def sign_runs(pnls):
    """independent of the code's vectorised formula: group consecutive equal signs"""
    groups = [(s, len(list(g))) for s, g in itertools.groupby((p > 0) - (p < 0) for p in pnls)]
    win = max([n for s, n in groups if s > 0], default=0)
    lose = max([n for s, n in groups if s < 0], default=0)
    cur = groups[-1][0] * groups[-1][1] if groups else 0
    return win, lose, cur


def std_ratios(bal):
    """standard definitions on the daily equity returns, 365-day year; None = undefined"""
    b = [float(x) for x in bal]
    n = len(b) - 1
    rets = [b[i + 1] / b[i] - 1 for i in range(n)]
    out = {}
    peak = b[0]
    dd = 0.0
    for x in b:
        peak = max(peak, x)
        dd = min(dd, x / peak - 1)
    out['max_drawdown'] = dd * 100
    peak = b[1]
    dd1 = 0.0
    for x in b[1:]:
        peak = max(peak, x)
        dd1 = min(dd1, x / peak - 1)
    out['max_drawdown_without_start'] = dd1 * 100
    try:
        cagr = (b[-1] / b[0]) ** (365.0 / n) - 1
    except OverflowError:
        cagr = None
    out['annual_return'] = None if cagr is None else cagr * 100
    mean = math.fsum(rets) / n
    out['mean'] = mean
    if n >= 2:
        var = math.fsum((r - mean) ** 2 for r in rets) / (n - 1)
        sd = math.sqrt(var)
        out['sharpe_ratio'] = mean / sd * math.sqrt(365) if sd > 1e-12 * max(1.0, abs(mean)) and sd > 1e-9 * abs(mean) else None
    else:
        out['sharpe_ratio'] = None
    dsq = math.fsum(r * r for r in rets if r < 0)
    out['sortino_ratio'] = mean / math.sqrt(dsq / n) * math.sqrt(365) if dsq > 0 else None
    out['sortino_ratio_n_plus_1'] = mean / math.sqrt(dsq / (n + 1)) * math.sqrt(365) if dsq > 0 else None
    out['calmar_ratio'] = cagr / abs(dd) if (cagr is not None and dd != 0) else None
    out['calmar_ratio_without_start'] = (cagr / abs(dd1) if dd1 != 0 else 0.0) if cagr is not None else None
    gains = math.fsum(r for r in rets if r > 0)
    losses = -math.fsum(r for r in rets if r < 0)
    out['omega_ratio'] = gains / losses if losses > 0 else None
    out['has_negative_return'] = dsq > 0
    return out


class C16(core.Check):
    pid = 'C16'
    gen_keys = []
    rule = ('correspondence: structured synthetic trade lists (all wins / all losses / all zero / one trade / alternating / '
            'blocks of runs / random mixes with zeros / long-only / short-only; PnL on a dyadic k/8 or decimal k/100 lattice; '
            'up to thousands of trades) through the real metrics.trades (stand-ins exposing to_dict) and through the Lean model '
            '(`mt trades`), all 27 list-dependent keys compared token-wise (ints exactly, floats 1e-9 relative, NaN as nan); '
            'synthetic balance series through the real ratio helpers and `mt max_drawdown` / `mt returns`; sampled loop indices '
            'and sample values of real backtests against `mt equity_samples` / `mt futures_sample` / `mt spot_sample`. '
            'oracle: identities recomputed with Fractions on the real output; standard-definition ratios (365-day year) '
            'recomputed from the balances; drawdown <= 0; real backtests (futures and spot, 1-2 routes, 1-6 days, step and fast '
            'simulator, timeframes 1m..3D) with save_daily_portfolio_balance wrapped: start, count, value of each sample '
            'against the equity recomputed from wallet, positions and resting orders, end. non-trivial = a trade list with a '
            'sign change or a zero / a balance series with a loss day / a session in which a sample was taken with an open '
            'position or a resting order; distinct = distinct canonical inputs')
    assumptions = [
        'sqrt and real powers are not modelled in Lean: Sharpe, Sortino, annual return and Calmar are recomposed in floats by the '
        'harness from the model\'s exact mean, sample variance, downside mean square, growth factor and year fraction',
        'metrics.trades is driven with stand-ins for ClosedTrade that expose the to_dict it reads; ClosedTrade.pnl/fee/holding_period '
        'themselves belong to C06',
        'research.backtest is called with jh.CACHED_CONFIG cleared before each session (the stale-memo defect belongs to C11)',
    ]

    # ================================================================== real metrics.trades
    _env_ready = False

    def metrics_env(self, sb):
        """a store whose single exchange reports `sb` as starting balance (what `trades` reads besides the list)"""
        jesse_env.setup()
        if not self._env_ready:
            import acct
            self._sess = acct.Session('futures', sb, 0.0)
            C16._env_ready = True
        from jesse.store import store
        ex = self._sess.exchange if self._sess.exchange in store.exchanges.storage.values() else None
        if ex is None:      # a backtest reset the store in between
            import acct
            self._sess = acct.Session('futures', sb, 0.0)
            ex = self._sess.exchange
        q = ex.settlement_currency
        ex.starting_assets[q] = sb
        ex.assets[q] = sb
        store.app.starting_time = T0
        store.app.total_open_trades = 0
        store.app.total_open_pl = 0

    def real_trades(self, sb, trades, balances=None):
        self.metrics_env(sb)
        from jesse.services import metrics
        stubs = [TradeStub(i, *t) for i, t in enumerate(trades)]
        return metrics.trades(stubs, list(balances) if balances is not None else [sb, sb])

    @staticmethod
    def reply_of(m):
        if 'total_winning_trades' not in m:
            return 'ok empty ' + ' '.join(f'{k}={purecorr.num(m[k])}' for k in ('total', 'win_rate', 'net_profit_percentage'))
        return 'ok ' + ' '.join(f'{tok}={purecorr.num(m[key])}' for tok, key in KEYS)

    @staticmethod
    def trades_line(sb, trades):
        return f'mt trades {wire(sb)} {len(trades)}' + ''.join(f' {wire(p)} {t} {wire(f)} {wire(h)}' for p, t, f, h in trades)

    # ------------------------------------------------------------------ generators
    def gen_trade_list(self, nmax):
        r = self.rng
        lattice = r.choice(['dyadic', 'dyadic', 'decimal'])

        def amount(lo, hi):
            if lattice == 'dyadic':
                return r.randint(int(lo * 8), int(hi * 8)) / 8
            return r.randint(int(lo * 100), int(hi * 100)) / 100

        def win():
            return amount(0.125, 400) or 0.125

        def loss():
            return -(amount(0.125, 400) or 0.125)
        kind = r.choice(['all_wins', 'all_losses', 'all_zero', 'one', 'alternating', 'blocks', 'blocks', 'random', 'random',
                         'random_zeros', 'ends_zero', 'starts_zero', 'tiny', 'sum_zero'])
        n = 1 if kind == 'one' else r.choice([1, 2, 3, r.randint(2, 12), r.randint(2, nmax)])
        if kind == 'all_wins':
            pn = [win() for _ in range(n)]
        elif kind == 'all_losses':
            pn = [loss() for _ in range(n)]
        elif kind == 'all_zero':
            pn = [0.0] * n
        elif kind == 'one':
            pn = [r.choice([win(), loss(), 0.0])]
        elif kind == 'alternating':
            s = r.choice([1, -1])
            pn = [win() if (i % 2 == 0) == (s > 0) else loss() for i in range(n)]
        elif kind == 'blocks':
            pn = []
            while len(pn) < n:
                k = r.randint(1, max(1, min(9, n)))
                f = r.choice([win, loss, lambda: 0.0])
                pn += [f() for _ in range(k)]
            pn = pn[:n]
        elif kind == 'random':
            pn = [r.choice([win, loss])() for _ in range(n)]
        elif kind == 'random_zeros':
            pn = [r.choice([win, loss, lambda: 0.0])() for _ in range(n)]
        elif kind == 'ends_zero':
            pn = [r.choice([win, loss])() for _ in range(n)] + [0.0]
        elif kind == 'starts_zero':
            pn = [0.0] + [r.choice([win, loss])() for _ in range(n)]
        elif kind == 'tiny':
            pn = [r.choice([0.125, -0.125, 0.0, 0.5, -0.5, 1.0, -1.0, 2.0, -2.0]) for _ in range(n)]
        else:   # sum_zero: pairs that cancel
            pn = []
            for _ in range(max(1, n // 2)):
                w = win()
                pn += [w, -w]
            r.shuffle(pn)
        types = r.choice(['mix', 'mix', 'long', 'short'])
        out = []
        for p in pn:
            t = types if types != 'mix' else r.choice(['long', 'short'])
            fee = r.choice([0.0, r.randint(0, 640) / 64])
            hp = float(60 * r.randint(1, 3000))
            out.append((float(p), t, fee, hp))
        sb = r.choice([100.0, 1000.0, 10000.0, 12345.5, 2500.25, 250000.0])
        return kind + '/' + types + '/' + lattice, sb, out

    def gen_balances(self, nmax):
        r = self.rng
        kind = r.choice(['up', 'down', 'drop_recover', 'walk', 'walk', 'flat', 'first_below', 'first_above', 'two'])
        n = 2 if kind == 'two' else r.choice([2, 3, 4, r.randint(3, 12), r.randint(3, nmax)])
        b0 = r.choice([100.0, 1000.0, 10000.0, 5000.5])

        def nxt(x, lo, hi):
            return max(1.0, round(x * (1 + r.uniform(lo, hi)), 2))
        bal = [b0]
        for i in range(1, n):
            x = bal[-1]
            if kind == 'up':
                bal.append(nxt(x, 0.0, 0.05))
            elif kind == 'down':
                bal.append(nxt(x, -0.05, 0.0))
            elif kind == 'flat':
                bal.append(x)
            elif kind == 'drop_recover':
                bal.append(nxt(x, -0.1, -0.01) if i == 1 else nxt(x, 0.0, 0.04))
            elif kind == 'first_below':
                bal.append(nxt(x, -0.1, -0.001) if i == 1 else nxt(x, -0.03, 0.04))
            elif kind == 'first_above':
                bal.append(nxt(x, 0.001, 0.1) if i == 1 else nxt(x, -0.04, 0.03))
            else:
                bal.append(nxt(x, -0.06, 0.06))
        return kind, bal

    # ================================================================== real backtests
    _wrapped = False
    _rec = []
    _orders = []
    _steps = []

    def install_wrappers(self):
        jesse_env.setup()
        if C16._wrapped:
            return
        import jesse.helpers as jh
        import jesse.modes.backtest_mode as bm
        from jesse.store import store
        from jesse.store.state_orders import OrdersState
        orig_save = bm.save_daily_portfolio_balance
        orig_step = bm._calculate_minimum_candle_step
        orig_add = OrdersState.add_order

        def save(is_initial=False):
            orig_save(is_initial)
            e, = store.exchanges.storage.values()
            q = e.settlement_currency
            snap = {'value': float(store.app.daily_balance[-1]), 'initial': bool(is_initial),
                    'elapsed': int(round((store.app.time - store.app.starting_time) / 60_000)),
                    'type': e.type, 'free': float(e.assets[q]), 'positions': [], 'reserved': {}}
            for key, p in store.positions.storage.items():
                base = jh.base_asset(p.symbol)
                snap['positions'].append({
                    'symbol': p.symbol, 'qty': float(p.qty), 'open': bool(p.is_open),
                    'entry': None if p.entry_price is None else float(p.entry_price),
                    'price': None if p.current_price is None else float(p.current_price),
                    'pnl': float(p.pnl), 'base': float(e.assets.get(base, 0.0))})
                snap['reserved'][p.symbol] = 0.0
            if e.type == 'spot':
                for o in C16._orders:
                    if o.side == 'buy' and o.is_active:
                        snap['reserved'][o.symbol] = snap['reserved'].get(o.symbol, 0.0) + abs(o.qty) * o.price
            C16._rec.append(snap)

        def step():
            c = orig_step()
            C16._steps.append(int(c))
            return c

        def add_order(self_, order):
            C16._orders.append(order)
            return orig_add(self_, order)

        bm.save_daily_portfolio_balance = save
        bm._calculate_minimum_candle_step = step
        OrdersState.add_order = add_order
        C16._wrapped = True

    @staticmethod
    def make_strategy(p, name):
        from jesse.strategies import Strategy

        class Scripted(Strategy):
            def _go(self):
                return self.index % p['period'] == p['enter_at']

            def should_long(self):
                return p['side'] == 'long' and self._go()

            def should_short(self):
                return p['side'] == 'short' and self._go()

            def go_long(self):
                self.buy = p['qty'], self.price - p['offset']

            def go_short(self):
                self.sell = p['qty'], self.price + p['offset']

            def should_cancel_entry(self):
                return False

            def update_position(self):
                if self.index % p['period'] == p['exit_at']:
                    self.liquidate()
        Scripted.__name__ = name
        return Scripted

    @staticmethod
    def candle_rows(n, seed):
        """a gap-free sinusoid on the k/8 lattice (open = previous close)"""
        import random
        r = random.Random(seed)
        base = r.choice([80.0, 100.0, 120.0])
        amp = r.choice([4.0, 8.0, 12.0])
        per = r.choice([97.0, 240.0, 400.0, 900.0])
        ph = r.uniform(0, 6.28)
        rows = []
        prev = round((base + amp * math.sin(ph)) * 8) / 8
        for i in range(n):
            c = round((base + amp * math.sin(ph + (i + 1) / per)) * 8) / 8
            rows.append((prev, c, max(prev, c) + 0.125, min(prev, c) - 0.125, 10.0))
            prev = c
        return rows

    def gen_session(self, force=None):
        r = self.rng
        force = force or {}
        typ = force.get('type', r.choice(['futures', 'spot']))
        nroutes = force.get('routes', r.choice([1, 2, 2, 3]))
        fast = force.get('fast', r.random() < 0.5)
        tfs = [force.get('tf') or r.choice(['5m', '15m', '1h', '1h', '4h', '4h', '1D', '1m' if r.random() < 0.3 else '30m'])
               for _ in range(nroutes)]
        big = max(TF_MIN[t] for t in tfs)
        days = force.get('days', r.choice([1, 2, 3, 4, 5]))
        n = days * 1440
        if big < 1440 and r.random() < 0.35 and 'days' not in force:     # sessions that do not end on a day boundary
            n += big * r.randint(1, max(1, 1440 // big - 1))
        if '1m' in tfs and not self.thorough:
            n = min(n, 2 * 1440 + (n % 1440))
        n -= n % big
        routes = []
        syms = SYMS[:nroutes]
        r.shuffle(syms)         # any order of routes
        for i, tf in enumerate(tfs):
            total = n // TF_MIN[tf]
            period = max(2, min(total, r.choice([2, 3, 5, 8, 13, 21, 40, 90])))
            enter_at = r.randint(0, period - 1)
            exit_at = r.choice([x for x in range(period) if x != enter_at])
            side = 'long' if typ == 'spot' else r.choice(['long', 'short'])
            routes.append({'symbol': syms[i], 'timeframe': tf, 'strategy': {
                'side': side, 'period': period, 'enter_at': enter_at, 'exit_at': exit_at,
                'qty': float(r.choice([1, 2, 5, 10])), 'offset': r.choice([0.0, 0.0, 1.0, 3.0, 6.0, 30.0])}})
        return {'type': typ, 'fee': r.choice([0.0, 1 / 1024]), 'balance': 10000.0, 'leverage': r.choice([1, 2, 5]),
                'routes': routes, 'minutes': n, 'fast': fast, 'candle_seed': r.randint(0, 10**6)}

    def run_session(self, spec):
        """run the real research.backtest; returns {'samples','chunk','metrics','error','order'}"""
        self.install_wrappers()
        import jesse.helpers as jh
        jh.CACHED_CONFIG.clear()
        C16._rec = []
        C16._orders = []
        C16._steps = []
        routes = [(rt['symbol'], rt['timeframe'], self.make_strategy(rt['strategy'], f'Scripted{i}'))
                  for i, rt in enumerate(spec['routes'])]
        candles = {rt['symbol']: bt.make_candles(self.candle_rows(spec['minutes'], spec['candle_seed'] + 7919 * i), T0)
                   for i, rt in enumerate(spec['routes'])}
        out = {'samples': None, 'chunk': None, 'metrics': None, 'error': None}
        try:
            res = bt.run(bt.config(spec['type'], spec['balance'], spec['fee'], leverage=spec['leverage']), routes, [], candles,
                         fast_mode=spec['fast'])
            out['metrics'] = res.get('metrics')
        except Exception as e:  # noqa
            tb = traceback.format_exc()
            out['error'] = {'type': type(e).__name__, 'text': str(e)[:300],
                            'in_metrics_code': any(x in tb for x in ('services/metrics.py', 'modes/utils.py', 'services/report.py'))}
            try:
                from jesse.config import reset_config
                from jesse.store import store
                reset_config()
                store.reset()
            except Exception:  # noqa
                pass
        out['samples'] = C16._rec
        out['chunk'] = C16._steps[-1] if C16._steps else None
        return out

    # ------------------------------------------------------------------ independent equity of a snapshot
    @staticmethod
    def equity_of(snap):
        if snap['type'] == 'futures':
            eq = Fraction(repr(snap['free']))
            for p in snap['positions']:
                if p['open'] and p['entry'] is not None and p['price'] is not None:
                    eq += fr(p['qty']) * (fr(p['price']) - fr(p['entry']))
            return float(eq)
        eq = snap['free'] + math.fsum(snap['reserved'].values())
        for p in snap['positions']:
            if p['price'] is not None:
                eq += p['base'] * p['price']
        return eq

    def session_cache(self, boost):
        """sessions are run once and shared by the correspondence and the oracle pass"""
        if getattr(self, '_sessions', None) is not None:
            return self._sessions
        specs = [dict(x) for x in REGRESSION_SESSIONS]
        # witnesses of the known findings first (deterministic)
        for k in core.load_known():
            if k['property'] == 'C16' and k.get('witness', {}).get('session'):
                specs.append(k['witness']['session'])
        # a fixed grid: type x routes x simulator x days 1..5
        for typ in ('futures', 'spot'):
            for nr in (1, 2):
                for fast in (False, True):
                    for days in (1, 2, 3, 4, 5):
                        specs.append(self.gen_session({'type': typ, 'routes': nr, 'fast': fast, 'days': days}))
        # chunks longer than a day (3D-only routes): 3 and 6 days
        for typ in ('futures', 'spot'):
            for days in (3, 6):
                for fast in (False, True):
                    specs.append(self.gen_session({'type': typ, 'routes': 1, 'fast': fast, 'days': days, 'tf': '3D'}))
        for _ in range(self.budget(60, 1500, boost)):
            specs.append(self.gen_session())
        self._sessions = [(s, self.run_session(s)) for s in specs]
        return self._sessions

    # ================================================================== correspondence
    def correspondence(self, res, boost):
        jesse_env.setup()
        lines, expect, meta = [], [], []
        # ---- trade lists
        n = self.budget(400, 6000, boost)
        nmax = 60 if not (self.thorough or boost) else 400
        cases = []
        for i in range(n):
            cases.append(self.gen_trade_list(nmax))
        for big in ([2000, 3500] if not (self.thorough or boost) else [2000, 5000, 10000, 20000]):
            cases.append(self.gen_trade_list(big))
            lab, sb, tl = self.gen_trade_list(10)
            reps = (big // max(1, len(tl))) + 1
            cases.append(('repeated/' + lab, sb, (tl * reps)[:big]))
        cases.append(('empty', 10000.0, []))
        for lab, sb, tl in cases:
            try:
                m = self.real_trades(sb, tl)
                rep = self.reply_of(m)
            except Exception as e:  # noqa
                rep = 'err ' + type(e).__name__
            lines.append(self.trades_line(sb, tl))
            expect.append(rep)
            meta.append(('trades', lab, sb, tl))
        # ---- balance series
        nb = self.budget(150, 3000, boost)
        stub = [(1.0, 'long', 0.0, 60.0)]
        for i in range(nb):
            kind, bal = self.gen_balances(40 if not (self.thorough or boost) else 400)
            m = self.real_trades(bal[0], stub, bal)
            lines.append('mt max_drawdown ' + ' '.join(wire(x) for x in bal))
            expect.append('ok ' + purecorr.num(m['max_drawdown']))
            meta.append(('max_drawdown', kind, bal, None))
            if len(bal) <= 120:
                lines.append('mt returns ' + ' '.join(wire(x) for x in bal))
                expect.append(m)
                meta.append(('returns', kind, bal, None))
        # ---- sessions: where samples are taken, what they record
        for spec, out in self.session_cache(boost):
            if out['error'] is not None or not out['samples']:
                continue
            samples = out['samples']
            c = out['chunk'] if spec['fast'] else None
            if spec['fast'] and c is None:
                continue
            if spec['fast']:
                lines.append('mt chunk ' + ' '.join(rt['timeframe'] for rt in spec['routes']))
                expect.append(f'ok {c}')
                meta.append(('chunk', spec, None, None))
            lines.append(f'mt equity_samples {spec["minutes"]} ' + (str(c) if spec['fast'] else 'step'))
            idx = [(s['elapsed'] - c) if spec['fast'] else (s['elapsed'] - 1) for s in samples[1:-1]]
            expect.append(f'ok count={len(samples)} idx=[' + ' '.join(str(i) for i in idx) + ']')
            meta.append(('equity_samples', spec, None, None))
            for s in samples:
                if s['type'] == 'futures':
                    lines.append(f'mt futures_sample {wire(s["free"])} {len(s["positions"])}'
                                 + ''.join(f' {1 if p["open"] else 0} {wire(p["pnl"])}' for p in s['positions']))
                else:
                    lines.append(f'mt spot_sample {wire(s["free"])} {len(s["positions"])}'
                                 + ''.join(f' {wire(s["reserved"].get(p["symbol"], 0.0))} '
                                           f'{wire(p["base"] * p["price"] if p["price"] is not None else 0.0)}'
                                           for p in s['positions']))
                expect.append('ok ' + purecorr.num(s['value']))
                meta.append(('sample_value', spec, s, None))
        outs = core.Driver.run(lines)
        last_dd = None
        for line, out, exp, (what, a, b, c) in zip(lines, outs, expect, meta):
            res.count('corr:' + what)
            if what == 'max_drawdown':
                last_dd = out
            if what == 'returns':
                ok, detail = self.compare_returns(out, exp, last_dd)
                res.seen((what, tuple(b)), any(b[i + 1] < b[i] for i in range(len(b) - 1)))
                if not ok:
                    res.fail(**{'class': 'corr/metrics/returns', 'input': {'balances': b}, 'observed_model': out,
                                'expected_impl': detail})
                continue
            agree = purecorr.tokens_agree(spaced(out), spaced(exp))
            if what == 'trades':
                pn = [t[0] for t in c]
                signs = {(p > 0) - (p < 0) for p in pn}
                res.seen((what, b, tuple(c)), len(signs) > 1 or 0 in signs)
                res.count('trades:' + a.split('/')[0])
                res.count('trades-len:' + ('0' if not c else '1' if len(c) == 1 else '2-9' if len(c) < 10 else '10-99' if len(c) < 100
                                            else '100-999' if len(c) < 1000 else '1000+'))
                if agree and 3 <= len(c) <= 6:
                    res.sample({'request': line, 'model': out[:400]}, cap=2)
            elif what == 'max_drawdown':
                res.seen((what, tuple(b)), any(b[i + 1] < b[i] for i in range(len(b) - 1)))
            else:
                res.seen((what, line), True)
            if not agree:
                inp = {'starting_balance': b, 'trades': c[:50], 'n': len(c)} if what == 'trades' else \
                      {'balances': b} if what == 'max_drawdown' else {'session': a, 'sample': b}
                res.fail(**{'class': 'corr/metrics/' + what, 'input': inp, 'request': line[:2000], 'observed_model': out[:1500],
                            'expected_impl': exp[:1500]})

    @staticmethod
    def compare_returns(out, m, dd_reply=None):
        """model ingredients (exact) recomposed in floats vs the real ratio helpers"""
        if not out.startswith('ok '):
            return False, out
        kv = dict(t.split('=') for t in out.split()[1:])

        def val(k):
            return float('nan') if kv[k] == 'nan' else float(Fraction(kv[k]))
        mean, var, dsq, growth, years = val('mean'), val('var'), val('downside_sq'), val('growth'), val('years')
        model = {}
        model['sharpe_ratio'] = mean / math.sqrt(var) * math.sqrt(365) if (var == var and var > 0) else None
        if dsq > 0:
            model['sortino_ratio'] = mean / math.sqrt(dsq) * math.sqrt(365)
        else:
            model['sortino_ratio'] = float('inf') if mean > 0 else float('-inf')
        try:
            cagr = growth ** (1 / years) - 1 if years > 0 else 0.0
        except OverflowError:
            cagr = None
        model['annual_return'] = None if cagr is None else cagr * 100
        model['omega_ratio'] = val('omega')
        cdd = val('calmar_dd')
        if cdd == cdd and cagr is not None:      # calmar_ratio: `cagr / max_dd if max_dd != 0 else 0`
            model['calmar_ratio'] = cagr / cdd if cdd != 0 else 0.0
        if dd_reply and dd_reply.startswith('ok ') and dd_reply != 'ok nan' and cdd == cdd:
            if not relclose(abs(float(Fraction(dd_reply.split()[1])) / 100), cdd, 1e-9):
                return False, {'calmar_dd': cdd, 'max_drawdown': dd_reply}
        bad = {}
        for k, v in model.items():
            if v is None:
                continue
            x = float(m[k])
            if k == 'sharpe_ratio' and (isnan(x) or math.isinf(x) or abs(var) < 1e-18):
                continue
            if not relclose(x, v, 1e-6):
                bad[k] = {'impl': x, 'model': v}
        return (not bad), bad

    # ================================================================== oracle
    def oracle(self, res, boost):
        jesse_env.setup()
        self.oracle_identities(res, boost)
        self.oracle_ratios(res, boost)
        self.oracle_sessions(res, boost)

    # ------------------------------------------------------------------ identities on trade lists
    def identity_failures(self, m, sb, tl):
        """[(name, observed, expected)] — every clause of the property about the trade list"""
        bad = []
        F = Fraction
        pn = [F(repr(t[0])) for t in tl]
        fees = [F(repr(t[2])) for t in tl]
        hps = [F(repr(t[3])) for t in tl]
        if not tl:
            if m.get('total') != 0:
                bad.append(('total', m.get('total'), 0))
            return bad
        W = sum(1 for p in pn if p > 0)
        L = sum(1 for p in pn if p < 0)
        Z = sum(1 for p in pn if p == 0)
        gp = sum((p for p in pn if p > 0), F(0))
        gl = sum((p for p in pn if p < 0), F(0))
        net = sum(pn, F(0))
        longs = sum(1 for t in tl if t[1] == 'long')
        shorts = sum(1 for t in tl if t[1] == 'short')

        def eq_int(name, got, want):
            if got != want or isinstance(got, float):
                bad.append((name, got, want))

        def eq_num(name, got, want, rel=1e-9):
            if want is None:
                if not isnan(got):
                    bad.append((name, got, 'nan'))
                return
            if isnan(got) or not relclose(float(got), float(want), rel):
                bad.append((name, got, float(want)))
        eq_int('total', m['total'], len(tl))
        eq_int('total_winning_trades', m['total_winning_trades'], W)
        eq_int('total_losing_trades', m['total_losing_trades'], L)
        eq_int('total=winners+losers+break-even', m['total'], m['total_winning_trades'] + m['total_losing_trades'] + Z)
        eq_num('win_rate', m['win_rate'], F(W, W + L) if W + L else 0)
        eq_num('net_profit=sum(pnl)', m['net_profit'], net)
        eq_num('gross_profit', m['gross_profit'], gp)
        eq_num('gross_loss', m['gross_loss'], gl)
        eq_num('net_profit=gross_profit+gross_loss', m['net_profit'], float(m['gross_profit']) + float(m['gross_loss']))
        eq_num('net_profit_percentage', m['net_profit_percentage'], net / F(repr(sb)) * 100)
        eq_num('net_profit_percentage=net/starting*100', m['net_profit_percentage'], float(m['net_profit']) / sb * 100)
        eq_int('longs_count', m['longs_count'], longs)
        eq_int('shorts_count', m['shorts_count'], shorts)
        eq_int('longs+shorts=total', m['longs_count'] + m['shorts_count'], m['total'])
        eq_num('longs_percentage', m['longs_percentage'], F(longs, len(tl)) * 100)
        eq_num('shorts_percentage', m['shorts_percentage'], F(shorts, len(tl)) * 100)
        eq_num('percentages sum to 100', m['longs_percentage'] + m['shorts_percentage'], 100)
        eq_num('fee=sum(fees)', m['fee'], sum(fees, F(0)))
        eq_num('largest_winning_trade', m['largest_winning_trade'], max((p for p in pn if p > 0), default=0))
        eq_num('largest_losing_trade', m['largest_losing_trade'], min((p for p in pn if p < 0), default=0))
        aw = gp / W if W else None
        al = -gl / L if L else None
        eq_num('average_win', m['average_win'], aw)
        eq_num('average_loss', m['average_loss'], al)
        eq_num('ratio_avg_win_loss', m['ratio_avg_win_loss'], aw / al if (aw is not None and al is not None) else None)
        exp = net / (W + L) if W + L else F(0)
        eq_num('expectancy=mean pnl of decided trades', m['expectancy'], exp)
        wr = float(m['win_rate'])
        eq_num('expectancy=avg_win*win_rate-avg_loss*(1-win_rate)', m['expectancy'],
               (0 if isnan(m['average_win']) else m['average_win']) * wr - (0 if isnan(m['average_loss']) else m['average_loss']) * (1 - wr))
        eq_num('expectancy_percentage', m['expectancy_percentage'], exp / F(repr(sb)) * 100)
        eq_num('expected_net_profit_every_100_trades', m['expected_net_profit_every_100_trades'], exp / F(repr(sb)) * 10000)
        eq_num('average_holding_period', m['average_holding_period'], sum(hps, F(0)) / len(tl))
        hw = [h for h, p in zip(hps, pn) if p > 0]
        hl = [h for h, p in zip(hps, pn) if p < 0]
        eq_num('average_winning_holding_period', m['average_winning_holding_period'], sum(hw, F(0)) / len(hw) if hw else None)
        eq_num('average_losing_holding_period', m['average_losing_holding_period'], sum(hl, F(0)) / len(hl) if hl else None)
        ws, ls, cur = sign_runs(pn)
        eq_int('winning_streak', m['winning_streak'], ws)
        eq_int('losing_streak', m['losing_streak'], ls)
        eq_int('current_streak', m['current_streak'], cur)
        return bad

    def oracle_identities(self, res, boost):
        n = self.budget(600, 10000, boost)
        nmax = 80 if not (self.thorough or boost) else 500
        cases = [self.gen_trade_list(nmax) for _ in range(n)]
        for big in ([1500, 3000] if not (self.thorough or boost) else [3000, 8000, 20000]):
            cases.append(self.gen_trade_list(big))
        # small exhaustive: every sign pattern up to length 5 (wins 2, losses -2, zeros)
        L = 5 if not (self.thorough or boost) else 7
        for k in range(1, L + 1):
            for pat in itertools.product((2.0, -2.0, 0.0), repeat=k):
                cases.append(('exhaustive', 1000.0, [(p, 'long' if i % 2 == 0 else 'short', 0.25, 60.0 * (i + 1)) for i, p in enumerate(pat)]))
        cases.append(('empty', 1000.0, []))
        for lab, sb, tl in cases:
            res.count('identities:' + lab.split('/')[0])
            pn = [t[0] for t in tl]
            signs = {(p > 0) - (p < 0) for p in pn}
            res.seen(('id', sb, tuple(tl)), len(signs) > 1 or 0 in signs)
            try:
                m = self.real_trades(sb, tl)
                bad = self.identity_failures(m, sb, tl)
            except Exception as e:  # noqa
                res.fail(**{'class': 'identity/raises', 'input': {'kind': 'trades', 'starting_balance': sb, 'trades': tl[:200]},
                            'observed': f'{type(e).__name__}: {str(e)[:200]}', 'expected': 'a metrics dict', 'params': {'n': len(tl)}})
                continue
            if bad:
                name0 = bad[0][0]

                def still(cand, sb=sb, name0=name0):
                    try:
                        return any(b[0] == name0 for b in self.identity_failures(self.real_trades(sb, cand), sb, cand))
                    except Exception:  # noqa
                        return False
                small = core.shrink_list(tl, still, max_rounds=120) if len(res.failures) < 3 and len(tl) <= 400 else tl
                m2 = self.real_trades(sb, small)
                bad2 = [b for b in self.identity_failures(m2, sb, small) if b[0] == name0] or bad
                res.fail(**{'class': 'identity/' + bad2[0][0],
                            'input': {'kind': 'trades', 'starting_balance': sb, 'trades': [list(t) for t in small[:400]]},
                            'observed': bad2[0][1], 'expected': bad2[0][2],
                            'params': {'n': len(small), 'all_failed_clauses': sorted({b[0] for b in bad})[:12]}})
            elif 3 <= len(tl) <= 5:
                res.sample({'trades': tl, 'win_rate': m['win_rate'], 'streaks': [m['winning_streak'], m['losing_streak'], m['current_streak']]}, cap=2)

    # ------------------------------------------------------------------ ratios on balance series
    RATIO_TOL = 1e-6

    def ratio_failures(self, bal):
        """[(class, key, observed, expected, params, metrics)] for one balance series"""
        m = self.real_trades(bal[0], [(1.0, 'long', 0.0, 60.0)], bal)
        std = std_ratios(bal)
        out = []
        tol = self.RATIO_TOL
        first_below = bal[1] < bal[0]
        n = len(bal) - 1
        dd = float(m['max_drawdown'])
        if isnan(dd) or dd > 1e-12:
            out.append(('max_drawdown/positive-or-nan', 'max_drawdown', dd, '<= 0', {}, {}))
        elif not relclose(dd, std['max_drawdown'], tol):
            alt = relclose(dd, std['max_drawdown_without_start'], tol)
            out.append(('max_drawdown/start-balance-not-a-peak' if alt else 'max_drawdown/mismatch', 'max_drawdown', dd,
                        std['max_drawdown'], {'first_day_below_start': first_below},
                        {'shortfall_pct': abs(dd - std['max_drawdown'])}))
        if std['annual_return'] is not None and abs(std['annual_return']) < 1e280:
            x = float(m['annual_return'])
            if not relclose(x, std['annual_return'], tol):
                out.append(('annual_return/mismatch', 'annual_return', x, std['annual_return'], {'days': n}, {}))
        if std['sharpe_ratio'] is not None:
            x = float(m['sharpe_ratio'])
            if not relclose(x, std['sharpe_ratio'], tol):
                out.append(('sharpe/mismatch', 'sharpe_ratio', x, std['sharpe_ratio'], {'days': n}, {}))
        if std['sortino_ratio'] is not None:
            x = float(m['sortino_ratio'])
            if not relclose(x, std['sortino_ratio'], tol):
                alt = relclose(x, std['sortino_ratio_n_plus_1'], tol)
                out.append(('sortino/divisor-counts-nan-row' if alt else 'sortino/mismatch', 'sortino_ratio', x, std['sortino_ratio'],
                            {'has_negative_return': std['has_negative_return']},
                            {'observed_over_expected': x / std['sortino_ratio'] if std['sortino_ratio'] else 0.0,
                             'sqrt_n1_over_n': math.sqrt((n + 1) / n)}))
        if std['calmar_ratio'] is not None:
            x = float(m['calmar_ratio'])
            if not relclose(x, std['calmar_ratio'], tol):
                alt = std['calmar_ratio_without_start'] is not None and relclose(x, std['calmar_ratio_without_start'], tol)
                out.append(('calmar/start-balance-not-a-peak' if alt else 'calmar/mismatch', 'calmar_ratio', x, std['calmar_ratio'],
                            {'first_day_below_start': first_below}, {}))
        x = float(m['omega_ratio'])
        if std['omega_ratio'] is None:
            if not isnan(x):
                out.append(('omega/defined-without-losses', 'omega_ratio', x, 'nan', {}, {}))
        elif not relclose(x, std['omega_ratio'], tol):
            out.append(('omega/mismatch', 'omega_ratio', x, std['omega_ratio'], {}, {}))
        return out

    def oracle_ratios(self, res, boost):
        series = []
        for k in core.load_known():
            if k['property'] == 'C16' and k.get('witness', {}).get('balances'):
                series.append(('witness', [float(x) for x in k['witness']['balances']]))
        series += [('regression', list(b)) for b in REGRESSION_BALANCES]
        series += [('fixed', [100.0, 110.0, 99.0, 120.0]), ('fixed', [1000.0, 1000.0]), ('fixed', [100.0, 101.0])]
        for _ in range(self.budget(400, 8000, boost)):
            series.append(self.gen_balances(40 if not (self.thorough or boost) else 400))
        seen_cls = {}
        for kind, bal in series:
            res.count('ratios:' + kind)
            res.seen(('ratios', tuple(bal)), any(bal[i + 1] < bal[i] for i in range(len(bal) - 1)))
            try:
                fails = self.ratio_failures(bal)
            except Exception as e:  # noqa
                res.fail(**{'class': 'ratios/raises', 'input': {'kind': 'balances', 'balances': bal},
                            'observed': f'{type(e).__name__}: {str(e)[:200]}', 'expected': 'a metrics dict', 'params': {}})
                continue
            for cls, key, got, want, params, metrics in fails:
                seen_cls[cls] = seen_cls.get(cls, 0) + 1
                res.count('ratio-deviation:' + cls)
                if seen_cls[cls] > 12:
                    continue
                small = bal
                if seen_cls[cls] <= 2 and len(bal) > 3:
                    def still(cand, cls=cls):
                        if len(cand) < 2 or cand[0] != bal[0]:
                            return False
                        try:
                            return any(f[0] == cls for f in self.ratio_failures(cand))
                        except Exception:  # noqa
                            return False
                    small = core.shrink_list(bal, still, max_rounds=80)
                    f2 = [f for f in self.ratio_failures(small) if f[0] == cls]
                    if f2:
                        cls, key, got, want, params, metrics = f2[0]
                res.fail(**{'class': cls, 'input': {'kind': 'balances', 'balances': small}, 'observed': {key: got},
                            'expected': {key: want}, 'params': params, 'metrics': metrics})
            if not fails and len(bal) == 4:
                res.sample({'balances': bal, 'ok': 'all six ratios equal their standard definitions'}, cap=1)

    # ------------------------------------------------------------------ the equity series of real backtests
    def session_failures(self, spec, out):
        fails = []
        tol = 1e-9
        if out['error'] is not None:
            if out['error']['in_metrics_code']:
                fails.append(('session/raises-in-metrics-code', out['error'], 'no exception', {}, {}))
            return fails
        s = out['samples']
        n = spec['minutes']
        expected_count = 2 + (n - 1) // 1440
        c = out['chunk'] if spec['fast'] else 1
        if not s:
            return [('equity/no-samples', 0, expected_count, {}, {})]
        if not relclose(s[0]['value'], spec['balance'], tol):
            fails.append(('equity/start', s[0]['value'], spec['balance'], {'type': spec['type']}, {}))
        if len(s) != expected_count:
            multiday = bool(spec['fast'] and c and c > 1440 and c % 1440 == 0)
            per_chunk = multiday and len(s) == 2 + (n - 1) // c
            fails.append(('equity/sample-count/one-per-multiday-chunk' if per_chunk else 'equity/sample-count', len(s),
                          expected_count, {'fast_mode': spec['fast'], 'chunk_is_whole_days_gt_1': multiday},
                          {'chunk': c or 0, 'minutes': n}))
        for j, snap in enumerate(s):
            eq = self.equity_of(snap)
            if not relclose(snap['value'], eq, tol):
                others = 0.0
                if snap['type'] == 'spot' and len(snap['positions']) > 1:
                    first = snap['positions'][0]['symbol']
                    others = math.fsum(v for k, v in snap['reserved'].items() if k != first)
                explained = snap['type'] == 'spot' and others > 0 and relclose(snap['value'] + others, eq, tol)
                fails.append(('equity/spot-sample-misses-other-routes-reserved-quote' if explained else 'equity/sample-value',
                              snap['value'], eq,
                              {'type': snap['type'], 'routes': len(snap['positions']), 'other_routes_have_resting_buys': others > 0},
                              {'missing': eq - snap['value'], 'other_routes_reserved': others, 'sample_index': j}))
                break
        last = s[-1]
        if last['elapsed'] != n:
            fails.append(('equity/end-not-at-session-end', last['elapsed'], n, {}, {}))
        m = out['metrics']
        if m and 'finishing_balance' in m and all(not p['open'] for p in last['positions']) and not any(last['reserved'].values()):
            if not relclose(last['value'], float(m['finishing_balance']), tol):
                fails.append(('equity/end', last['value'], float(m['finishing_balance']), {'type': spec['type']}, {}))
        if m and 'starting_balance' in m and not relclose(float(m['starting_balance']), s[0]['value'], tol):
            fails.append(('equity/start-vs-metrics', s[0]['value'], float(m['starting_balance']), {}, {}))
        return fails

    def oracle_sessions(self, res, boost):
        seen_cls = {}
        for spec, out in self.session_cache(boost):
            key = f"{spec['type']}/{len(spec['routes'])}r/{'fast' if spec['fast'] else 'step'}"
            res.count('session:' + key)
            res.count('session-days:' + str(-(-spec['minutes'] // 1440)))
            for rt in spec['routes']:
                res.count('session-tf:' + rt['timeframe'])
            if out['error'] is not None:
                res.count('session-error:' + out['error']['type'])
            s = out['samples'] or []
            busy = any(any(p['open'] for p in x['positions']) or any(x['reserved'].values()) for x in s)
            res.seen(('session', repr(spec)), busy)
            if busy:
                res.count('session-with-open-position-or-resting-order-at-a-sample')
            for cls, got, want, params, metrics in self.session_failures(spec, out):
                seen_cls[cls] = seen_cls.get(cls, 0) + 1
                res.count('session-deviation:' + cls)
                if seen_cls[cls] > 10:
                    continue
                res.fail(**{'class': cls, 'input': {'kind': 'session', 'session': spec}, 'observed': got, 'expected': want,
                            'params': params, 'metrics': metrics})
            if out['error'] is None and s and len(res.samples) < 5 and busy:
                res.sample({'session': {k: spec[k] for k in ('type', 'minutes', 'fast')}, 'routes': [r['timeframe'] for r in spec['routes']],
                            'daily_balance': [round(x['value'], 4) for x in s]}, cap=5)

    # ================================================================== replay
    def replay(self, doc):
        jesse_env.setup()
        f = doc['failure']
        i = f.get('input') or {}
        print('class:', f.get('class'))
        if i.get('kind') == 'trades':
            tl = [tuple(t) for t in i['trades']]
            m = self.real_trades(i['starting_balance'], tl)
            bad = self.identity_failures(m, i['starting_balance'], tl)
            print('metrics.trades ->', {k: m[k] for k in m if k in dict((b, a) for a, b in KEYS)} if tl else m)
            for b in bad:
                print('VIOLATED', b[0], 'observed', b[1], 'expected', b[2])
            return 1 if bad else 0
        if i.get('kind') == 'balances':
            fails = self.ratio_failures([float(x) for x in i['balances']])
            for cls, key, got, want, params, metrics in fails:
                print('VIOLATED', cls, key, 'observed', got, 'expected', want, params, metrics)
            return 1 if fails else 0
        if i.get('kind') == 'session':
            out = self.run_session(i['session'])
            print('daily_balance:', [x['value'] for x in (out['samples'] or [])], 'error:', out['error'])
            fails = self.session_failures(i['session'], out)
            for cls, got, want, params, metrics in fails:
                print('VIOLATED', cls, 'observed', got, 'expected', want, params, metrics)
            return 1 if fails else 0
        print('nothing to replay:', doc.get('no_longer_checks'), f)
        return 1


CHECK = C16
