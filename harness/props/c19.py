"""C19 — optimizer DNA decodes into in-range, typed, monotone hyperparameters; precedence of sources."""
import itertools

import bt
import core
import jesse_env
import purecorr
from core import wire, fr


def decl_wire(d):
    return [{int: 'int', float: 'float'}.get(d['type'], 'other'), wire(d['min']), wire(d['max'])]


class C19(core.Check):
    pid = 'C19'
    gen_keys = ['jesse/helpers.py:convert_number', 'jesse/helpers.py:dna_to_hp',
                'jesse/modes/optimize_mode/Optimize.py:charset']
    rule = ('translator cross-check: real convert_number and dna_to_hp (single genes and whole DNA strings, zip '
            'truncation, unsupported types, out-of-alphabet characters) vs the generated decoder and the loop model; '
            'correspondence of the hand model of _prepare_routes/_init_objects against real research.backtest runs '
            'observing strategy.hp for every combination of explicit/dna()/defaults over 1-2 routes; oracle: all 80 genes '
            'x a grid of (min,max,type) declarations on the real dna_to_hp (range, integrality, endpoints, monotone, '
            'positional) and the precedence rule on real backtests; non-trivial = decoded without error; distinct = '
            'distinct (declaration, gene) or (sources, routes) configurations')
    assumptions = ['an explicitly passed hyperparameters dict is represented by its values in declaration order']

    def decl_grid(self):
        r = self.rng
        grid = []
        for (mn, mx) in [(0, 30), (1, 2), (-10, 10), (-50, -3), (5, 5), (0, 79), (0, 158), (3, 1000)]:
            grid.append({'name': 'x', 'type': int, 'min': mn, 'max': mx, 'default': mn})
        for (mn, mx) in [(0.0, 1.0), (-1.5, 2.25), (0.001, 0.002), (-100.5, -0.5), (2.5, 2.5), (0, 79), (1e-6, 1e6)]:
            grid.append({'name': 'x', 'type': float, 'min': mn, 'max': mx, 'default': mn})
        for _ in range(self.budget(6, 60)):
            t = r.choice([int, float])
            a = r.randint(-1000, 1000) if t is int else round(r.uniform(-1000, 1000), 3)
            b = a + (r.randint(0, 500) if t is int else round(r.uniform(0, 500), 3))
            grid.append({'name': 'x', 'type': t, 'min': a, 'max': b, 'default': a})
        return grid

    def correspondence(self, res, boost):
        jesse_env.setup()
        import jesse.helpers as jh
        r = self.rng
        batch = []
        for d in self.decl_grid():
            for g in list(range(40, 120)) + [39, 120, 32, 126]:
                if int is d['type']:
                    v = fr(d['min']) + (g - 40) * (fr(d['max']) - fr(d['min'])) / 79
                    frac = v - (v.numerator // v.denominator)
                    if abs(frac - fr('1/2')) < fr('1/1000000') and frac != fr('1/2'):
                        res.discarded += 1
                        continue
                batch.append(('decode_gene', decl_wire(d) + [str(g)],
                              (lambda d=d, g=g: jh.dna_to_hp([d], chr(g))['x']), 'dna_to_hp (one gene)'))
        batch.append(('decode_gene', ['other', '0', '1', '50'],
                      (lambda: jh.dna_to_hp([{'name': 'x', 'type': str, 'min': 0, 'max': 1}], chr(50))['x']), 'dna_to_hp bad type'))
        for _ in range(self.budget(40, 800, boost)):
            a, b, c, d = (round(r.uniform(-100, 100), 2) for _ in range(4))
            lo, hi = min(a, b), max(a, b) + 1
            v = r.choice([lo, hi, round(r.uniform(lo - 5, hi + 5), 2)])
            batch.append(('convert_number', [wire(x) for x in (hi, lo, c, d, v)],
                          (lambda hi=hi, lo=lo, c=c, d=d, v=v: jh.convert_number(hi, lo, c, d, v)), 'convert_number'))
        purecorr.cross_check(res, batch)
        # whole strings through the loop model
        grid = self.decl_grid()
        lines, thunks = [], []
        for _ in range(self.budget(60, 1500, boost)):
            k = r.randint(0, 5)
            ds = [dict(r.choice(grid), name=f'p{i}') for i in range(k)]
            m = r.choice([k, k, k, max(0, k - 1), k + 2])
            genes = [r.randint(40, 119) for _ in range(m)]
            if r.random() < 0.1 and genes:
                genes[r.randrange(len(genes))] = r.choice([39, 120])
            lines.append('dna dna_to_hp ' + str(k) + ''.join(' ' + ' '.join(decl_wire(d)) for d in ds)
                         + ''.join(' ' + str(g) for g in genes))
            thunks.append((ds, genes))
        outs = core.Driver.run(lines)
        for line, out, (ds, genes) in zip(lines, outs, thunks):
            def impl():
                hp = jh.dna_to_hp(ds, ''.join(chr(g) for g in genes))
                return [hp[d['name']] for d in ds[:len(hp)]]
            try:
                vals = impl()
                py = 'ok ' + ' '.join(purecorr.num(v) for v in vals) if vals else 'ok '
            except Exception as e:  # noqa
                py = 'err ' + purecorr.ERRMAP.get(type(e).__name__, 'Other')
            res.seen(line, True)
            res.count('dna_to_hp(list)')
            if not purecorr.tokens_agree(out.strip(), py.strip()):
                res.fail(**{'class': 'corr/dna_to_hp-loop', 'input': line, 'observed_model': out, 'expected_impl': py})
        # _prepare_routes / _init_objects against real backtests
        for case in self.precedence_cases(self.budget(24, 200, boost)):
            line = self.precedence_line(case)
            out = core.Driver.run([line])[0]
            got = self.run_precedence(case)
            res.seen(line, True)
            res.count('prepare_routes')
            want = 'ok ' + ' '.join(('none' if h is None else '[' + ' '.join(purecorr.num(v) for v in h) + ']') for h in got) \
                if not isinstance(got, str) else got
            if not purecorr.tokens_agree(out.replace('[', '[ ').replace(']', ' ]'), want.replace('[', '[ ').replace(']', ' ]')):
                res.fail(**{'class': 'corr/prepare_routes', 'input': {'line': line, 'case': repr(case)[:400]},
                            'observed_model': out, 'expected_impl': want})
            res.sample({'request': line, 'model': out, 'impl': want})

    # ---------------------------------------------------------------- precedence on real backtests
    def precedence_cases(self, n):
        r = self.rng
        grid = [d for d in self.decl_grid() if d['min'] != d['max']][:12]
        cases = []
        combos = list(itertools.product([False, True], repeat=3))   # explicit?, dna?, has declarations?
        for i in range(n):
            explicit, _, _ = combos[i % 8]
            nroutes = r.choice([1, 2, 2])
            routes = []
            for j in range(nroutes):
                _, has_dna, has_decl = combos[(i + 3 * j) % 8] if j else combos[i % 8]
                k = r.randint(1, 3) if has_decl else 0
                ds = [dict(r.choice(grid), name=f'p{q}') for q in range(k)]
                for d in ds:
                    d['default'] = d['min'] if r.random() < 0.5 else d['max']
                genes = [r.randint(40, 119) for _ in range(k)] if (has_dna and k) else []
                routes.append((ds, genes))
            ex = None
            if explicit:
                ex = {f'p{q}': r.randint(-5, 5) for q in range(r.randint(1, 3))}
            cases.append((ex, routes))
        # values that are exactly zero (falsy) must win over non-zero defaults: explicit zeros, and genes decoding to 0
        z_int = {'name': 'p0', 'type': int, 'min': -10, 'max': 10, 'default': 7}
        z_flt = {'name': 'p1', 'type': float, 'min': 0.0, 'max': 1.0, 'default': 0.5}
        cases.append(({'p0': 0, 'p1': 0.0}, [([dict(z_int), dict(z_flt)], [])]))
        cases.append((None, [([dict(z_int), dict(z_flt)], [79, 40])]))          # 'O' -> round(-0.13) = 0, '(' -> 0.0
        cases.append((None, [([dict(z_int), dict(z_flt)], [80, 40]), ([dict(z_int)], [])]))
        return cases

    def precedence_line(self, case):
        ex, routes = case
        s = 'dna prepare ' + ('none' if ex is None else f'some {len(ex)} ' + ' '.join(wire(v) for v in ex.values()))
        s += f' {len(routes)}'
        for ds, genes in routes:
            s += f' {len(ds)}' + ''.join(' ' + ' '.join(decl_wire(d) + [wire(d['default'])]) for d in ds)
            s += f' {len(genes)}' + ''.join(' ' + str(g) for g in genes)
        return s

    def run_precedence(self, case, fast=False):
        """run a real backtest; returns per route the hp the strategy saw (values in declaration order, or
        the explicit dict's values), or an 'err …' string"""
        jesse_env.setup()
        from jesse.strategies import Strategy
        ex, routes = case
        seen = {}
        classes = []
        for idx, (ds, genes) in enumerate(routes):
            def mk(idx=idx, ds=ds, genes=genes):
                class S(Strategy):
                    def hyperparameters(self):
                        return [dict(d) for d in ds]

                    def dna(self):
                        return ''.join(chr(g) for g in genes)

                    def should_long(self):
                        seen.setdefault(idx, None if self.hp is None else dict(self.hp))
                        return False

                    def go_long(self):
                        pass

                    def should_cancel_entry(self):
                        return False
                S.__name__ = f'S{idx}'
                return S
            classes.append(mk())
        syms = ['BTC-USDT', 'ETH-USDT'][:len(routes)]
        rows = [(100 + i, 100.5 + i, 101 + i, 99 + i, 10) for i in range(6)]
        cs = {s: bt.make_candles(rows) for s in syms}
        try:
            bt.run(bt.config(), [(s, '1m', c) for s, c in zip(syms, classes)], [], cs, hyperparameters=ex, fast_mode=fast)
        except Exception as e:  # noqa
            return 'err ' + purecorr.ERRMAP.get(type(e).__name__, 'Other')
        out = []
        for idx, (ds, genes) in enumerate(routes):
            hp = seen.get(idx, 'missing')
            if hp is None:
                out.append(None)
            elif ex is not None and hp == ex:
                out.append(list(ex.values()))
            else:
                out.append([hp.get(d['name']) for d in ds] if isinstance(hp, dict) else hp)
        return out

    def oracle(self, res, boost):
        jesse_env.setup()
        import jesse.helpers as jh
        from jesse.modes.optimize_mode.Optimize import Optimizer  # noqa
        import inspect
        charset = inspect.signature(Optimizer.__init__).parameters['charset'].default
        if [ord(c) for c in charset] != list(range(40, 120)):
            res.fail(**{'class': 'charset/not-40-119', 'input': {'charset': charset}, 'observed': [ord(c) for c in charset][:5]})
        for d in self.decl_grid():
            prev = None
            for ch in charset:
                g = ord(ch)
                inp = {'declaration': {k: (v.__name__ if isinstance(v, type) else v) for k, v in d.items()}, 'gene': ch}
                try:
                    v = jh.dna_to_hp([d], ch)['x']
                except Exception as e:  # noqa
                    res.fail(**{'class': 'dna_to_hp/raises-on-alphabet', 'input': inp, 'observed': repr(e)})
                    continue
                res.seen((d['type'].__name__, d['min'], d['max'], g), True)
                res.count('decode:' + d['type'].__name__)
                tol = 1e-9 * max(1.0, abs(d['min']), abs(d['max']))
                if not (d['min'] - tol <= v <= d['max'] + tol):
                    res.fail(**{'class': 'dna_to_hp/out-of-range', 'input': inp, 'observed': v})
                if d['type'] is int and not (isinstance(v, int) and not isinstance(v, bool)):
                    res.fail(**{'class': 'dna_to_hp/int-not-integer', 'input': inp, 'observed': repr(v)})
                if g == 40 and abs(v - d['min']) > tol:
                    res.fail(**{'class': 'dna_to_hp/first-letter-not-min', 'input': inp, 'observed': v})
                if g == 119 and abs(v - d['max']) > tol:
                    res.fail(**{'class': 'dna_to_hp/last-letter-not-max', 'input': inp, 'observed': v})
                if prev is not None and v < prev - tol:
                    res.fail(**{'class': 'dna_to_hp/not-monotone', 'input': inp, 'observed': [prev, v]})
                prev = v
        # positional: changing gene j leaves value i (i != j) unchanged
        r = self.rng
        grid = self.decl_grid()
        for _ in range(self.budget(100, 3000, boost)):
            k = r.randint(2, 5)
            ds = [dict(r.choice(grid), name=f'p{i}') for i in range(k)]
            genes = [r.choice(charset) for _ in range(k)]
            base = jh.dna_to_hp(ds, ''.join(genes))
            j = r.randrange(k)
            g2 = list(genes)
            g2[j] = r.choice(charset)
            alt = jh.dna_to_hp(ds, ''.join(g2))
            res.seen(('pos', tuple(genes), j, g2[j]), True)
            res.count('positional')
            for i in range(k):
                if i != j and base[f'p{i}'] != alt[f'p{i}']:
                    res.fail(**{'class': 'dna_to_hp/not-positional', 'input': {'decls': repr(ds)[:300], 'dna': ''.join(genes), 'changed': j},
                                'observed': [base, alt]})
                single = jh.dna_to_hp([ds[i]], genes[i])[f'p{i}']
                if base[f'p{i}'] != single:
                    res.fail(**{'class': 'dna_to_hp/not-positional', 'input': {'decls': repr(ds)[:300], 'dna': ''.join(genes), 'index': i},
                                'observed': [base[f'p{i}'], single]})
        # positional, exhaustively over every ADJACENT PAIR of letters (80 x 80) in the middle of a DNA: letters that mean
        # something to string handling (backslash, quotes, brackets, digits) must be plain genes, also when doubled
        ds = [dict(grid[i % len(grid)], name=f'p{i}') for i in range(4)]
        singles = [{ch: jh.dna_to_hp([ds[i]], ch)[f'p{i}'] for ch in charset} for i in range(4)]
        for a in charset:
            for b in charset:
                dna = charset[7] + a + b + charset[70]
                res.seen(('pair', a, b), True)
                res.count('adjacent-pairs')
                try:
                    got = jh.dna_to_hp(ds, dna)
                except Exception as e:  # noqa
                    res.fail(**{'class': 'dna_to_hp/raises-on-alphabet', 'input': {'decls': repr(ds)[:300], 'dna': dna}, 'observed': repr(e)})
                    continue
                want = {f'p{i}': singles[i][dna[i]] for i in range(4)}
                if got != want:
                    res.fail(**{'class': 'dna_to_hp/not-positional', 'input': {'decls': repr(ds)[:300], 'dna': dna, 'pair': [a, b]},
                                'observed': got, 'expected': want})
        # precedence on real runs, stated directly (not via the model)
        # … in BOTH simulators: the precedence is decided before the simulation starts, whichever simulator runs
        for case, fast in [(c, f) for c in self.precedence_cases(self.budget(16, 160, boost)) for f in (False, True)]:
            ex, routes = case
            got = self.run_precedence(case, fast=fast)
            res.seen(('prec', repr(case), fast), True)
            res.count('precedence:' + ('fast' if fast else 'step'))
            if isinstance(got, str):
                continue
            for idx, (ds, genes) in enumerate(routes):
                if ex is not None:
                    want = list(ex.values())
                elif genes:
                    hp = jh.dna_to_hp(ds, ''.join(chr(g) for g in genes))
                    want = [hp[d['name']] for d in ds]
                elif ds:
                    want = [d['default'] for d in ds]
                else:
                    want = None
                if got[idx] != want:
                    res.fail(**{'class': 'precedence/wrong-hp', 'input': {'explicit': ex, 'route': idx, 'routes': repr(routes)[:500], 'fast_mode': fast},
                                'observed': got[idx], 'expected': want})
            res.sample({'explicit': ex, 'routes': [(len(ds), len(g)) for ds, g in routes], 'hp_seen': got})

    def replay(self, doc):
        print(doc['failure'])
        return 1


CHECK = C19
