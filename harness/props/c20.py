"""C20 — candle series handed to the store are gapless and strictly ordered."""
import itertools

import acct
import bt
import core
import jesse_env
import purecorr
from core import wire

M = 60_000


def cw(c):
    return ' '.join(wire(x) for x in c)


def show(cs):
    return '[' + ';'.join(' '.join(purecorr.num(x) for x in c) for c in cs) + ']'


def norm(s):
    return s.replace('[', '[ ').replace(']', ' ]').replace(';', ' ; ')



def warm_lines(r, count, add_sequence, res, with_long=True):
    """warm-up injection: the whole store state (1m array and one array per bigger timeframe) after
    inject_warmup_candles_to_store, for clean series of every length (also ending inside a window) and for series with
    repeated / older / unknown minutes; returns (driver lines `st warm …`, what the real store holds)"""
    import numpy as np
    from jesse.store import store
    from jesse.services.candle import inject_warmup_candles_to_store
    from jesse.config import config as jconfig
    from jesse.libs import DynamicNumpyArray
    import jesse.helpers as jh
    lines, expect = [], []
    saved_tfs = jconfig['app']['considering_timeframes']
    names = {3: '3m', 5: '5m', 15: '15m'}
    for t in range(count):
        tfs = r.choice([(3,), (5,), (3, 5), (3, 15), (15,)]) if with_long else ()
        clean = r.random() < 0.7
        seq = [c for c in add_sequence(r.randint(1, 40), clean=clean) if c[0] != 0]
        if not seq:
            continue
        store.candles.init_storage(50)
        for m in tfs:
            store.candles.storage[jh.key('Sandbox', 'BTC-USDT', names[m])] = DynamicNumpyArray((10, 6))
        jconfig['app']['considering_timeframes'] = ('1m',) + tuple(names[m] for m in tfs)
        try:
            inject_warmup_candles_to_store(np.array(seq, dtype=float), 'Sandbox', 'BTC-USDT')
            parts = ['ok ' + show([list(map(float, x)) for x in store.candles.get_storage('Sandbox', 'BTC-USDT', '1m')[:]])]
            for m in tfs:
                got = store.candles.get_storage('Sandbox', 'BTC-USDT', names[m])
                parts.append(f'{m} ' + show([list(map(float, x)) for x in got[:]] if len(got) else []))
            py = ' | '.join(parts)
        except Exception as e:  # noqa
            py = 'err ' + purecorr.ERRMAP.get(type(e).__name__, 'Other')
        finally:
            jconfig['app']['considering_timeframes'] = saved_tfs
        lines.append(f'st warm {len(tfs)} ' + ' '.join(str(m) for m in tfs) + f' {len(seq)} ' + ' '.join(cw(c) for c in seq))
        expect.append(py)
        res.count('warmup-injection' + (':clean' if clean else ':with-repeats'))
    return lines, expect


class C20(core.Check):
    pid = 'C20'
    unproved = [
        'DynamicNumpyArray = list composition: proved for add_candle / batch_add_candle (addCandleD_refines, batchAddD_refines) '
        'and for add_multiple_1m_candles when the chunk is entirely new or ends at the last stored minute (addMultipleD_refines: '
        'the two ways the fast simulator calls it); a chunk that overlaps the stored series AND ends later writes past the '
        'logical end of the array: C18 theorems plus the correspondence pass (st addmultid) only',
    ]
    rule = ('correspondence: the real _fill_absent_candles on every bitmask of present minutes (intervals up to 7 minutes '
            'exhaustively, longer ones seeded) and the real candle store (add_candle with new / repeated / older / unknown / '
            'zero timestamps on 1m and larger timeframes, add_multiple_1m_candles, the input spacing check of '
            'research.backtest) vs the Lean models through the line protocol; oracle: the C20 clauses on the real functions '
            '(one candle per minute, increasing timestamps, provided candles unchanged, flat fill at previous close / first '
            'open; stored timestamps strictly increasing after every add, new appended, same timestamp replaced); '
            'non-trivial = at least one missing minute / at least one repeated or older candle; distinct = distinct inputs')
    assumptions = ['the store model keeps candles in plain lists; that add_candle on the DynamicNumpyArray model is that list '
                   'algorithm is proved here (composition with C18); add_multiple_1m_candles likewise except for overlapping chunks that end later']

    # ------------------------------------------------------------------ fill absent
    def fa_cases(self, boost):
        r = self.rng
        cases = []
        maxn = 8 if (self.thorough or boost) else 6
        for n in range(1, maxn + 1):
            for mask in range(1, 2 ** n):
                present = [i for i in range(n) if mask >> i & 1]
                cases.append((n, present))
                # the exchange's response may run past the requested interval: minutes n, n+1, … are provided too
                # (in particular as many as are missing inside, so that the batch has exactly the interval's length)
                for extra in sorted({1, 2, n - len(present)} - {0}):
                    cases.append((n, present + [n + j for j in range(extra)]))
        for _ in range(self.budget(60, 1500, boost)):
            n = r.randint(9, 60)
            present = sorted(r.sample(range(n), r.randint(1, n)))
            if r.random() < 0.4:
                present = present + [n + j for j in range(r.choice([1, 2, n - len(present)]) or 1)]
            cases.append((n, present))
        return cases

    def fa_input(self, n, present, dup=False):
        r = self.rng
        start = 1_600_000_020_000 // M * M
        temp = []
        for i in present:
            o = float(r.randint(90, 110))
            c = float(r.randint(90, 110))
            temp.append({'id': 'x', 'exchange': 'E', 'symbol': 'S', 'timeframe': '1m', 'timestamp': start + i * M,
                         'open': o, 'close': c, 'high': max(o, c) + 1, 'low': min(o, c) - 1, 'volume': float(r.randint(1, 9))})
        if dup and temp:
            d = dict(temp[0])
            d['close'] = d['close'] + 1
            temp.append(d)
        return start, start + (n - 1) * M, temp

    @staticmethod
    def row(d):
        return [d['timestamp'], d['open'], d['close'], d['high'], d['low'], d['volume']]

    def correspondence(self, res, boost):
        jesse_env.setup()
        from jesse.modes.import_candles_mode import _fill_absent_candles
        import numpy as np
        lines, expect = [], []
        for idx, (n, present) in enumerate(self.fa_cases(boost)):
            start, stop, temp = self.fa_input(n, present, dup=(idx % 7 == 0))
            if idx % 11 == 0:
                self.rng.shuffle(temp)
            try:
                out = _fill_absent_candles([dict(t) for t in temp], start, stop)
                py = 'ok ' + show([self.row(d) for d in out])
            except Exception as e:  # noqa
                py = 'err ' + purecorr.ERRMAP.get(type(e).__name__, 'Other')
            lines.append(f'fa {start} {stop} {len(temp)} ' + ' '.join(cw(self.row(t)) for t in temp))
            expect.append(py)
            res.count('fill_absent')
        # store: add sequences
        s = acct.Session('futures', 10_000, 0.0)
        from jesse.store import store
        r = self.rng
        for _ in range(self.budget(150, 3000, boost)):
            seq = self.add_sequence(r.randint(1, 30))
            tf = r.choice(['1m', '1m', '5m'])
            bucket = r.choice([5, 50])
            store.candles.init_storage(bucket)
            if tf != '1m':
                # a larger timeframe is stored only for routes that use it: create the array by hand
                from jesse.libs import DynamicNumpyArray
                import jesse.helpers as jh
                store.candles.storage[jh.key('Sandbox', 'BTC-USDT', tf)] = DynamicNumpyArray((10, 6))
            err = None
            for c in seq:
                try:
                    store.candles.add_candle(np.array(c, dtype=float), 'Sandbox', 'BTC-USDT', tf, with_execution=False,
                                             with_generation=False)
                except Exception as e:  # noqa
                    err = 'err ' + purecorr.ERRMAP.get(type(e).__name__, 'Other')
                    break
            got = store.candles.get_storage('Sandbox', 'BTC-USDT', tf)
            py = err or ('ok ' + show([list(map(float, x)) for x in got[:]]))
            lines.append(f'st addseq {len(seq)} ' + ' '.join(cw(c) for c in seq))
            expect.append(py)
            res.count('add_candle-seq')
            # the same calls through the model of add_candle ON THE ARRAY CLASS (Jesse/StoreD.lean; bucket as created)
            lines.append(f'st addseqd {bucket if tf == "1m" else 10} {len(seq)} ' + ' '.join(cw(c) for c in seq))
            expect.append(py)
            res.count('add_candle-seq-on-array-model')
        # add_multiple_1m_candles
        for _ in range(self.budget(60, 1500, boost)):
            store.candles.init_storage(50)
            base = self.add_sequence(r.randint(0, 12), clean=True)
            for c in base:
                store.candles.add_candle(np.array(c, dtype=float), 'Sandbox', 'BTC-USDT', '1m', with_execution=False,
                                         with_generation=False)
            k = r.randint(1, 5)
            if base and r.random() < 0.5:
                st = base[-1][0] + M * r.choice([1, 1, 2, -k + 1, -k, -1, 0])
            else:
                st = (base[-1][0] + M) if base else 10 * M
            cs = [[st + i * M, 1.0 + i, 2.0 + i, 3.0 + i, 0.5, 1.0] for i in range(k)]
            try:
                store.candles.add_multiple_1m_candles(np.array(cs, dtype=float), 'Sandbox', 'BTC-USDT')
                got = store.candles.get_storage('Sandbox', 'BTC-USDT', '1m')
                py = 'ok ' + show([list(map(float, x)) for x in got[:]])
            except Exception as e:  # noqa
                py = 'err ' + purecorr.ERRMAP.get(type(e).__name__, 'Other')
            if base and cs[-1][0] - base[-1][0] > len(cs) * M - M and cs[0][0] <= base[-1][0]:
                pass
            lines.append(f'st addmulti {len(base)} ' + ' '.join(cw(c) for c in base) + f' {len(cs)} ' + ' '.join(cw(c) for c in cs))
            expect.append(py)
            res.count('add_multiple_1m')
            # the same calls on the array model (bucket 50 as created above)
            lines.append(f'st addmultid 50 {len(base)} ' + ' '.join(cw(c) for c in base) + f' {len(cs)} ' + ' '.join(cw(c) for c in cs))
            expect.append(py)
            res.count('add_multiple_1m-on-array-model')
        # (C20 is about the 1m series only: the bigger arrays of the injection are compared by C07's check)
        wl, we = warm_lines(r, self.budget(80, 1500, boost), self.add_sequence, res, with_long=False)
        lines += wl
        expect += we
        # spacing check
        for d in (M, 2 * M, 0, -M, 59_999, 5 * M):
            cs = [[10 * M, 1, 1, 1, 1, 1], [10 * M + d, 1, 1, 1, 1, 1], [10 * M + d + M, 1, 1, 1, 1, 1]]
            lines.append('st spacing 3 ' + ' '.join(cw(c) for c in cs))
            expect.append('ok' if self.real_spacing(cs) else 'err ValueError')
            res.count('spacing')
        outs = core.Driver.run(lines)
        for line, out, py in zip(lines, outs, expect):
            kind = ' '.join(line.split()[:2])
            res.seen(line, True)
            # writes past the logical end (override larger than the stored tail) are outside the list model
            if not purecorr.tokens_agree(norm(out), norm(py)):
                res.fail(**{'class': 'corr/' + kind.replace(' ', '-'), 'input': line[:1500], 'observed_model': out[:600], 'expected_impl': py[:600]})
            res.sample({'request': line[:200], 'model': out[:200]})

    def real_spacing(self, cs, where='traded'):
        """does research.backtest accept a session in which the candle set of the traded symbol / of a second, watch-only
        symbol / of a second traded symbol starts with the rows `cs`?"""
        from jesse.strategies import Strategy

        class S(Strategy):
            def should_long(self): return False
            def go_long(self): pass
            def should_cancel_entry(self): return False
        import numpy as np
        good = np.array([[10 * M + i * M, 1, 1, 1, 1, 1] for i in range(max(len(cs), 3))], dtype=float)
        bad = np.array(cs, dtype=float)
        try:
            if where == 'traded':
                bt.run(bt.config(), [('BTC-USDT', '1m', S)], [], {'BTC-USDT': bad})
            elif where == 'watched':
                bt.run(bt.config(), [('BTC-USDT', '1m', S)], [('ETH-USDT', '1m')], {'BTC-USDT': good, 'ETH-USDT': bad})
            else:
                bt.run(bt.config(), [('BTC-USDT', '1m', S), ('ETH-USDT', '1m', S)], [], {'BTC-USDT': good, 'ETH-USDT': bad})
            return True
        except ValueError:
            return False

    def add_sequence(self, n, clean=False):
        """mostly increasing 1m candles with repeats, older known, older unknown and zero timestamps mixed in"""
        r = self.rng
        seq = []
        ts = 10 * M
        known = []
        for _ in range(n):
            k = 'new' if clean else r.choice(['new'] * 6 + ['repeat', 'older', 'unknown', 'zero', 'gap'])
            p = float(r.randint(1, 50))
            if k == 'new' or not known:
                ts += M
                known.append(ts)
                seq.append([ts, p, p + 1, p + 2, p - 1, 3.0])
            elif k == 'gap':
                ts += M * r.randint(2, 4)
                known.append(ts)
                seq.append([ts, p, p + 1, p + 2, p - 1, 3.0])
            elif k == 'repeat':
                seq.append([known[-1], p, p, p, p, 4.0])
            elif k == 'older':
                seq.append([r.choice(known), p, p, p, p, 5.0])
            elif k == 'unknown':
                seq.append([r.choice(known) - 1, p, p, p, p, 6.0])
            else:
                seq.append([0, p, p, p, p, 7.0])
        return seq

    # ------------------------------------------------------------------ oracle
    def oracle(self, res, boost):
        jesse_env.setup()
        import numpy as np
        from jesse.modes.import_candles_mode import _fill_absent_candles
        cases = []
        for ci, (n, present) in enumerate(self.fa_cases(boost)):
            cases.append((n, present, 'as-is'))
            # the batch as some exchanges deliver it: newest first; and with one candle from before the requested start
            if ci % 4 == 1 and len(present) > 1:
                cases.append((n, present, 'newest-first'))
            if ci % 4 == 3:
                cases.append((n, present, 'one-candle-before-start'))
        for (n, present, order) in cases:
            start, stop, temp = self.fa_input(n, present)
            if order == 'newest-first':
                temp = temp[::-1]
            elif order == 'one-candle-before-start':
                early = dict(temp[0])
                early['timestamp'] = start - M
                temp = [early] + temp
            inp = {'start': start, 'minutes': n, 'present': present, 'batch_order': order}
            res.count('fill_absent:batch-' + order)
            try:
                out = _fill_absent_candles([dict(t) for t in temp], start, stop)
            except Exception as e:  # noqa
                res.fail(**{'class': 'fill_absent/raises', 'input': inp, 'observed': repr(e)})
                continue
            res.seen(('fa', n, tuple(present), order), len(present) < n)
            if any(i >= n for i in present):
                res.count('fill_absent:response-runs-past-the-interval')
            res.count('fill_absent')
            probs = []
            if len(out) != n:
                probs.append(f'{len(out)} candles for {n} minutes')
            by_ts = {t['timestamp']: t for t in temp}
            seen_any = False
            for k, d in enumerate(out[:n]):
                if d['timestamp'] != start + k * M:
                    probs.append(f'row {k}: timestamp {d["timestamp"]}')
                    break
                if d['timestamp'] in by_ts:
                    seen_any = True
                    if self.row(d) != self.row(by_ts[d['timestamp']]):
                        probs.append(f'row {k}: provided candle changed')
                else:
                    want = out[k - 1]['close'] if seen_any else temp[0]['open']
                    if not (d['open'] == d['close'] == d['high'] == d['low'] == want and d['volume'] == 0):
                        probs.append(f'row {k}: not flat at {want}: {self.row(d)}')
            if probs:
                res.fail(**{'class': 'fill_absent/' + probs[0].split(':')[0].split(' ')[0], 'input': inp, 'observed': probs[:3]})
        # store ordering on the real store
        s = acct.Session('futures', 10_000, 0.0)
        from jesse.store import store
        r = self.rng
        for _ in range(self.budget(200, 5000, boost)):
            seq = self.add_sequence(r.randint(1, 40))
            store.candles.init_storage(r.choice([5, 50]))
            model = []
            bad = None
            for c in seq:
                arr = store.candles.get_storage('Sandbox', 'BTC-USDT', '1m')
                before = [list(map(float, x)) for x in arr[:]] if len(arr) else []
                try:
                    store.candles.add_candle(np.array(c, dtype=float), 'Sandbox', 'BTC-USDT', '1m', with_execution=False,
                                             with_generation=False)
                except Exception as e:  # noqa
                    bad = ('raises', repr(e)[:120])
                    break
                after = [list(map(float, x)) for x in arr[:]] if len(arr) else []
                tss = [x[0] for x in after]
                if any(a >= b for a, b in zip(tss, tss[1:])):
                    bad = ('not-increasing', tss)
                    break
                cf = list(map(float, c))
                if c[0] != 0 and (not before or c[0] > before[-1][0]):
                    if after != before + [cf]:
                        bad = ('new-not-appended', cf)
                        break
                elif c[0] != 0 and c[0] in [x[0] for x in before]:
                    want = [cf if x[0] == c[0] else x for x in before]
                    if after != want:
                        bad = ('same-timestamp-not-replaced', cf)
                        break
                elif after != before:
                    bad = ('unknown-timestamp-changed-the-store', cf)
                    break
            res.seen(('add', tuple(map(tuple, seq))), any(c[0] in [x[0] for x in seq[:i]] for i, c in enumerate(seq)))
            res.count('add-sequence')
            if bad:
                res.fail(**{'class': 'store/' + bad[0], 'input': {'sequence': seq}, 'observed': bad[1]})
            elif len(res.samples) < 3:
                res.sample({'sequence_ts': [c[0] // M for c in seq], 'stored_ts': [int(x) // M for x in tss] if seq else []})
        # the same rules through the warm-up path: `inject_warmup_candles_to_store` hands a whole series to the store at
        # once — a repeated minute must replace the stored one, an older minute sent again must update in place, the stored
        # series stays strictly increasing with one candle per minute
        from jesse.services.candle import inject_warmup_candles_to_store
        for _ in range(self.budget(60, 1500, boost)):
            seq = [c for c in self.add_sequence(r.randint(2, 30)) if c[0] != 0]
            if not seq:
                continue
            store.candles.init_storage(50)
            try:
                inject_warmup_candles_to_store(np.array(seq, dtype=float), 'Sandbox', 'BTC-USDT')
            except Exception as e:  # noqa
                res.count('warmup-inject:raises:' + type(e).__name__)
                continue
            arr = store.candles.get_storage('Sandbox', 'BTC-USDT', '1m')
            after = [list(map(float, x)) for x in arr[:]] if len(arr) else []
            tss = [x[0] for x in after]
            # the list model of the same sequence
            model = []
            for c in seq:
                cf = list(map(float, c))
                if not model or cf[0] > model[-1][0]:
                    model.append(cf)
                elif cf[0] in [x[0] for x in model]:
                    model = [cf if x[0] == cf[0] else x for x in model]
            res.seen(('warm', tuple(map(tuple, seq))), any(c[0] in [x[0] for x in seq[:i]] for i, c in enumerate(seq)))
            res.count('warmup-inject')
            if any(a >= b for a, b in zip(tss, tss[1:])):
                res.fail(**{'class': 'store/warmup-not-increasing', 'input': {'sequence': seq}, 'observed': tss})
            elif after != model:
                res.fail(**{'class': 'store/warmup-series-differs', 'input': {'sequence': seq},
                            'observed': [int(x) // M for x in tss], 'expected': [int(x[0]) // M for x in model]})
        # spacing
        for d in (2 * M, 0, -M, 59_999, 5 * M):
            cs = [[10 * M, 1, 1, 1, 1, 1], [10 * M + d, 1, 1, 1, 1, 1], [10 * M + d + M, 1, 1, 1, 1, 1]]
            for where in ('traded', 'watched', 'second-traded'):
                res.count('spacing:' + where)
                if self.real_spacing(cs, where):
                    res.fail(**{'class': 'spacing/accepted', 'input': {'candles': cs, 'candle_set_of': where}, 'observed': 'accepted',
                                'params': {'candle_set_of': where}})

    def replay(self, doc):
        print(doc['failure'])
        return 1


CHECK = C20
