"""The table of Lean-modelled indicator kernels and the correspondence pass shared by C13, C14, C15:
the Lean kernel (exact rationals, through the `ind` command of the driver) against the REAL
indicator (floats) on seeded candle series."""
import math
import sys

import core
import indlib
from core import wire


sys.set_int_max_str_digits(0)       # exact rationals of long recursions have thousands of digits


def P(lo, hi):
    return lambda r: r.randint(lo, hi)


def F(*vals):
    return lambda r: r.choice(vals)


# name -> kind ('src' works on a source series, 'cnd' reads candles), params (ordered as the driver expects:
# (python keyword, default, generator)), fields (None = single value), minlen(kw) = shortest input on which the
# real function returns a full-length series (shorter inputs make the REAL function raise or misbehave;
# those regimes belong to the C14 oracle, not to the model), extra = fixed keyword arguments of the real call
MODELS = {
    'sma': dict(kind='src', params=[('period', 5, P(1, 40))]),
    'ema': dict(kind='src', params=[('period', 5, P(1, 40))]),
    'wma': dict(kind='src', params=[('period', 30, P(1, 40))]),
    'smma': dict(kind='src', params=[('period', 5, P(2, 30))]),
    'wilders': dict(kind='src', params=[('period', 5, P(1, 40))]),
    'rma': dict(kind='src', params=[('length', 14, P(1, 40))]),
    'dema': dict(kind='src', params=[('period', 30, P(1, 40))]),
    'tema': dict(kind='src', params=[('period', 9, P(1, 40))]),
    'trima': dict(kind='src', params=[('period', 30, P(1, 40))]),
    'roc': dict(kind='src', params=[('period', 10, P(1, 40))]),
    'mom': dict(kind='src', params=[('period', 10, P(1, 40))], nosrc1d=True),
    'avgprice': dict(kind='cnd', params=[]),
    'medprice': dict(kind='cnd', params=[]),
    'typprice': dict(kind='cnd', params=[]),
    'wclprice': dict(kind='cnd', params=[]),
    'obv': dict(kind='cnd', params=[]),
    'trange': dict(kind='cnd', params=[]),
    'atr': dict(kind='cnd', params=[('period', 14, P(1, 40))]),
    'willr': dict(kind='cnd', params=[('period', 14, P(1, 40))]),
    'donchian': dict(kind='cnd', params=[('period', 20, P(1, 40))], fields=['upperband', 'middleband', 'lowerband'],
                     minlen=lambda kw: kw['period']),
    'rsi': dict(kind='src', params=[('period', 14, P(1, 40))]),
    'macd': dict(kind='src', params=[('fast_period', 12, P(1, 30)), ('slow_period', 26, P(2, 50)), ('signal_period', 9, P(1, 30))],
                 fields=['macd', 'signal', 'hist']),
    'stoch': dict(kind='cnd', params=[('fastk_period', 14, P(1, 40)), ('slowk_period', 3, P(1, 10)), ('slowd_period', 3, P(1, 10))],
                  fields=['k', 'd']),
    'stochf': dict(kind='cnd', params=[('fastk_period', 5, P(1, 40)), ('fastd_period', 3, P(1, 10))], fields=['k', 'd']),
    'cci': dict(kind='cnd', params=[('period', 14, P(1, 40))]),
    'mfi': dict(kind='cnd', params=[('period', 14, P(1, 40))], minlen=lambda kw: kw['period']),
    'stddev': dict(kind='src', params=[('period', 5, P(1, 40)), ('nbdev', 1, F(1, 2, 0.5, 2.5))]),
    # var.py computes mean(x^2) - mean(x)^2 in floats: the cancellation error is relative to x^2, not to the variance
    'var': dict(kind='src', params=[('period', 14, P(1, 40)), ('nbdev', 1, F(1, 2, 0.5, 2.5))],
                atol=lambda c, kw: 1e-9 * float(abs(c[:, 1:6]).max()) ** 2 * kw['nbdev']),
    # bollinger's njit kernel writes period-1 NaNs without a bounds check: shorter inputs corrupt the heap
    'bollinger_bands': dict(kind='src', params=[('period', 20, P(1, 40)), ('devup', 2, F(2, 1, 1.5, 3)), ('devdn', 2, F(2, 1, 2.5))],
                            fields=['upperband', 'middleband', 'lowerband'], minlen=lambda kw: kw['period']),
    'keltner': dict(kind='mix', params=[('period', 20, P(1, 40)), ('multiplier', 2, F(2, 1, 1.5, 3))],
                    fields=['upperband', 'middleband', 'lowerband']),
    'dm': dict(kind='cnd', params=[('period', 14, P(1, 40))], fields=['plus', 'minus']),
    'di': dict(kind='cnd', params=[('period', 14, P(1, 40))], fields=['plus', 'minus']),
    'dx': dict(kind='cnd', params=[('di_length', 14, P(1, 40)), ('adx_smoothing', 14, P(1, 40))], fields=['adx', 'plusDI', 'minusDI']),
    # adx returns a scalar for len <= period (C14-F2): the kernel is compared on longer inputs
    'adx': dict(kind='cnd', params=[('period', 14, P(1, 30))], minlen=lambda kw: kw['period'] + 1),
    # emd's njit kernels read price[i-2] out of bounds below 3 rows; the filter constants are passed to the kernel
    'emd': dict(kind='cnd', params=[('period', 20, P(3, 40)), ('fraction', 0.1, F(0.1, 0.25, 0.5))],
                fields=['upperband', 'middleband', 'lowerband'], minlen=lambda kw: 3, lean_extra=lambda kw: emd_consts(kw['period'], 0.5), nmax=110,
                # period 4 with delta 0.5 is degenerate: gamma = 1/cos(pi/2) is 1.6e16 in floats (a division by zero in exact
                # arithmetic), the filter then amplifies rounding residues without bound
                fix=lambda kw: kw.update(period=5) if kw['period'] == 4 else None),
    # on a constant series the float stages differ from the price by ulps of either sign and cu/(cu+cd) is noise
    # dyadic alpha only: with alpha = 0.2 a constant price gives l0 = 0.2 p + 0.8 p = p(1 + 1e-16) in floats, so that
    # cu/(cu+cd) is 1 where the exact kernel has 0/0 -> 0 (a rounding residue divided by itself, not a model difference)
    'lrsi': dict(kind='cnd', params=[('alpha', 0.25, F(0.25, 0.5, 0.125, 0.75))], skip_kinds=('flat',), nmax=200),
    'er': dict(kind='src', params=[('period', 5, P(1, 30))], minlen=lambda kw: kw['period'] + 1, nmax=150),
    'mab': dict(kind='src', params=[('fast_period', 10, P(1, 20)), ('slow_period', 50, P(2, 60)), ('devup', 1, F(1, 2, 0.5)), ('devdn', 1, F(1, 2, 1.5))],
                fields=['upperband', 'middleband', 'lowerband']),
    'minmax': dict(kind='cnd', params=[('order', 3, P(1, 8))], fields=['is_min', 'is_max', 'last_min', 'last_max']),
}


def emd_consts(period, delta):
    """the band-pass constants of emd.bp_fast (cos / sqrt of the period), computed as the code does"""
    import numpy as np
    beta = np.cos(2 * np.pi / period)
    gamma = 1 / np.cos(4 * np.pi * delta / period)
    alpha = gamma - np.sqrt(gamma * gamma - 1)
    return [float(alpha), float(beta)]


def candle_tokens(c):
    return ' '.join(' '.join(wire(float(x)) for x in row) for row in c)


def lean_line(name, field, src, pvals, c):
    nm = name if field is None else f'{name}.{field}'
    return f'ind {nm} {src} {len(pvals)} ' + ''.join(wire(v) + ' ' for v in pvals) + f'{len(c)} ' + candle_tokens(c)


def parse_reply(out):
    t = out.split()
    if not t or t[0] != 'ok':
        return None
    return [None if x == '_' else x for x in t[1:]]


def agree(model_tokens, real, rel=1e-7, atol=0.0):
    """[None|'n/d'] vs [float]; returns index of first disagreement, -1 for a length mismatch, None when equal"""
    from fractions import Fraction
    if len(model_tokens) != len(real):
        return -1
    for i, (m, x) in enumerate(zip(model_tokens, real)):
        if m is None:
            if not (x != x):
                return i
            continue
        if x != x or math.isinf(x):
            return i
        mv = float(Fraction(m))
        if abs(mv - x) > max(rel * max(1.0, abs(mv), abs(x)), atol):
            return i
    return None


def gen_case(r, name, spec, kinds=None, nmax=300):
    import numpy as np
    kw = {}
    for (k, dflt, g) in spec['params']:
        kw[k] = dflt if r.random() < 0.3 else g(r)
    if 'fix' in spec:
        spec['fix'](kw)
    n = r.choice([r.randint(1, 10), r.randint(1, 10), r.randint(11, 80), r.randint(11, 80), r.randint(81, nmax)])
    if 'minlen' in spec:
        n = max(n, spec['minlen'](kw))
    kind = r.choice(kinds or [k for k in indlib.KINDS if k not in spec.get('skip_kinds', ())])
    n = min(n, spec.get('nmax', nmax))
    c = indlib.candles(r, n, kind, base=r.choice([0.5, 7.0, 100.0, 100.0, 25000.0]))
    # dyadic lattice: prices are multiples of 2^-q, volumes integers, so that float +, -, comparisons of the inputs
    # are exact and a branch of the real (float) kernel cannot differ from the exact kernel through rounding of a tie
    q = 2.0 ** r.choice([4, 6, 8])
    c[:, 1:5] = np.maximum(np.round(c[:, 1:5] * q), 1.0) / q
    c[:, 5] = np.maximum(np.round(c[:, 5]), 1.0)
    c[:, 3] = np.maximum(c[:, 3], np.maximum(c[:, 1], c[:, 2]))
    c[:, 4] = np.minimum(c[:, 4], np.minimum(c[:, 1], c[:, 2]))
    src = r.choice(indlib.SOURCES) if spec['kind'] in ('src', 'mix') else '-'
    return kw, c, src, kind


def real_series(f, spec, kw, c, src):
    """call the real indicator sequentially; returns {field: [floats]} or ('raise', text)"""
    args = dict(kw)
    args.update(spec.get('extra', {}))
    if spec['kind'] in ('src', 'mix'):
        args['source_type'] = src
    st, res = indlib.call(f, c, True, args)
    if st != 'ok':
        return ('raise', res)
    out = {}
    for (fname, v) in indlib.fields(res):
        s = indlib.as_series(v)
        if s is None:
            return ('raise', f'field {fname} is not a series: {type(v).__name__}')
        out[fname] = s
    return out


def correspondence(check, res, boost, quick=260, thorough=6000, only=None):
    """Lean kernel vs real indicator.  A disagreement is a broken tie: class corr/ind/<name>."""
    inds = indlib.indicators()
    r = check.rng
    names = [n for n in MODELS if (only is None or n in only)]
    missing = [n for n in names if n not in inds]
    for n in missing:
        res.fail(**{'class': f'corr/ind/{n}', 'input': None, 'observed': 'the public function no longer exists'})
    names = [n for n in names if n in inds]
    total = check.budget(quick, thorough, boost)
    per = max(total // max(len(names), 1), 3)
    lines, metas = [], []
    for name in names:
        spec = MODELS[name]
        for t in range(per):
            kw, c, src, kind = gen_case(r, name, spec, nmax=300 if t % 6 == 0 else 100)
            real = real_series(inds[name], spec, kw, c, src)
            if isinstance(real, tuple):
                res.discarded += 1
                res.count(f'real-raised:{name}')
                continue
            pvals = [kw[k] for (k, _, _) in spec['params']] + spec.get('lean_extra', lambda kw: [])(kw)
            flds = spec.get('fields') or [None]
            for fld in flds:
                key = 'value' if fld is None else fld
                if key not in real:
                    res.fail(**{'class': f'corr/ind/{name}', 'input': {'params': kw}, 'observed': f'real result has no field {key}',
                                'expected': sorted(real)})
                    continue
                lines.append(lean_line(name, fld, src, pvals, c))
                metas.append((name, fld, kw, src, kind, c, real[key]))
    outs = core.Driver.run(lines) if lines else []
    for (name, fld, kw, src, kind, c, real), line, out in zip(metas, lines, outs):
        mt = parse_reply(out)
        res.count(name)
        res.count('kind:' + kind)
        n = len(c)
        nontrivial = mt is not None and any(x is not None for x in mt)
        res.seen((name, fld, tuple(sorted(kw.items())), src, n, hash(c.tobytes())), nontrivial)
        if mt is None:
            res.fail(**{'class': f'corr/ind/{name}', 'input': {'line': line[:300]}, 'observed': out[:100],
                        'how': 'the driver rejected the request'})
            continue
        i = agree(mt, real, atol=MODELS[name]['atol'](c, kw) if 'atol' in MODELS[name] else 0.0)
        if i is not None:
            res.fail(**{'class': f'corr/ind/{name}',
                        'input': {'indicator': name, 'field': fld, 'params': kw, 'source_type': src, 'kind': kind,
                                  'candles': indlib.jsonable_candles(c)},
                        'observed_model': (mt[i] if i >= 0 else f'length {len(mt)}'),
                        'expected_impl': (real[i] if i >= 0 else f'length {len(real)}'),
                        'row': i, 'how': 'Lean kernel (exact) vs real indicator (float), relative tolerance 1e-7'})
        elif n >= 8:
            res.sample({'indicator': name, 'field': fld, 'params': kw, 'source': src, 'n': n, 'kind': kind,
                        'last_model': mt[-1], 'last_impl': real[-1]}, cap=3)
