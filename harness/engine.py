"""Engine-level harness: seeded candle generators, a scripted strategy interpreted by a real
`Strategy` subclass, and a tracer that records what the real engine does (orders, fills, cancels,
hook calls, equity samples).  Used by the oracles of C01, C02, C05–C07, C09, C10, C12, C16."""
import copy

import bt
import jesse_env

M = 60_000


# ------------------------------------------------------------------------------------------ candles
TF_NAMES = {1: '1m', 3: '3m', 5: '5m', 15: '15m', 30: '30m', 45: '45m', 60: '1h', 120: '2h'}


def gen_candles(rng, n, base=100.0, step=0.125, vol=4, gap_prob=0.15, flat_prob=0.05, start_ts=None, trend=0.0, doji_prob=0.1):
    """valid 1m candles on a dyadic price lattice (multiples of `step`): float +,-,* are exact on it.
    Returns rows [(o, c, h, l, v)]; gaps between close and next open with probability gap_prob."""
    rows = []
    p = base
    for i in range(n):
        o = p
        if rng.random() < gap_prob:
            o = max(step, p + rng.choice([-3, -2, -1, 1, 2, 3]) * step)
        if rng.random() < flat_prob:
            c = h = l = o
        elif rng.random() < doji_prob:
            # flat body with wicks on both sides (open == close): the rising/falling tie of the price path
            c = o
            h = o + rng.randint(1, vol) * step
            l = max(step, o - rng.randint(1, vol) * step)
        else:
            c = max(step, o + (rng.randint(-vol, vol) + trend) * step)
            h = max(o, c) + rng.randint(0, vol) * step
            l = max(step / 2 if False else step, min(o, c) - rng.randint(0, vol) * step)
            l = min(l, o, c)
        rows.append((float(o), float(c), float(h), float(l), float(rng.randint(1, 9))))
        p = c
    return rows


# ------------------------------------------------------------------------------------------ tracer
class Tracer:
    """wraps Order.__init__/execute/cancel and the equity sampling; events carry submission ordinals"""

    def __init__(self):
        self.events = []
        self.ordinals = {}
        self.orders = []
        self.samples = []
        self.final = None
        self.noops = []
        self._undo = []

    def install(self):
        jesse_env.setup()
        from jesse.models import Order
        from jesse.store import store
        import jesse.modes.backtest_mode as bm
        tr = self
        o_init, o_exec, o_cancel = Order.__init__, Order.execute, Order.cancel

        def init(self_, attributes=None, should_silent=False, **kw):
            try:
                o_init(self_, attributes, should_silent, **kw)
            except Exception as e:  # noqa
                tr.events.append(('REJECT', type(e).__name__, store.app.time,
                                  (attributes or {}).get('symbol'), (attributes or {}).get('side'),
                                  (attributes or {}).get('type'), (attributes or {}).get('qty'),
                                  (attributes or {}).get('price')))
                raise
            n = len(tr.orders)
            tr.ordinals[id(self_)] = n
            tr.orders.append(self_)
            p = self_.position
            tr.events.append(('SUBMIT', n, store.app.time, self_.symbol, self_.side, self_.type, self_.qty, self_.price,
                              bool(self_.reduce_only), p.current_price if p else None))

        def execute(self_, silent=False):
            before = self_.status
            n = tr.ordinals.get(id(self_))
            if before in ('EXECUTED', 'CANCELED'):
                tr.events.append(('EXECUTE-NOOP', n, store.app.time))
                s0 = account_state()
                r = o_exec(self_, silent)
                tr.noops.append(('execute', n, s0 == account_state() and self_.status == before))
                return r
            tr.events.append(('FILL', n, store.app.time, self_.symbol, self_.side, self_.type, self_.qty, self_.price))

            def wallet():
                try:
                    ex = store.exchanges.storage[self_.exchange]
                    return float(ex.wallet_balance) if ex.type == 'futures' else None
                except Exception:  # noqa
                    return None
            w0 = wallet()
            r = o_exec(self_, silent)
            p = self_.position
            if p is not None:
                tr.events.append(('POS', self_.symbol, p.qty, p.entry_price, w0, wallet()))
            return r

        def cancel(self_, silent=False, source=''):
            before = self_.status
            n = tr.ordinals.get(id(self_))
            if before in ('EXECUTED', 'CANCELED'):
                tr.events.append(('CANCEL-NOOP', n, store.app.time))
                s0 = account_state()
                r = o_cancel(self_, silent, source)
                tr.noops.append(('cancel', n, s0 == account_state() and self_.status == before))
                return r
            tr.events.append(('CANCEL', n, store.app.time))
            return o_cancel(self_, silent, source)

        Order.__init__, Order.execute, Order.cancel = init, execute, cancel
        self._undo.append(lambda: (setattr(Order, '__init__', o_init), setattr(Order, 'execute', o_exec),
                                   setattr(Order, 'cancel', o_cancel)))
        o_save = bm.save_daily_portfolio_balance

        def save(is_initial=False):
            r = o_save(is_initial)
            tr.samples.append({'time': store.app.time, 'value': store.app.daily_balance[-1],
                               'state': account_state()})
            tr.events.append(('DAILY', store.app.time, store.app.daily_balance[-1]))
            return r
        bm.save_daily_portfolio_balance = save
        self._undo.append(lambda: setattr(bm, 'save_daily_portfolio_balance', o_save))
        # orders created inside _check_for_liquidations are the simulator's force-closing orders
        o_liq = bm._check_for_liquidations
        tr.liq_orders = set()

        def check_liq(*a, **kw):
            before = len(tr.orders)
            try:
                return o_liq(*a, **kw)
            finally:
                tr.liq_orders.update(range(before, len(tr.orders)))
        bm._check_for_liquidations = check_liq
        self._undo.append(lambda: setattr(bm, '_check_for_liquidations', o_liq))
        o_gen = bm._generate_outputs

        def gen(*a, **kw):
            # the session is over (strategies terminated): snapshot what research.backtest will reset
            tr.final = {
                'trades': [tr.trade_dict(t) for t in store.completed_trades.trades],
                'temp_trades': {k: tr.trade_dict(t) for k, t in store.completed_trades.tempt_trades.items()},
                'state': account_state(),
                'daily_balance': list(store.app.daily_balance),
                'starting_time': store.app.starting_time, 'time': store.app.time,
                'liquidations': store.app.total_liquidations,
                'order_status': [o.status for o in tr.orders],
            }
            return o_gen(*a, **kw)
        bm._generate_outputs = gen
        self._undo.append(lambda: setattr(bm, '_generate_outputs', o_gen))
        return self

    def trade_dict(self, t):
        def safe(f):
            try:
                return f()
            except Exception as e:  # noqa
                return f'!{type(e).__name__}'
        return {'type': t.type, 'symbol': t.symbol, 'orders': [self.ordinals.get(id(o)) for o in t.orders],
                'opened_at': t.opened_at, 'closed_at': t.closed_at,
                'qty': safe(lambda: t.qty), 'entry_price': safe(lambda: t.entry_price), 'exit_price': safe(lambda: t.exit_price),
                'pnl': safe(lambda: t.pnl), 'fee': safe(lambda: t.fee),
                'buys': [list(map(float, r)) for r in t.buy_orders[:]] if len(t.buy_orders) else [],
                'sells': [list(map(float, r)) for r in t.sell_orders[:]] if len(t.sell_orders) else []}

    def uninstall(self):
        for u in reversed(self._undo):
            u()
        self._undo = []

    def __enter__(self):
        return self.install()

    def __exit__(self, *a):
        self.uninstall()


def account_state():
    """wallet, per-position qty/entry/price/pnl, spot: assets — read from the real store"""
    from jesse.store import store
    out = {'exchanges': {}, 'positions': {}}
    for name, e in store.exchanges.storage.items():
        out['exchanges'][name] = {'type': e.type, 'assets': dict(e.assets)}
        if e.type == 'futures':
            out['exchanges'][name]['wallet'] = e.wallet_balance
            out['exchanges'][name]['available_margin'] = e.available_margin
    for key, p in store.positions.storage.items():
        out['positions'][key] = {'qty': p.qty, 'entry': p.entry_price, 'price': p.current_price,
                                 'pnl': p.pnl if p.current_price is not None else 0}
    out['active_orders'] = {k: [(o.side, o.type, o.qty, o.price, bool(o.reduce_only)) for o in v if o.is_active]
                            for k, v in store.orders.active_storage.items()}
    return out


# ------------------------------------------------------------------------------------------ scripted strategy
def make_strategy(script, observer=None, name='S'):
    """A real Strategy subclass interpreting `script` (a dict, see gen_script).  `observer(strategy, hook)`
    is called at every hook."""
    jesse_env.setup()
    from jesse.strategies import Strategy

    def rows(strategy, spec, base):
        out = []
        for (q, off) in spec:
            out.append((q, base + off))
        return out

    class Scripted(Strategy):
        def _obs(self, hook, order=None):
            if observer is not None:
                observer(self, hook, order)

        def before(self):
            self._obs('before')

        def after(self):
            self._obs('after')

        def _gate(self):
            """entries only while the last candle of the gate timeframe (a trading or data route of this symbol)
            closed at or above its open; no candle yet = no entry"""
            g = script.get('gate')
            if g is None:
                return True
            c = self.get_candles(self.exchange, self.symbol, TF_NAMES[g])
            return len(c) > 0 and bool(c[-1][2] >= c[-1][1])

        def should_long(self):
            self._obs('should_long')
            e = script.get('long')
            return bool(e) and self.index % e['every'] == e.get('phase', 0) and self._gate()

        def should_short(self):
            self._obs('should_short')
            e = script.get('short')
            return bool(e) and self.index % e['every'] == e.get('phase', 0) and not (
                script.get('long') and self.index % script['long']['every'] == script['long'].get('phase', 0)) and self._gate()

        def go_long(self):
            e = script['long']
            self.vars['entered_at'] = self.index
            self.buy = rows(self, e['rows'], self.price)
            if e.get('sl'):
                self.stop_loss = rows(self, e['sl'], self.price)
            if e.get('tp'):
                self.take_profit = rows(self, e['tp'], self.price)
            self._obs('go_long')

        def go_short(self):
            e = script['short']
            self.vars['entered_at'] = self.index
            self.sell = rows(self, e['rows'], self.price)
            if e.get('sl'):
                self.stop_loss = rows(self, e['sl'], self.price)
            if e.get('tp'):
                self.take_profit = rows(self, e['tp'], self.price)
            self._obs('go_short')

        def should_cancel_entry(self):
            self._obs('should_cancel_entry')
            n = script.get('cancel_after')
            return n is not None and self.index - self.vars.get('entered_at', 0) >= n

        def on_open_position(self, order):
            e = script.get('on_open')
            if e:
                # 'base': 'price' (oracle sessions only; the Lean model and the wire format know only the entry price):
                # exits measured from what the position is marked at WHEN THE HOOK RUNS — the fill price in the
                # normal simulator, so both bases agree there for a single-fill entry
                base = self.position.current_price if e.get('base') == 'price' else self.position.entry_price
                sign = 1 if self.is_long else -1
                if e.get('sl'):
                    self.stop_loss = [(q if q else abs(self.position.qty), base - sign * off) for (q, off) in e['sl']]
                if e.get('tp'):
                    self.take_profit = [(q if q else abs(self.position.qty), base + sign * off) for (q, off) in e['tp']]
            self._obs('on_open_position', order)

        def _declare_exit(self, name, qty, price, inplace):
            """a new declaration: by assignment, or (inplace) by editing the formatted array the strategy already
            holds — the same declaration as far as the property (and the model) is concerned"""
            import numpy as np
            cur = getattr(self, name)
            if inplace and isinstance(cur, np.ndarray) and cur.shape == (1, 2):
                cur[0, 0] = qty
                cur[0, 1] = price
            else:
                setattr(self, name, (qty, price))

        def update_position(self):
            e = script.get('update')
            if e and self.index % e['every'] == 0:
                sign = 1 if self.is_long else -1
                if e.get('sl') is not None:
                    self._declare_exit('stop_loss', abs(self.position.qty), self.price - sign * e['sl'], e.get('inplace'))
                if e.get('tp') is not None:
                    self._declare_exit('take_profit', abs(self.position.qty), self.price + sign * e['tp'], e.get('inplace'))
            # withdrawing an exit: an empty declaration (its resting orders must go)
            if script.get('withdraw_tp_at') is not None and self.index == script['withdraw_tp_at']:
                self.take_profit = []
            if script.get('withdraw_sl_at') is not None and self.index == script['withdraw_sl_at']:
                self.stop_loss = []
            if script.get('liquidate_at') is not None and self.index == script['liquidate_at']:
                self.liquidate()
            self._obs('update_position')

        def on_increased_position(self, order):
            self._obs('on_increased_position', order)

        def on_reduced_position(self, order):
            self._obs('on_reduced_position:enter', order)      # before this hook changes any declaration
            e = script.get('on_reduced')
            if e:
                sign = 1 if self.is_long else -1
                if e.get('sl') is not None:
                    self.stop_loss = (abs(self.position.qty), self.position.entry_price - sign * e['sl'])
            self._obs('on_reduced_position', order)

        def on_close_position(self, order):
            self._obs('on_close_position:enter', order)
            self._obs('on_close_position', order)

        # events of the OTHER routes (scripts with an 'on_route' entry; used by oracle sessions only — the Lean model
        # and the wire format know no such hook): a route that holds a position re-declares its stop-loss
        def _route_event(self, name):
            e = script.get('on_route')
            if e and self.position.is_open:
                sign = 1 if self.is_long else -1
                self.stop_loss = (abs(self.position.qty), self.price - sign * e['sl'])
            self._obs(name)

        def on_route_open_position(self, strategy):
            self._route_event('on_route_open_position')

        def on_route_close_position(self, strategy):
            self._route_event('on_route_close_position')

        def on_route_increased_position(self, strategy):
            self._route_event('on_route_increased_position')

        def on_route_reduced_position(self, strategy):
            self._route_event('on_route_reduced_position')

        def on_route_canceled(self, strategy):
            self._route_event('on_route_canceled')

        def on_cancel(self):
            self._obs('on_cancel')

        def before_terminate(self):
            self._obs('before_terminate')

        def terminate(self):
            self._obs('terminate')

    Scripted.__name__ = name
    return Scripted


def gen_script(rng, spot=False, step=0.125, rich=True, tight=False, force=None, route_hooks=False):
    """a random script biased to valid sessions (affordable sizes, no shorts on spot).
    tight=True: exits a few ticks from the entry so that several orders are reachable inside one minute"""
    def off(lo, hi):
        if tight:
            lo, hi = max(1, lo // 3), max(2, hi // 2)
        return rng.randint(lo, hi) * step
    s = {}
    kind = rng.choice(['market', 'limit', 'stop', 'ladder', 'straddle'])
    q = rng.choice([0.25, 0.5, 1.0, 2.0, 0.1, 0.3, 0.7])      # dyadic and decimal sizes (0.1 + 0.2 is inexact in floats)
    if force:
        kind = force.get('kind', kind)
        q = force.get('q', q)
    q2 = {0.1: 0.2, 0.3: 0.1, 0.7: 0.2}.get(q, q)               # second ladder row

    def dsum(xs):
        """exact decimal sum (what jesse's sum_floats computes), as a float"""
        from fractions import Fraction
        return float(sum(Fraction(repr(float(x))) for x in xs))

    def entry_rows(side):
        sg = 1 if side == 'long' else -1
        if kind == 'market':
            return [(q, 0.0)]
        if kind == 'limit':
            return [(q, -sg * off(1, 4))]
        if kind == 'stop':
            return [(q, sg * off(1, 4))]
        if kind == 'straddle':
            # one row on each side of the price: a LIMIT and a STOP entry resting around the open
            return [(q, -sg * off(1, 3)), (q2, sg * off(1, 3))]
        return [(q, -sg * off(1, 3)), (q2, -sg * off(4, 6))]
    every = rng.choice([1, 2, 3, 5, 7])
    s['long'] = {'every': every, 'phase': rng.randrange(every), 'rows': entry_rows('long')}
    if not spot and rng.random() < 0.6:
        ev2 = rng.choice([2, 3, 5])
        s['short'] = {'every': ev2, 'phase': rng.randrange(ev2), 'rows': entry_rows('short')}
    tot = dsum(r[0] for r in s['long']['rows'])
    style = rng.choice(['go', 'on_open', 'none']) if not spot else rng.choice(['on_open', 'none'])
    if force and force.get('style') and not (spot and force['style'] == 'go'):
        style = force['style']
    if style == 'go':
        for side in ('long', 'short'):
            if side in s:
                sg = 1 if side == 'long' else -1
                t = dsum(r[0] for r in s[side]['rows'])
                s[side]['sl'] = [(t, -sg * off(6, 12))]
                s[side]['tp'] = [(t / 2, sg * off(6, 9)), (t / 2, sg * off(10, 14))] if rng.random() < 0.5 else [(t, sg * off(6, 12))]
        if rich and kind in ('limit', 'stop', 'ladder') and rng.random() < 0.3:
            # an exit declared with a RESTING entry that lies on the WRONG side of the entry price once the entry fills
            # (a stop-loss between the price and a LIMIT entry, a take-profit between the price and a STOP entry): the
            # strategy layer replaces it by a MARKET order when the position opens — and the fill's hook then declares
            # the exit anew (the replacement must go, like any other order of the superseded declaration)
            for side in ('long', 'short'):
                if side in s:
                    sg = 1 if side == 'long' else -1
                    t = dsum(r[0] for r in s[side]['rows'])
                    first = s[side]['rows'][0][1]
                    s[side]['sl' if kind != 'stop' else 'tp'] = [(t, first + (sg if kind != 'stop' else -sg) * step)]
            s['on_open'] = {('sl' if kind != 'stop' else 'tp'): [(0, off(5, 12))]}
    elif style == 'on_open':
        s['on_open'] = {'sl': [(0, off(5, 12))], 'tp': [(0, off(5, 12))]}
        if rich and rng.random() < 0.2:
            # an exit AT the entry price, declared from the hook of the entry's fill: with a MARKET entry the exit is
            # at the current price, so it becomes a MARKET order submitted while the pending MARKET orders are drained
            # (half of the position, or all of it)
            half = rng.random() < 0.5
            rows = [(dsum([tot]) / 2 if half and kind in ('market', 'limit', 'stop') else 0, 0.0)]
            s['on_open'][rng.choice(['sl', 'tp'])] = rows
    if rng.random() < 0.5:
        s['cancel_after'] = rng.choice([1, 2, 4])
    if rich and rng.random() < 0.4:
        s['update'] = {'every': rng.choice([1, 2, 3]), 'sl': off(4, 10), 'inplace': rng.random() < 0.5}
        if rng.random() < 0.4:
            s['update']['tp'] = off(4, 10)
    if rich and rng.random() < 0.08:
        # a bracket so tight that both exits are within 0.015 % of the price: both become MARKET orders in the same step
        s['update'] = {'every': rng.choice([1, 2]), 'sl': 0.0, 'tp': step / 16, 'inplace': False}
    if rich and rng.random() < 0.3:
        s['on_reduced'] = {'sl': 0.0 if rng.random() < 0.5 else off(1, 3)}
    if rich and rng.random() < 0.2:
        s['liquidate_at'] = rng.randint(3, 40)
    if rich and style != 'none' and rng.random() < 0.25:
        s[rng.choice(['withdraw_tp_at', 'withdraw_sl_at'])] = rng.randint(1, 30)
    if route_hooks and rng.random() < 0.8:
        s['on_route'] = {'sl': off(4, 10)}
    return s


# ------------------------------------------------------------------------------------------ sessions
def run_session(cfg, routes, data_routes, candles, scripts, observer=None, warmup=None, fast_mode=False,
                hyperparameters=None):
    """routes: [(symbol, timeframe)], scripts: {symbol: script}.  Returns (trace, result | exception)."""
    classes = [(sym, tf, make_strategy(scripts[sym], observer, name=f'S_{sym[:3]}')) for (sym, tf) in routes]
    tr = Tracer()
    err = None
    res = None
    with tr:
        try:
            res = bt.run(cfg, classes, data_routes, copy.deepcopy(candles), warmup_candles=copy.deepcopy(warmup),
                         fast_mode=fast_mode, hyperparameters=hyperparameters)
        except Exception as e:  # noqa
            err = e
    return tr, res, err
