"""Importing and driving the real jesse code from a harness process, outside pytest
(production branches active: jh.is_unit_testing() is False)."""
import os
import sys
import tempfile
import warnings

_ready = False


def setup():
    global _ready
    if _ready:
        return
    repo = os.environ.get('JESSE_REPO', '/repo')
    if repo not in sys.path:
        sys.path.insert(0, repo)
    d = tempfile.mkdtemp(prefix='jv_cwd_')
    os.chdir(d)
    warnings.filterwarnings('ignore')
    os.environ.setdefault('NUMBA_DISABLE_PERFORMANCE_WARNINGS', '1')
    _ready = True


def cleanup():
    import shutil
    d = os.getcwd()
    if os.path.basename(d).startswith('jv_cwd_'):
        os.chdir('/')
        shutil.rmtree(d, ignore_errors=True)
