#!/bin/bash
# confirm several seeded changes in parallel, each in its own copy of /verif (with build output) and clone of /repo
# usage: seeded_parallel.sh "<name> <src_dir> <check ids…>" …        results are copied back to /verif/seeded/<name>/
set -u
ROOT=/tmp/sv
mkdir -p $ROOT
for spec in "$@"; do
  set -- $spec
  name=$1; src=$2; shift 2; ids="$*"
  (
    d=$ROOT/$name
    rm -rf $d; mkdir -p $d
    rsync -a --exclude replays /verif/ $d/verif/
    git clone -q /repo $d/repo
    cd $d/verif && SEED_REPO=$d/repo /venv/bin/python harness/seeded.py confirm $name $src $ids > $d/log 2>&1
    mkdir -p /verif/seeded/$name && cp $d/verif/seeded/$name/* /verif/seeded/$name/
    echo "== $name"; tail -40 $d/log | grep -E '"confirmed"|"caught_by"|suite_with|rc"|failure_class|violation' | tr -d '\n'; echo
    rm -rf $d
  ) &
done
wait
