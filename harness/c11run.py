"""C11 runner: executes a sequence of `research.backtest` calls IN ONE PROCESS (no harness-side clean-up between
them — that is the point) and prints, per call, what the session observed and returned.

    python c11run.py < {"calls": [spec, ...]}  ->  [observation, ...]

spec: exchange, kind, leverage, mode, fee, balance, warmup, fast, symbol, tf, droutes [[symbol, tf]], n, candle_seed,
      hp (int), abort: null | ["hook", k] | ["reject", k]
"""
import copy
import json
import math
import random
import sys

import jesse_env

jesse_env.setup()

import numpy as np  # noqa: E402

import bt  # noqa: E402
import engine  # noqa: E402


class Abort(Exception):
    pass


def make_probe(spec, obs):
    from jesse.strategies import Strategy
    import jesse.helpers as jh
    from jesse.store import store

    abort = spec.get('abort')

    class Probe(Strategy):
        def hyperparameters(self):
            # two declared; an explicitly passed dict names only `every` (a PARTIAL hyperparameters argument: the
            # session must neither complete the caller's dict in place nor fail, as long as `share` is only .get())
            return [{'name': 'every', 'type': int, 'min': 3, 'max': 40, 'default': 7},
                    {'name': 'share', 'type': float, 'min': 0.1, 'max': 0.3, 'default': 0.2}]

        def before(self):
            if 'type' not in obs:
                ex = self.position.exchange if hasattr(self.position, 'exchange') else None
                obs.update({
                    'type': self.exchange_type, 'leverage': self.leverage,
                    'mode': getattr(ex, 'futures_leverage_mode', None) if self.exchange_type == 'futures' else None,
                    'fee': self.fee_rate, 'balance0': self.balance,
                    'warmup': jh.get_config('env.data.warmup_candles_num'),
                    'first_index': self.index, 'first_time': int(self.time), 'every': self.hp['every'],
                })
            obs['orders'] = len(store.orders.get_orders(self.exchange, self.symbol))
            obs['last_index'] = self.index
            if abort and abort[0] == 'hook' and self.index == abort[1]:
                raise Abort('scripted abort')

        def should_long(self):
            return self.index % self.hp['every'] == 2

        def should_short(self):
            return False

        def should_cancel_entry(self):
            return True

        def go_long(self):
            if abort and abort[0] == 'reject' and self.index >= abort[1]:
                self.buy = 1e9, self.price
                return
            qty = round(self.balance * (self.hp.get('share', 0.2) if self.hp else 0.2) / self.price, 3)
            obs['submitted'] = True
            self.vars['just_submitted'] = self.index
            self.buy = qty, self.price

        def after(self):
            # abort AFTER a MARKET order was submitted in this very step and before the simulator executes the pending
            # MARKET orders: the order is still queued when the session dies
            if abort and abort[0] == 'after' and self.index >= abort[1] and self.vars.get('just_submitted') == self.index:
                raise Abort('scripted abort after a submission')

        def on_open_position(self, order):
            obs['opened_at'] = self.index
            obs['placed'] = True
            self.stop_loss = self.position.qty, self.position.entry_price - 3
            self.take_profit = self.position.qty, self.position.entry_price + 3

        def update_position(self):
            if self.index - obs.get('opened_at', 0) >= 4:
                self.liquidate()

        def terminate(self):
            obs['orders'] = len(store.orders.get_orders(self.exchange, self.symbol))
            obs['end_balance'] = self.balance
            obs['trades_count'] = self.trades_count

    return Probe


def canon(x):
    if isinstance(x, dict):
        return {str(k): canon(v) for k, v in sorted(x.items(), key=lambda kv: str(kv[0]))}
    if isinstance(x, (list, tuple)):
        return [canon(v) for v in x]
    if isinstance(x, (float, np.floating)):
        x = float(x)
        if math.isnan(x):
            return 'nan'
        if math.isinf(x):
            return 'inf' if x > 0 else '-inf'
        return float(f'{x:.10g}')
    if isinstance(x, (int, np.integer)):
        return int(x)
    if isinstance(x, np.ndarray):
        return canon(x.tolist())
    if x is None or isinstance(x, (str, bool)):
        return x
    return repr(x)


def same(a, b):
    if isinstance(a, dict):
        return isinstance(b, dict) and a.keys() == b.keys() and all(same(a[k], b[k]) for k in a)
    if isinstance(a, (list, tuple)):
        return type(a) is type(b) and len(a) == len(b) and all(same(x, y) for x, y in zip(a, b))
    if isinstance(a, np.ndarray):
        return isinstance(b, np.ndarray) and a.shape == b.shape and np.array_equal(a, b)
    return a is b or a == b


KEPT = []      # (call index, argument objects, snapshot taken before the call, route dicts before the call) of every call so far
REUSE = {}     # spec -> the argument objects of its first call: an identical later call passes the SAME objects again


def one_call(spec):
    from jesse import research
    key = json.dumps(spec, sort_keys=True)
    if key in REUSE:
        return run_call(spec, *REUSE[key])
    obs = {}
    ex = spec['exchange']
    cfg = {'starting_balance': spec['balance'], 'fee': spec['fee'], 'type': spec['kind'],
           'futures_leverage': spec['leverage'], 'futures_leverage_mode': spec['mode'], 'exchange': ex,
           'warm_up_candles': spec['warmup']}
    syms = sorted({spec['symbol']} | {s for s, _ in spec.get('droutes', [])})
    rr = random.Random(spec['candle_seed'])
    nw = spec.get('warmup_rows', 0)
    arrs = {s: bt.make_candles(engine.gen_candles(rr, spec['n'] + nw, gap_prob=0.1, vol=4)) for s in syms}
    candles = {f'{ex}-{s}': {'exchange': ex, 'symbol': s, 'candles': a[nw:]} for s, a in arrs.items()}
    warm = {f'{ex}-{s}': {'exchange': ex, 'symbol': s, 'candles': a[:nw]} for s, a in arrs.items()} if nw else None
    routes = [{'exchange': ex, 'strategy': make_probe(spec, obs), 'symbol': spec['symbol'], 'timeframe': spec['tf']}]
    droutes = [{'exchange': ex, 'symbol': s, 'timeframe': tf} for s, tf in spec.get('droutes', [])]
    hp = {'every': spec['hp']} if spec.get('hp') else None
    args = {'config': cfg, 'routes': routes, 'data_routes': droutes, 'candles': candles, 'warmup_candles': warm,
            'hyperparameters': hp}
    REUSE[key] = (args, obs)
    return run_call(spec, args, obs)


def run_call(spec, args, obs):
    """one research.backtest call on the given argument objects (possibly the very objects of an earlier identical call)"""
    from jesse import research
    obs.clear()
    cfg, routes, droutes, candles, warm, hp = (args[k] for k in ('config', 'routes', 'data_routes', 'candles', 'warmup_candles',
                                                                 'hyperparameters'))
    before = copy.deepcopy({k: v for k, v in args.items() if k != 'routes'})
    routes_before = [dict(r) for r in routes]
    out = {'error': None, 'result': None}
    try:
        r = research.backtest(cfg, routes, droutes, candles, warmup_candles=warm, hyperparameters=hp,
                              fast_mode=spec['fast'], generate_equity_curve=spec.get('equity', False))
        out['result'] = canon(r.get('metrics'))
        if spec.get('equity') and r.get('equity_curve'):
            out['equity_tail'] = canon(r['equity_curve'][0]['data'][-3:]) if isinstance(r['equity_curve'], list) else None
    except Exception as e:  # noqa
        out['error'] = type(e).__name__
    after = {k: v for k, v in args.items() if k != 'routes'}
    out['args_unmodified'] = same(before, after) and all(same(a, b) for a, b in zip(routes_before, routes)) \
        and len(routes_before) == len(routes)
    out['observed'] = canon(obs)
    # purity towards EARLIER calls: no later call may change the argument objects a previous call was given
    out['earlier_args_modified'] = None
    for (i, a, b, rb) in KEPT:
        if a is args:
            continue
        now = {k: v for k, v in a.items() if k != 'routes'}
        if not (same(b, now) and len(rb) == len(a['routes']) and all(same(x, y) for x, y in zip(rb, a['routes']))):
            out['earlier_args_modified'] = i
            break
    KEPT.append((len(KEPT), args, before, routes_before))
    return out


def main():
    doc = json.load(sys.stdin)
    outs = []
    for spec in doc['calls']:
        outs.append(one_call(spec))
    sys.stdout.write('\n@@C11@@' + json.dumps(outs) + '\n')
    sys.stdout.flush()
    jesse_env.cleanup()


if __name__ == '__main__':
    main()
