#!/usr/bin/env python3
"""rewrites the seeded-change table of DESIGN.md (between the SEEDED-TABLE markers) from seeded/*/meta.json"""
import glob
import json
import os
import re

VERIF = os.path.dirname(os.path.dirname(os.path.abspath(__file__)))


def rows():
    out = []
    for d in sorted(glob.glob(os.path.join(VERIF, 'seeded', '*'))):
        m = json.load(open(os.path.join(d, 'meta.json')))
        cr = m.get('checks_run', {})
        caught, missed = [], []
        for k, v in cr.items():
            if v.get('rc') == 1:
                how = 'concrete failing input' if 'no-failing' not in (v.get('violation') or '') else 'broken correspondence, no failing input found'
                caught.append(f"{k}: `{v.get('failure_class')}` ({how})")
            elif v.get('rc') == 0:
                missed.append(k)
            else:
                missed.append(f"{k} (rc {v.get('rc')})")
        title = (m.get('title') or '').replace('|', '/')
        out.append(f"| `{os.path.basename(d)}` | {title} | {', '.join(os.path.basename(f) for f in m.get('files', []))} | "
                   f"{'; '.join(caught) or '—'} | {', '.join(missed) or '—'} |")
    return out


def main():
    p = os.path.join(VERIF, 'DESIGN.md')
    s = open(p).read()
    table = ['| seeded change | what was changed | file | caught by (first failure class) | also run, silent (not the owning property) |',
             '|---|---|---|---|---|'] + rows()
    block = '<!-- SEEDED-TABLE-BEGIN -->\n' + '\n'.join(table) + '\n<!-- SEEDED-TABLE-END -->'
    if '<!-- SEEDED-TABLE-BEGIN -->' in s:
        s = re.sub(r'<!-- SEEDED-TABLE-BEGIN -->.*?<!-- SEEDED-TABLE-END -->', lambda _: block, s, flags=re.S)
    else:
        raise SystemExit('markers missing in DESIGN.md')
    open(p, 'w').write(s)
    print(len(table) - 2, 'rows')


if __name__ == '__main__':
    main()
