"""Whole-session correspondence: the real engine (research.backtest + scripted strategy + tracer) and
the Lean engine model (Driver/Eng.lean) run the same session; their event traces are compared."""
import random

import bt
import core
import engine
import purecorr
from core import wire

M = 60_000
SYMS = ['BTC-USDT', 'ETH-USDT']
TFM = {'1m': 1, '3m': 3, '5m': 5, '15m': 15, '30m': 30, '45m': 45, '1h': 60, '2h': 120}
ERR = {'InvalidStrategy': 'InvalidStrategy', 'InsufficientMargin': 'InsufficientMargin',
       'InsufficientBalance': 'InsufficientBalance', 'OrderNotAllowed': 'OrderNotAllowed', 'ValueError': 'ValueError',
       'TypeError': 'TypeError', 'IndexError': 'IndexError'}


def gen_session(rng, max_n=180, allow_two=True, fast=None, kinds=('futures', 'futures', 'spot'), isolated=None,
                tfs=('1m', '1m', '3m', '5m', '15m'), data=True, leverage=None, rich=True, tight=False, vol=4, gap_prob=0.2,
                lengths=None, force=None, watch=False):
    nsym = rng.choice([1, 1, 2]) if allow_two else 1
    if watch:
        # one traded symbol on a timeframe above 1m plus a symbol that is only watched, also above 1m
        nsym = 1
        tfs = tuple(t for t in tfs if t != '1m') or ('3m', '5m')
    syms = SYMS[:nsym]
    routes = [(s, rng.choice(tfs)) for s in syms]
    droutes = []
    if watch:
        syms = SYMS[:2]
        droutes.append((SYMS[1], rng.choice(['3m', '5m', '15m'])))
    elif allow_two and data and nsym == 1 and rng.random() < 0.25:
        # a second symbol that is only watched (data routes, no trading route)
        syms = SYMS[:2]
        droutes.append((SYMS[1], rng.choice(['1m', '3m', '5m', '15m'])))
    if data:
        for s in syms:
            for tf in rng.sample(['3m', '5m', '15m', '30m'], rng.randint(0, 2)):
                if (s, tf) not in routes and (s, tf) not in droutes:
                    droutes.append((s, tf))
    kind = rng.choice(kinds)
    n = rng.choice(lengths or [30, 45, 60, 90, 120, max_n])
    scripts = {s: engine.gen_script(rng, spot=kind == 'spot', rich=rich, tight=tight, force=force) for s in syms}
    # a third of the strategies read candles of a larger timeframe of their symbol (trading or data route) and only
    # enter while its last candle closed up: the trace then depends on what get_candles() returns
    for s in syms:
        tfs = sorted({TFM[tf] for (x, tf) in routes + droutes if x == s and tf != '1m'})
        if tfs and rng.random() < 0.35:
            scripts[s]['gate'] = rng.choice(tfs)
    return {
        'kind': kind, 'balance': 100_000, 'fee': rng.choice([0, 0, 1 / 1024, 1 / 512]),
        'leverage': leverage if leverage is not None else rng.choice([1, 2, 5, 10]),
        'isolated': (rng.random() < 0.3) if isolated is None else isolated,
        'fast': (rng.random() < 0.5) if fast is None else fast,
        'syms': syms, 'routes': routes, 'droutes': droutes, 'n': n,
        'scripts': scripts,
        'vol': vol, 'gap_prob': gap_prob,
        'candle_seed': rng.randrange(1 << 30),
    }


def candles_of(sess):
    """n trading rows per symbol, preceded by sess['warmup'] warm-up rows when that is set (run_real splits them off)"""
    rr = random.Random(sess['candle_seed'])
    w = sess.get('warmup', 0)
    if sess.get('rows'):            # explicit candles [(o, c, h, l, v)] per symbol (micro sessions)
        return {s: bt.make_candles([tuple(float(x) for x in r) for r in sess['rows'][s]]) for s in sess['syms']}
    return {s: bt.make_candles(engine.gen_candles(rr, sess['n'] + w, gap_prob=sess.get('gap_prob', 0.2), vol=sess.get('vol', 4)))
            for s in sess['syms']}


def micro_sessions(rng, count, exhaustive_pts=None):
    """one decisive minute on a small price lattice: a flat first candle at 100 where the strategy rests up to three
    entry orders at lattice prices around it (ties with each other and with the coming open/high/low/close included),
    then ONE arbitrary valid candle of the lattice (optionally opening with a gap), then a flat candle far away.
    Normal simulator, 1m route, futures, fee 0."""
    step = 0.5
    pts = exhaustive_pts or [-2, -1, 0, 1, 2]
    shapes = [(o, h, l, c) for o in pts for h in pts for l in pts for c in pts if l <= o <= h and l <= c <= h]
    out = []
    for _ in range(count):
        o, h, l, c = rng.choice(shapes)
        k = rng.choice([2, 3, 3])
        offs = [rng.choice([x for x in pts if x != 0] + [l, h, c]) for _ in range(k)]
        offs = [x for x in offs if x != 0] or [1]
        side = rng.choice(['long', 'short'])
        rows = [(1.0, x * step) for x in offs]
        script = {side: {'every': 1000, 'phase': 0, 'rows': rows}}
        if rng.random() < 0.5:
            script['on_open'] = {'sl': [(0, rng.choice([1, 2, 3]) * step)], 'tp': [(0, rng.choice([1, 2, 3]) * step)]}
        base = 100.0
        candles = [(base, base, base, base, 1.0),
                   (base + o * step, base + c * step, base + h * step, base + l * step, 2.0),
                   (base + c * step, base + c * step, base + c * step, base + c * step, 1.0),
                   (base + c * step, base + c * step, base + c * step, base + c * step, 1.0)]
        out.append({'kind': 'futures', 'balance': 100_000, 'fee': 0, 'leverage': 2, 'isolated': False, 'fast': False,
                    'syms': ['BTC-USDT'], 'routes': [('BTC-USDT', '1m')], 'droutes': [], 'n': len(candles),
                    'scripts': {'BTC-USDT': script}, 'rows': {'BTC-USDT': candles}, 'candle_seed': rng.randrange(1 << 30),
                    'vol': 0, 'gap_prob': 0})
    return out


def rows_w(rows):
    return f'{len(rows)} ' + ' '.join(f'{wire(q)} {wire(o)}' for (q, o) in rows)


def opt_rows(rows):
    return '-' if rows is None else rows_w(rows)


def entry_w(e):
    if not e:
        return '-'
    return f"{e['every']} {e.get('phase', 0)} {rows_w(e['rows'])} {opt_rows(e.get('sl'))} {opt_rows(e.get('tp'))}"


def opt(x):
    return '-' if x is None else wire(x)


def script_w(s):
    oo = s.get('on_open') or {}
    u = s.get('update') or {}
    r = s.get('on_reduced') or {}
    return ' '.join(['S', entry_w(s.get('long')), entry_w(s.get('short')),
                     '-' if s.get('cancel_after') is None else str(s['cancel_after']),
                     opt_rows(oo.get('sl')), opt_rows(oo.get('tp')),
                     '-' if not u else str(u['every']), opt(u.get('sl')), opt(u.get('tp')),
                     opt(r.get('sl')), '-' if s.get('liquidate_at') is None else str(s['liquidate_at']),
                     '-' if s.get('gate') is None else str(s['gate']),
                     '-' if s.get('withdraw_tp_at') is None else str(s['withdraw_tp_at']),
                     '-' if s.get('withdraw_sl_at') is None else str(s['withdraw_sl_at'])])


def session_line(sess, cands):
    sidx = {s: i for i, s in enumerate(sess['syms'])}
    parts = ['eng', sess['kind'], wire(sess['balance']), wire(sess['fee']), wire(sess['leverage']),
             '1' if sess['isolated'] else '0', '1' if sess['fast'] else '0', str(len(sess['syms']))]
    parts += ['R', str(len(sess['routes']))] + [f'{sidx[s]} {TFM[tf]}' for (s, tf) in sess['routes']]
    parts += ['D', str(len(sess['droutes']))] + [f'{sidx[s]} {TFM[tf]}' for (s, tf) in sess['droutes']]
    for (s, _) in sess['routes']:
        parts.append(script_w(sess['scripts'][s]))
    for s in sess['syms']:
        arr = cands[s]
        parts.append(f'K {len(arr)} ' + ' '.join(' '.join(wire(x) for x in row) for row in arr))
    return ' '.join(parts)


HOOKS = {'before', 'after', 'should_cancel_entry', 'should_short', 'should_long', 'go_long', 'go_short', 'update_position',
         'on_open_position', 'on_increased_position', 'on_reduced_position', 'on_close_position', 'on_cancel',
         'before_terminate'}


def run_real(sess, cands, extra_observer=None):
    """returns (events as strings, tracer, error)"""
    sidx = {s: i for i, s in enumerate(sess['syms'])}
    ridx = {s: i for i, (s, _) in enumerate(sess['routes'])}
    events = []
    etimes = []
    holder = {}

    def observer(strategy, hook, order=None):
        tr = holder.get('tr')
        if tr is not None:
            flush(tr)
        if hook in HOOKS:
            events.append(f'HOOK {ridx[strategy.symbol]} {hook} {strategy.index} {purecorr.num(strategy.price)} '
                          f'{purecorr.num(strategy.position.qty)} {purecorr.num(strategy.position.pnl)}')
            etimes.append(int(strategy.time))
        if extra_observer:
            extra_observer(strategy, hook, order)

    cursor = [0]

    def flush(tr):
        while cursor[0] < len(tr.events):
            e = tr.events[cursor[0]]
            cursor[0] += 1
            if e[0] == 'SUBMIT':
                _, n, t, sym, side, typ, qty, price, ro, cur = e
                events.append(f'SUBMIT {n} {sidx[sym]} {side} {typ} {purecorr.num(qty)} {purecorr.num(price)} {1 if ro else 0}')
                etimes.append(int(t))
            elif e[0] == 'FILL':
                _, n, t, sym, side, typ, qty, price = e
                events.append(f'FILL {n} {int(t)} {purecorr.num(price)} {purecorr.num(qty)}')
                etimes.append(int(t))
            elif e[0] == 'CANCEL':
                events.append(f'CANCEL {e[1]} {int(e[2])}')
                etimes.append(int(e[2]))
            elif e[0] == 'POS':
                ent = '_' if e[3] is None else purecorr.num(e[3])
                events.append(f'POS {sidx[e[1]]} {purecorr.num(e[2])} {ent}')
                etimes.append(etimes[-1] if etimes else 0)
            elif e[0] == 'DAILY':
                events.append(f'DAILY {int(e[1])} {purecorr.num(e[2])}')
                etimes.append(int(e[1]))

    cfg = bt.config(kind=sess['kind'], balance=sess['balance'], fee=sess['fee'], leverage=sess['leverage'],
                    mode='isolated' if sess['isolated'] else 'cross')
    classes = [(s, tf, engine.make_strategy(sess['scripts'][s], observer, name=f'S{ridx[s]}')) for (s, tf) in sess['routes']]
    tr = engine.Tracer()
    holder['tr'] = tr
    err = None
    import copy
    w = sess.get('warmup', 0)
    trading = {s: a[w:] for s, a in cands.items()} if w else cands
    warm = {s: a[:w] for s, a in cands.items()} if w else None
    with tr:
        try:
            bt.run(cfg, classes, sess['droutes'], copy.deepcopy(trading), warmup_candles=copy.deepcopy(warm), fast_mode=sess['fast'])
        except Exception as e:  # noqa
            err = e
    flush(tr)
    tr.event_times = list(etimes)
    if err is not None:
        events.append('REJECT ' + ERR.get(type(err).__name__, 'Other'))
    if tr.final is not None and err is None:
        st = tr.final['state']
        ex = list(st['exchanges'].values())[0]
        wallet = ex['assets']['USDT']
        fin = f'END wallet={purecorr.num(wallet)} ' + ' '.join(
            f'pos{i}={purecorr.num(st["positions"].get(f"Sandbox-{s}", {"qty": 0})["qty"])}' for i, s in enumerate(sess['syms']))
        fin += f' trades={len(tr.final["trades"])} liq={tr.final["liquidations"]}'
        events.append(fin)
    return events, tr, err


def norm(s):
    for ch in '=':
        s = s.replace(ch, f' {ch} ')
    return s


def float_boundary(sess, cands, tr):
    """True when some order price of the real run is within float rounding of, but not equal to, a candle value"""
    import numpy as np
    import engoracles
    table = engoracles.order_table(tr)
    for k, o in table.items():
        p = o['price']
        if p is None:
            continue
        arr = cands[o['sym']][:, 1:5]
        d = np.abs(arr - float(p))
        if np.any((d > 0) & (d < 1e-9 * max(1.0, abs(float(p))))):
            return True
        # … or of another order's price of the same symbol: a fill at that price cuts the minute there, and the cut candle's
        # open / close is then the value this order is compared with
        for k2, o2 in table.items():
            if k2 != k and o2['sym'] == o['sym'] and o2['price'] is not None:
                d2 = abs(float(o2['price']) - float(p))
                if 0 < d2 < 1e-9 * max(1.0, abs(float(p))):
                    return True
    return False


def compare_sessions(res, sessions, cls='corr/engine'):
    lines, reals = [], []
    for sess in sessions:
        cands = candles_of(sess)
        ev, tr, err = run_real(sess, cands)
        lines.append(session_line(sess, cands))
        reals.append((sess, ev, tr, err))
    outs = core.Driver.run(lines, timeout=3000)
    for line, out, (sess, ev, tr, err) in zip(lines, outs, reals):
        model = [x for x in out.split(' ; ') if not x.startswith('LIQ')]
        if err is not None and model and model[-1].startswith('END'):
            model = model
        desc = {k: sess[k] for k in ('kind', 'fee', 'leverage', 'isolated', 'fast', 'routes', 'droutes', 'n', 'scripts', 'candle_seed')}
        if sess.get('rows'):
            desc['rows'] = sess['rows']
        res.count('sessions:' + ('fast' if sess['fast'] else 'step') + ':' + sess['kind'])
        res.count('events', len(ev))
        fills = sum(1 for x in ev if x.startswith('FILL'))
        res.count('fills', fills)
        if tr.final:
            res.count('liquidations', tr.final.get('liquidations', 0))
            res.count('closed_trades', len(tr.final.get('trades', [])))
        if err is not None:
            res.count('session-error:' + type(err).__name__)
        res.seen((line,), fills > 0)
        bad = None
        for i, (a, b) in enumerate(zip(model, ev)):
            if not purecorr.tokens_agree(norm(a), norm(b), rel=1e-8):
                bad = (i, a, b)
                break
        if bad is None and len(model) != len(ev):
            i = min(len(model), len(ev))
            # after an exception the model stops at REJECT; the real trace also ends there
            bad = (i, model[i] if i < len(model) else '<end>', ev[i] if i < len(ev) else '<end>')
        if bad and float_boundary(sess, candles_of(sess), tr):
            # an order price that differs from a candle's open/high/low/close by float rounding only (e.g. an average
            # entry of decimal sizes): the fill decision at that boundary is a float artefact, not a model difference
            res.discarded += 1
            res.count('discarded:float-boundary-price')
            continue
        if bad:
            i, a, b = bad
            res.fail(**{'class': cls + ('/fast' if sess['fast'] else '/step'), 'input': desc,
                        'observed_model': {'event_index': i, 'event': a, 'context': model[max(0, i - 4):i]},
                        'expected_impl': {'event': b, 'context': ev[max(0, i - 4):i]},
                        'params': {'simulator': 'fast' if sess['fast'] else 'step'}})
        else:
            res.sample({'session': {k: desc[k] for k in ('kind', 'fast', 'routes', 'n')}, 'events': len(ev), 'fills': fills,
                        'first_events': ev[:6]})
