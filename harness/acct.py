"""Operation-level driving of the real Order / Position / Futures- and SpotExchange classes
(outside pytest: production branches).  One `Session` = one fresh store."""
import jesse_env

EXCHANGE = 'Sandbox'
T0 = 1_600_000_000_000


class StubStrategy:
    """what Position/ClosedTrades need from a strategy object when driven without the engine"""

    def __init__(self, leverage, log):
        self.leverage = leverage
        self.timeframe = '1m'
        self.name = 'stub'
        self.trades_count = 0
        self.log = log
        self.position = None

    probe = None        # set by an oracle: called INSIDE the position-update hook (what a strategy hook would see)

    def _on_updated_position(self, order):
        self.log.append(('updated', order))
        if StubStrategy.probe is not None:
            StubStrategy.probe(order)


class Session:
    def __init__(self, kind, balance, fee, leverage=1, mode='cross', symbols=('BTC-USDT',)):
        jesse_env.setup()
        import jesse.helpers as jh
        from jesse.config import config, set_config
        from jesse.routes import router
        from jesse.store import store
        from jesse.strategies import Strategy

        class _S(Strategy):
            def should_long(self): return False
            def go_long(self): pass
            def should_cancel_entry(self): return False

        config['app']['trading_mode'] = 'backtest'
        config['app']['debug_mode'] = False
        for f in (jh.is_live, jh.is_livetrading, jh.is_optimizing, jh.is_paper_trading):
            f.cache_clear()
        jh.CACHED_CONFIG.clear()
        ex = {'balance': balance, 'fee': fee, 'type': kind, 'name': EXCHANGE}
        if kind == 'futures':
            ex['futures_leverage'] = leverage
            ex['futures_leverage_mode'] = mode
        set_config({'exchanges': {EXCHANGE: ex}, 'logging': {}, 'warm_up_candles': 0})
        router.initiate([{'exchange': EXCHANGE, 'symbol': s, 'timeframe': '1m', 'strategy': _S} for s in symbols], [])
        jh.CACHED_CONFIG.clear()
        store.reset()
        store.app.time = T0
        self.store = store
        self.kind = kind
        self.symbols = list(symbols)
        self.exchange = store.exchanges.storage[EXCHANGE]
        self.events = []
        self.orders = []
        self.now = T0
        for s in symbols:
            p = store.positions.storage[f'{EXCHANGE}-{s}']
            p.strategy = StubStrategy(leverage if kind == 'futures' else 1, self.events)

    def position(self, sym):
        return self.store.positions.storage[f'{EXCHANGE}-{sym}']

    def set_price(self, sym, price):
        self.position(sym).current_price = price

    def tick(self, ms=60_000):
        self.now += ms
        self.store.app.time = self.now

    def submit(self, sym, side, typ, qty, price, reduce_only=False, via=None):
        """returns the Order or raises what the real code raises"""
        import jesse.helpers as jh
        from jesse.models import Order
        o = Order({
            'id': jh.generate_unique_id(), 'symbol': sym, 'exchange': EXCHANGE, 'side': side, 'type': typ,
            'reduce_only': reduce_only, 'qty': jh.prepare_qty(qty, side), 'price': price,
        }, should_silent=True)
        o.submitted_via = via
        self.store.orders.add_order(o)
        self.orders.append(o)
        return o


def fresh_account_accepts(kind, capital, fee, leverage, qty, price):
    """True when a fresh real account holding `capital` accepts a buy of `qty` at `price`; else the error text"""
    s = Session(kind, capital, fee, leverage=leverage)
    s.set_price('BTC-USDT', price)
    try:
        s.submit('BTC-USDT', 'buy', 'LIMIT', qty, price)
        return True
    except Exception as e:  # noqa
        return f'{type(e).__name__}: {str(e)[:160]}'
