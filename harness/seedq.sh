#!/bin/bash
# quick re-run of checks against a stored seeded change (no demo, no suite): seedq.sh <name> <check ids…>
name=$1; shift
[ -z "$(git -C /repo status --porcelain)" ] || { echo "/repo not clean"; exit 2; }
git -C /repo apply /verif/seeded/$name/patch.diff || exit 2
for id in "$@"; do
  out=$(cd /verif && ./check $id --tier quick 2>/dev/null); rc=$?
  v=$(echo "$out" | grep -a VIOLATION | head -1)
  cls=""
  rp=$(echo "$v" | sed -n 's/.*replay=\([^ ]*\).*/\1/p')
  [ -n "$rp" ] && cls=$(python3 -c "import json,sys; print(json.load(open('$rp'))['failure'].get('class'))" 2>/dev/null)
  echo "$name $id rc=$rc class=$cls $v"
done
git -C /repo checkout -- .
rm -rf /verif/replays
