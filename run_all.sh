#!/bin/bash
# run every registered check (quick by default) on the current tree; print one line per check
cd "$(dirname "$0")"
TIER="${1:-quick}"
ids=$(python3 -c "import json; print(' '.join(c['property_id'] for c in json.load(open('MANIFEST.json'))['checks']))")
fail=0
for id in $ids; do
  s=$(date +%s)
  out=$(./check "$id" --tier "$TIER" 2>/tmp/run_all_$id.err); rc=$?
  e=$(( $(date +%s) - s ))
  echo "$id rc=$rc ${e}s $(echo "$out" | grep -c KNOWN-FINDING) known $(echo "$out" | grep VIOLATION)"
  [ $rc -ne 0 ] && fail=1
done
exit $fail
