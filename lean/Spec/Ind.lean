/-
  Spec/Ind.lean — textbook definitions of the core indicators, written independently of the kernels
  in Jesse/Ind (index style: "the value at row i").  Core Lean only.  Meant to be read in minutes.
-/
import Jesse.Basic

namespace Spec.Ind
open Jesse

/-- the `p` rows ending at row `i`: `xs[i-p+1 .. i]` -/
def window {α} (p i : Nat) (xs : List α) : List α := (xs.drop (i + 1 - p)).take p

/-- arithmetic mean -/
def mean (w : List Rat) : Rat := w.sum / (w.length : Rat)

/-- `Σ_j (k+j)·w_j` — linearly increasing weights starting at `k` -/
def linWeighted : Nat → List Rat → Rat
  | _, [] => 0
  | k, x :: r => (k : Rat) * x + linWeighted (k + 1) r

/-- linearly weighted mean: weights 1 (oldest) … p (newest), divisor p(p+1)/2 -/
def wmean (w : List Rat) : Rat := linWeighted 1 w / ((w.length : Rat) * ((w.length : Rat) + 1) / 2)

/-- simple moving average: undefined before row `p-1`, then the mean of the trailing window -/
def smaAt (p : Nat) (xs : List Rat) (i : Nat) : Option Rat :=
  if i + 1 < p then none else some (mean (window p i xs))

/-- weighted moving average -/
def wmaAt (p : Nat) (xs : List Rat) (i : Nat) : Option Rat :=
  if i + 1 < p then none else some (wmean (window p i xs))

/-- EMA smoothing constant -/
def alpha (p : Nat) : Rat := 2 / ((p : Rat) + 1)

/-- the exponential recurrence `E_i = a·x_i + (1-a)·E_{i-1}` (EMA with `a = 2/(p+1)`, Wilder with `a = 1/p`) -/
def expStep (a prev x : Rat) : Rat := a * x + (1 - a) * prev

/-- the standard seed of EMA / Wilder / ATR: the plain mean of the first `p` values, placed at row `p-1` -/
def seedOf (p : Nat) (xs : List Rat) : Rat := mean (xs.take p)

/-- `m` is the maximum of `w` -/
def IsMax (m : Rat) (w : List Rat) : Prop := m ∈ w ∧ ∀ y ∈ w, y ≤ m
/-- `m` is the minimum of `w` -/
def IsMin (m : Rat) (w : List Rat) : Prop := m ∈ w ∧ ∀ y ∈ w, m ≤ y

/-- true range of a row given the previous close -/
def trueRange (prevClose : Option Rat) (k : Candle) : Rat :=
  match prevClose with
  | none => k.h - k.l
  | some c => max (k.h - k.l) (max (if k.h - c < 0 then -(k.h - c) else k.h - c) (if k.l - c < 0 then -(k.l - c) else k.l - c))

/-- on-balance volume: `OBV_0 = v_0`, then `± v_i` by the sign of the close-to-close change -/
def obvAt (cs : List Candle) : Nat → Rat
  | 0 => (cs[0]?.map (·.v)).getD 0
  | i + 1 =>
    match cs[i]?, cs[i + 1]? with
    | some a, some b => obvAt cs i + (if b.c > a.c then b.v else if b.c < a.c then -b.v else 0)
    | _, _ => obvAt cs i

/-- rate of change in percent over `p` rows -/
def rocOf (cur old : Rat) : Rat := (cur / old - 1) * 100

/-- Williams %R of a window: `-100·(HH - C)/(HH - LL)` -/
def willrOf (hh ll c : Rat) : Rat := -100 * (hh - c) / (hh - ll)

/-- RSI from Wilder's average gain / loss -/
def rsiOf (avgGain avgLoss : Rat) : Rat := 100 - 100 / (1 + avgGain / avgLoss)

/-- stochastic %K -/
def percentK (hh ll c : Rat) : Rat := 100 * (c - ll) / (hh - ll)

/-- CCI of a window of typical prices with mean `m` and mean absolute deviation `md` -/
def cciOf (tp m md : Rat) : Rat := (tp - m) / ((15 : Rat) / 1000 * md)

/-- money flow index from the positive / negative flow sums -/
def mfiOf (pos neg : Rat) : Rat := 100 - 100 / (1 + pos / neg)

/-- typical, median, average and weighted-close price -/
def typ (k : Candle) : Rat := (k.h + k.l + k.c) / 3
def med (k : Candle) : Rat := (k.h + k.l) / 2
def avg (k : Candle) : Rat := (k.o + k.h + k.l + k.c) / 4
def wcl (k : Candle) : Rat := (k.h + k.l + 2 * k.c) / 4

end Spec.Ind
