/-
  Spec/PathSplit.lean — the continuous intra-minute price path and its cut at a price (C08).
  Meant to be read in minutes: a rising candle (close ≥ open) travels open → low → high → close,
  a falling one open → high → low → close.
-/
import Jesse.Basic

namespace Spec
open Jesse

/-- the cut of the canonical path of candle `k` at its first visit of price `p` (for `p ≠ k.o`):
    `(part travelled so far, remaining part)`, each summarised as a candle. -/
def pathSplit (k : Candle) (p : Rat) : Candle × Candle :=
  if k.c ≥ k.o then
    if p < k.o then
      -- rising, first leg (open → low) reaches p: so far high = open, low = p; everything else remains
      (⟨k.ts, k.o, p, k.o, p, k.v⟩, ⟨k.ts, p, k.c, k.h, k.l, k.v⟩)
    else
      -- rising, p above the open: the low has been made already; p is reached on the way up (or,
      -- if p is at/below the close … it is still first reached on the way up): remaining low = min p c
      (⟨k.ts, k.o, p, p, k.l, k.v⟩, ⟨k.ts, p, k.c, k.h, if p < k.c then p else k.c, k.v⟩)
  else
    if k.o < p then
      -- falling, first leg (open → high) reaches p
      (⟨k.ts, k.o, p, p, k.o, k.v⟩, ⟨k.ts, p, k.c, k.h, k.l, k.v⟩)
    else
      -- falling, p below the open: the high has been made; remaining high = max p c
      (⟨k.ts, k.o, p, k.h, p, k.v⟩, ⟨k.ts, p, k.c, if k.c < p then p else k.c, k.l, k.v⟩)

/-- The clauses of property C08 about a split result. -/
structure SplitOK (k : Candle) (p : Rat) (a b : Candle) : Prop where
  validA : a.Valid
  validB : b.Valid
  openKept : a.o = k.o
  closeKept : b.c = k.c
  highKept : (if a.h < b.h then b.h else a.h) = k.h
  lowKept : (if b.l < a.l then b.l else a.l) = k.l
  meet : p ≠ k.o → a.c = p ∧ b.o = p

end Spec
