/-
  Spec/Aggregate.lean — the reference of C07: a candle of a larger timeframe is the aggregation of
  the one-minute candles of its window; a reader sees one candle per started window.
-/
import Jesse.Basic

namespace Spec
open Jesse

def maxOf : List Rat → Rat → Rat
  | [], acc => acc
  | x :: xs, acc => maxOf xs (if acc < x then x else acc)

def minOf : List Rat → Rat → Rat
  | [], acc => acc
  | x :: xs, acc => minOf xs (if x < acc then x else acc)

def sumOf : List Rat → Rat
  | [] => 0
  | x :: xs => x + sumOf xs

/-- window-start timestamp, first open, last close, maximum high, minimum low, summed volume -/
def aggregate : List Candle → Option Candle
  | [] => none
  | c0 :: rest =>
    some ⟨c0.ts, c0.o, ((c0 :: rest).getLast?.getD c0).c,
          maxOf (rest.map (·.h)) c0.h, minOf (rest.map (·.l)) c0.l, sumOf ((c0 :: rest).map (·.v))⟩

/-- the 1m list cut into windows of `m` minutes (the last one possibly shorter) -/
def windows (m : Nat) (ones : List Candle) : List (List Candle) :=
  if h : m = 0 ∨ ones = [] then []
  else ones.take m :: windows m (ones.drop m)
termination_by ones.length
decreasing_by
  simp only [List.length_drop]
  have h1 : m ≠ 0 := fun hh => h (Or.inl hh)
  have h2 : ones ≠ [] := fun hh => h (Or.inr hh)
  have : 0 < ones.length := List.length_pos_iff.mpr h2
  omega

/-- what a reader of timeframe `m` sees: one candle per started window, the last possibly forming -/
def visible (m : Nat) (ones : List Candle) : List Candle :=
  (windows m ones).filterMap aggregate

end Spec
