/-
  Spec/ListArray.lean — the reference of C18: a plain list of rows with Python's list semantics
  (Jesse/Py.lean) and the documented drop-oldest rule.
-/
import Jesse.DynArray

namespace Spec
open Jesse

/-- append to the list; with a drop limit `d`, when the new length is a multiple of `d` (and not 1)
    the oldest `d/2` rows are dropped -/
def listAppendAll (d : Option Nat) (l : List Row) (rs : List Row) : List Row :=
  let l' := l ++ rs
  match d with
  | some dd => if l'.length ≠ 1 ∧ l'.length % dd = 0 then l'.drop (dd / 2) else l'
  | none => l'

def listAppend (d : Option Nat) (l : List Row) (r : Row) : List Row := listAppendAll d l [r]

end Spec
