/-
  Spec/MetricsSpec.lean — reference definitions for C16, independent of the code's way of computing.
  Runs (streaks), extremes, the standard maximum drawdown, daily returns and their statistics,
  the equity of an account snapshot, the expected number of equity samples.
-/
import Jesse.Basic

namespace Spec.Metrics
open Jesse

/-! ### runs -/

/-- number of leading elements satisfying `p` -/
def prefixRun (p : Rat → Bool) (l : List Rat) : Nat := (l.takeWhile p).length

/-- longest run of consecutive elements satisfying `p`: the maximum, over every start position, of
    the run starting there (an element not satisfying `p` — e.g. a zero — ends a run) -/
def longestRun (p : Rat → Bool) : List Rat → Nat
  | [] => 0
  | x :: xs => max (prefixRun p (x :: xs)) (longestRun p xs)

/-- the run that ends at the last element -/
def trailingRun (p : Rat → Bool) (l : List Rat) : Nat := prefixRun p l.reverse

def isPos (x : Rat) : Bool := decide (0 < x)
def isNeg (x : Rat) : Bool := decide (x < 0)

/-- longest winning / losing streak of a PnL sequence; zero-PnL trades break both -/
def longestWinRun (l : List Rat) : Nat := longestRun isPos l
def longestLoseRun (l : List Rat) : Nat := longestRun isNeg l

/-- signed current run: `+k` after `k` trailing wins, `-k` after `k` trailing losses, `0` after a
    zero-PnL trade (at most one of the two terms is non-zero) -/
def signedCurrentRun (l : List Rat) : Int := (trailingRun isPos l : Int) - (trailingRun isNeg l : Int)

/-! ### extremes and sums -/

/-- `m` is the greatest element of `l` -/
def IsGreatest (m : Rat) (l : List Rat) : Prop := m ∈ l ∧ ∀ x ∈ l, x ≤ m
/-- `m` is the least element of `l` -/
def IsLeast (m : Rat) (l : List Rat) : Prop := m ∈ l ∧ ∀ x ∈ l, m ≤ x

def sum : List Rat → Rat
  | [] => 0
  | x :: xs => x + sum xs

/-! ### maximum drawdown -/

/-- `equity_t / max_{s ≤ t} equity_s` for the points after a history whose peak is `peak` -/
def peakRatiosFrom (peak : Rat) : List Rat → List Rat
  | [] => []
  | e :: es => e / maxR peak e :: peakRatiosFrom (maxR peak e) es

/-- `equity_t / max_{s ≤ t} equity_s` for every point of the series, the first one included -/
def peakRatios : List Rat → List Rat
  | [] => []
  | e :: es => peakRatiosFrom e (e :: es)

def listMin : List Rat → Option Rat
  | [] => none
  | x :: xs => match listMin xs with
      | none => some x
      | some m => some (minR x m)

/-- standard maximum drawdown of an equity series (the starting balance is its first point):
    `min_t (equity_t / max_{s ≤ t} equity_s) − 1` -/
def maxDrawdown (equity : List Rat) : Option Rat := (listMin (peakRatios equity)).map (· - 1)

/-! ### daily returns and their statistics -/

/-- simple returns `equity_t / equity_{t−1} − 1`, one per day after the first point -/
def returns : List Rat → List Rat
  | a :: b :: rest => (b / a - 1) :: returns (b :: rest)
  | _ => []

/-- arithmetic mean of `N` returns -/
def mean (rs : List Rat) : Rat := sum rs / (rs.length : Rat)

/-- sample variance (`N − 1` in the denominator) -/
def variance (rs : List Rat) : Rat :=
  sum (rs.map (fun r => (r - mean rs) * (r - mean rs))) / ((rs.length : Rat) - 1)

/-- downside mean square with target 0: `Σ_{r<0} r² / N` over the `N` returns -/
def downsideMeanSq (rs : List Rat) : Rat :=
  sum (rs.map (fun r => if r < 0 then r * r else 0)) / (rs.length : Rat)

def gains (rs : List Rat) : Rat := sum (rs.map (fun r => if 0 < r then r else 0))
def losses (rs : List Rat) : Rat := sum (rs.map (fun r => if r < 0 then -r else 0))

/-- Omega ratio with threshold 0: gains over losses, undefined without losses -/
def omega (rs : List Rat) : Option Rat := if 0 < losses rs then some (gains rs / losses rs) else none

/-! ### account equity and the expected number of samples -/

/-- futures: wallet balance plus the unrealised PnL of every open position -/
def futuresEquity (wallet : Rat) (openPnls : List Rat) : Rat := wallet + sum openPnls

/-- spot: free quote + quote reserved by resting buy orders + market value of the held base, over
    ALL routes -/
def spotEquity (freeQuote : Rat) (reserved : List Rat) (baseValues : List Rat) : Rat :=
  freeQuote + sum reserved + sum baseValues

/-- a session of `n` minutes covers `⌈n/1440⌉` days (started days); one sample per day plus the
    final one: `1 + ⌊(n−1)/1440⌋ + 1` for `n ≥ 1` -/
def expectedSamples (n : Nat) : Nat := 1 + (n - 1) / 1440 + 1

end Spec.Metrics
