/-
  Spec/MarginAccount.lean — the reference of C03: an average-cost margin account (one symbol).
  A fill charges the fee on its notional, realises PnL on the part that closes, averages the entry
  on the part that adds, and a reduce-only fill never increases or flips the position.
-/
import Jesse.Basic

namespace Spec
open Jesse

structure MA where
  wallet : Rat
  qty : Rat                 -- signed position size
  entry : Option Rat
deriving DecidableEq, Repr

/-- direction of a signed quantity -/
def dir (x : Rat) : Rat := if x > 0 then 1 else if x < 0 then -1 else 0

/-- one fill of signed quantity `q` at price `p` (`ro` = reduce-only) with fee rate `fee` -/
def MA.fill (fee : Rat) (m : MA) (q p : Rat) (ro : Bool) : MA :=
  let w0 := m.wallet - fee * absR (q * p)                         -- fee on every fill
  match m.entry with
  | none => { wallet := w0, qty := q, entry := some p }           -- flat: the fill opens
  | some e =>
    if m.qty * q > 0 then
      -- same direction: increase at the average cost (a reduce-only fill does nothing)
      if ro then { m with wallet := w0 }
      else { wallet := w0, qty := m.qty + q,
             entry := some ((absR q * p + absR m.qty * e) / (absR q + absR m.qty)) }
    else
      -- opposite direction: the closing part realises PnL; a reduce-only fill is clipped to the position
      let q' := if ro ∧ absR q > absR m.qty then -m.qty else q
      let closing := if absR q' > absR m.qty then absR m.qty else absR q'
      let w1 := w0 + closing * (p - e) * dir m.qty
      if absR q' > absR m.qty then { wallet := w1, qty := m.qty + q', entry := some p }      -- flip
      else if m.qty + q' = 0 then { wallet := w1, qty := 0, entry := none }                 -- close
      else { wallet := w1, qty := m.qty + q', entry := some e }                             -- reduce

end Spec
