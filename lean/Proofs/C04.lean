/-
  Proofs/C04.lean — spot balances equal a cash-account model; no overspending or overselling.
  Statements over the accounts model (Jesse/Accounts.lean, tied to the real classes by
  correspondence), for a spot exchange trading one symbol (index 0).  PROPERTY THEOREMS ONLY.
-/
import Jesse.Accounts
import Proofs.Lemmas.Num

namespace C04
open Jesse Jesse.Acc

/-- the scalar view of a one-symbol spot world -/
structure View where
  quote : Rat
  base : Rat
  stopSum : Rat
  limitSum : Rat

def viewOf (w : World) : View := ⟨w.wallet, getD w.base 0, getD w.stopSum 0, getD w.limitSum 0⟩

/-- a one-symbol spot world -/
def Single (w : World) : Prop :=
  w.kind = .spot ∧ w.base.length = 1 ∧ w.stopSum.length = 1 ∧ w.limitSum.length = 1

theorem single_init (b f : Rat) : Single (Acc.init .spot b f 1 1) := by
  simp [Single, Acc.init]

theorem getD_upd_zero {α} [Inhabited α] (l : List α) (f : α → α) (h : l.length = 1) :
    getD (upd l 0 f) 0 = f (getD l 0) ∧ (upd l 0 f).length = 1 := by
  match l, h with
  | [x], _ => simp [upd, getD]

/-- the quantity a sell order is checked against: itself plus the resting sells of its kind
    (the resting LIMIT sells for a MARKET sell) -/
def sellLoad (v : View) (type : OrderType) (q : Rat) : Rat :=
  match type with
  | .market => absR q + v.limitSum
  | .stop => v.stopSum + absR q
  | .limit => v.limitSum + absR q

theorem ite_err_iff (c : Prop) [Decidable c] (a b : World) :
    (∃ w', (if c then (Except.error (Err.InsufficientBalance, a) : Except (Err × World) World) else .ok b)
        = .error (.InsufficientBalance, w')) ↔ c := by
  constructor
  · rintro ⟨w', h⟩
    by_cases hc : c
    · exact hc
    · rw [if_neg hc] at h; cases h
  · intro hc; exact ⟨a, by rw [if_pos hc]⟩

/-- REJECTION, buy side: a buy is rejected with InsufficientBalance exactly when its cost exceeds the
    free quote balance. -/
theorem reject_iff_buy (w : World) (hs : Single w) (type : OrderType) (q p : Rat) (ro : Bool) :
    (∃ w', submit w 0 .buy type q p ro = .error (.InsufficientBalance, w')) ↔ absR q * p > w.wallet := by
  obtain ⟨hk, _, _, _⟩ := hs
  have hq : absR (absR q) = absR q := by
    rw [absR_eq_abs, absR_eq_abs, abs_abs]
  simp only [submit, hk, reduceCtorEq, if_false, if_true, hq]
  rw [ite_err_iff]
  constructor <;> intro h <;> linarith

/-- REJECTION, sell side: a sell is rejected exactly when it, plus the resting sells of its kind
    (the resting LIMIT sells for a MARKET sell), exceeds the base held. -/
theorem reject_iff_sell (w : World) (hs : Single w) (type : OrderType) (q p : Rat) (ro : Bool) :
    (∃ w', submit w 0 .sell type q p ro = .error (.InsufficientBalance, w')) ↔
      sellLoad (viewOf w) type q > (viewOf w).base := by
  obtain ⟨hk, hb, hst, hl⟩ := hs
  have hq : absR (-(absR q)) = absR q := by
    rw [absR_eq_abs, absR_eq_abs, abs_neg, abs_abs]
  cases type
  · simp only [submit, hk, reduceCtorEq, if_false, if_true, hq, sellLoad, viewOf]
    rw [ite_err_iff]
  · simp only [submit, hk, reduceCtorEq, if_false, if_true, hq, sellLoad, viewOf]
    rw [ite_err_iff, (getD_upd_zero w.limitSum (· + absR q) hl).1]
  · simp only [submit, hk, reduceCtorEq, if_false, if_true, hq, sellLoad, viewOf]
    rw [ite_err_iff, (getD_upd_zero w.stopSum (· + absR q) hst).1]

/-- A buy reserves exactly qty × price of quote at submission … -/
theorem buy_reserves (w w' : World) (hs : Single w) (type : OrderType) (q p : Rat) (ro : Bool)
    (h : submit w 0 .buy type q p ro = .ok w') :
    w'.wallet = w.wallet - absR q * p ∧ 0 ≤ w'.wallet ∧
    w'.orders = w.orders ++ [⟨w.orders.length, 0, .buy, type, absR q, p, ro, .active⟩] := by
  obtain ⟨hk, _, _, _⟩ := hs
  have hq : absR (absR q) = absR q := by
    rw [absR_eq_abs, absR_eq_abs, abs_abs]
  simp only [submit, hk, reduceCtorEq, if_false, if_true, hq] at h
  split at h
  · cases h
  · rename_i hge
    injection h with h; rw [← h]
    exact ⟨rfl, not_lt.mp hge, rfl⟩

theorem releaseSell_wallet_base (w : World) (o : Order) :
    (releaseSell w o).wallet = w.wallet ∧ (releaseSell w o).base = w.base ∧ (releaseSell w o).kind = w.kind ∧
    (releaseSell w o).fee = w.fee := by
  unfold releaseSell
  split
  · split
    · exact ⟨rfl, rfl, rfl, rfl⟩
    · split <;> exact ⟨rfl, rfl, rfl, rfl⟩
  · exact ⟨rfl, rfl, rfl, rfl⟩

/-- … and cancelling it releases exactly that amount (the wallet returns to its earlier value). -/
theorem cancel_releases_exactly (w w' : World) (hs : Single w) (type : OrderType) (q p : Rat) (ro : Bool)
    (h : submit w 0 .buy type q p ro = .ok w') :
    (cancel w' w.orders.length).wallet = w.wallet := by
  obtain ⟨h1, _, h3⟩ := buy_reserves w w' hs type q p ro h
  have hk : w'.kind = .spot := by
    obtain ⟨hk, _, _, _⟩ := hs
    have hq : absR (absR q) = absR q := by rw [absR_eq_abs, absR_eq_abs, abs_abs]
    simp only [submit, hk, reduceCtorEq, if_false, if_true, hq] at h
    split at h
    · cases h
    · injection h with h; rw [← h]
  have hget : w'.orders[w.orders.length]? = some ⟨w.orders.length, 0, .buy, type, absR q, p, ro, .active⟩ := by
    rw [h3]; simp
  have hq : absR (absR q) = absR q := by rw [absR_eq_abs, absR_eq_abs, abs_abs]
  simp only [cancel, hget, hk, ne_eq, not_true_eq_false, if_false, if_true]
  rw [(releaseSell_wallet_base _ _).1]
  simp only [setStatus, hq, h1]
  ring

/-- A buy fill credits qty × (1 − fee) of base and leaves the quote balance alone (the cost was
    reserved at submission). -/
theorem buy_fill_effect (w : World) (hs : Single w) (o : Order) (hsym : o.sym = 0) (hbuy : o.side = .buy) :
    (exchangeOnExecution w o).wallet = w.wallet ∧
    getD (exchangeOnExecution w o).base 0 = getD w.base 0 + absR o.qty * (1 - w.fee) := by
  obtain ⟨hk, hb, _, _⟩ := hs
  obtain ⟨r1, r2, _, _⟩ := releaseSell_wallet_base w o
  simp only [exchangeOnExecution, hk, hbuy, if_true, hsym]
  refine ⟨r1, ?_⟩
  have hb' : (releaseSell w o).base.length = 1 := by rw [r2]; exact hb
  rw [(getD_upd_zero _ _ hb').1, r2]

/-- A sell fill debits base and credits qty × price × (1 − fee) of quote for the quantity actually
    sold, which is the order quantity clipped to the base held. -/
theorem sell_fill_effect (w : World) (hs : Single w) (o : Order) (hsym : o.sym = 0) (hsell : o.side = .sell)
    (hb0 : 0 ≤ getD w.base 0) :
    ∃ sold, sold = min (absR o.qty) (getD w.base 0) ∧
      (exchangeOnExecution w o).wallet = w.wallet + sold * o.price * (1 - w.fee) ∧
      getD (exchangeOnExecution w o).base 0 = getD w.base 0 - sold := by
  obtain ⟨hk, hb, _, _⟩ := hs
  obtain ⟨r1, r2, _, _⟩ := releaseSell_wallet_base w o
  have hsold : soldQty (releaseSell w o) o = min (absR o.qty) (getD w.base 0) := by
    unfold soldQty
    rw [r2, hsym]
    by_cases hgt : absR o.qty > getD w.base 0
    · rw [if_pos hgt, min_eq_right (le_of_lt hgt), absR_eq_abs, abs_of_nonneg hb0]
    · rw [if_neg hgt, min_eq_left (not_lt.mp hgt)]
  have hns : ¬ o.side = .buy := by rw [hsell]; simp
  refine ⟨_, rfl, ?_, ?_⟩
  · simp only [exchangeOnExecution, hk, hns, if_false, hsold, r1]
  · simp only [exchangeOnExecution, hk, hns, if_false, hsold, hsym]
    have hb' : (releaseSell w o).base.length = 1 := by rw [r2]; exact hb
    rw [(getD_upd_zero _ _ hb').1, r2]

/-- NEVER NEGATIVE: from non-negative balances, a fee rate in [0,1] and a non-negative price, the
    exchange side of a fill leaves both balances non-negative. -/
theorem fill_never_negative (w : World) (hs : Single w) (o : Order) (hsym : o.sym = 0)
    (hq : 0 ≤ w.wallet) (hb : 0 ≤ getD w.base 0) (hf0 : 0 ≤ w.fee) (hf1 : w.fee ≤ 1) (hp : 0 ≤ o.price) :
    0 ≤ (exchangeOnExecution w o).wallet ∧ 0 ≤ getD (exchangeOnExecution w o).base 0 := by
  cases hside : o.side
  · obtain ⟨e1, e2⟩ := buy_fill_effect w hs o hsym hside
    rw [e1, e2]
    refine ⟨hq, ?_⟩
    have : 0 ≤ absR o.qty * (1 - w.fee) := mul_nonneg (absR_nonneg _) (by linarith)
    linarith
  · obtain ⟨sold, hsold, e1, e2⟩ := sell_fill_effect w hs o hsym hside hb
    rw [e1, e2]
    have hs0 : 0 ≤ sold := by rw [hsold]; exact le_min (absR_nonneg _) hb
    have hsb : sold ≤ getD w.base 0 := by rw [hsold]; exact min_le_right _ _
    refine ⟨?_, by linarith⟩
    have : 0 ≤ sold * o.price * (1 - w.fee) := by
      apply mul_nonneg (mul_nonneg hs0 hp); linarith
    linarith

/-! ### the resting-sells sums track the resting sells, for every history -/

/-- contribution of an order to the resting sells of kind `ty` -/
def contrib (ty : OrderType) (o : Order) : Rat :=
  if o.status = .active ∧ o.side = .sell ∧ o.type = ty then absR o.qty else 0

def resting (os : List Order) (ty : OrderType) : Rat :=
  match os with
  | [] => 0
  | o :: rest => contrib ty o + resting rest ty

theorem resting_append (os : List Order) (o : Order) (ty : OrderType) :
    resting (os ++ [o]) ty = resting os ty + contrib ty o := by
  induction os with
  | nil => simp [resting]
  | cons x xs ih => simp only [List.cons_append, resting, ih]; ring

theorem resting_upd (os : List Order) (id : Nat) (o : Order) (f : Order → Order) (ty : OrderType)
    (h : os[id]? = some o) :
    resting (upd os id f) ty = resting os ty - contrib ty o + contrib ty (f o) := by
  induction os generalizing id with
  | nil => simp at h
  | cons x xs ih =>
    cases id with
    | zero =>
      simp only [List.getElem?_cons_zero, Option.some.injEq] at h
      subst h; simp only [upd, resting]; ring
    | succ k =>
      simp only [List.getElem?_cons_succ] at h
      simp only [upd, resting, ih k h]; ring

/-- the invariant: the two running sums equal the sums over the resting (active) STOP / LIMIT sells -/
def SumsInv (w : World) : Prop :=
  Single w ∧ getD w.stopSum 0 = resting w.orders .stop ∧ getD w.limitSum 0 = resting w.orders .limit

theorem sums_init (b f : Rat) : SumsInv (Acc.init .spot b f 1 1) := by
  refine ⟨single_init b f, ?_, ?_⟩ <;> simp [Acc.init, getD, resting]

/-- frame: what the position/trade bookkeeping of a fill leaves alone -/
def Frame (w w' : World) : Prop :=
  w'.orders = w.orders ∧ w'.stopSum = w.stopSum ∧ w'.limitSum = w.limitSum ∧ w'.kind = w.kind ∧ w'.base = w.base

theorem Frame.refl (w : World) : Frame w w := ⟨rfl, rfl, rfl, rfl, rfl⟩
theorem Frame.trans {a b c : World} (h1 : Frame a b) (h2 : Frame b c) : Frame a c := by
  obtain ⟨a1, a2, a3, a4, a5⟩ := h1
  obtain ⟨b1, b2, b3, b4, b5⟩ := h2
  exact ⟨b1.trans a1, b2.trans a2, b3.trans a3, b4.trans a4, b5.trans a5⟩

theorem frame_updateQty (w : World) (s : Nat) (q : Rat) (op : Nat) : Frame w (updateQty w s q op) :=
  ⟨rfl, rfl, rfl, rfl, rfl⟩
theorem frame_addRealized (w : World) (x : Rat) : Frame w (addRealized w x) := ⟨rfl, rfl, rfl, rfl, rfl⟩
theorem frame_openTrade (w : World) (s : Nat) : Frame w (openTrade w s) := ⟨rfl, rfl, rfl, rfl, rfl⟩
theorem frame_closeTrade (w : World) (s : Nat) : Frame w (closeTrade w s) := by
  unfold closeTrade; dsimp only; split <;> exact ⟨rfl, rfl, rfl, rfl, rfl⟩
theorem frame_setEntry (w : World) (s : Nat) (e : Option Rat) :
    Frame w { w with pos := upd w.pos s (fun p => { p with entry := e }) } := ⟨rfl, rfl, rfl, rfl, rfl⟩

theorem frame_mutClose (w : World) (s : Nat) (p : Rat) : Frame w (mutClose w s p) := by
  unfold mutClose
  dsimp only
  apply Frame.trans _ (frame_closeTrade _ _)
  apply Frame.trans _ (frame_setEntry _ _ _)
  apply Frame.trans _ (frame_updateQty _ _ _ _)
  split
  · exact frame_addRealized _ _
  · exact Frame.refl _

theorem frame_mutOpen (w : World) (s : Nat) (q p : Rat) : Frame w (mutOpen w s q p) := by
  unfold mutOpen
  dsimp only
  apply Frame.trans _ (frame_openTrade _ _)
  apply Frame.trans _ (frame_updateQty _ _ _ _)
  exact frame_setEntry _ _ _

theorem frame_mutReduce (w : World) (s : Nat) (q p : Rat) : Frame w (mutReduce w s q p) := by
  unfold mutReduce
  dsimp only
  have h1 : Frame w (match w.kind, (getD w.pos s).entry with
      | .futures, some e => addRealized w (Jesse.Gen.estimatePNL (absR q) e p (getD w.pos s).type 0)
      | _, _ => w) := by
    split
    · exact frame_addRealized _ _
    · exact Frame.refl _
  split
  · exact Frame.trans h1 (frame_updateQty _ _ _ _)
  · split
    · exact Frame.trans h1 (frame_updateQty _ _ _ _)
    · exact h1

theorem frame_mutIncrease (w : World) (s : Nat) (q p : Rat) : Frame w (mutIncrease w s q p) := by
  unfold mutIncrease
  dsimp only
  split
  · exact Frame.trans (frame_setEntry _ _ _) (frame_updateQty _ _ _ _)
  · split
    · exact Frame.trans (frame_setEntry _ _ _) (frame_updateQty _ _ _ _)
    · exact frame_setEntry _ _ _

theorem frame_onExecutedCore (w0 : World) (o : Order) : Frame w0 (onExecutedCore w0 o) := by
  unfold onExecutedCore
  split
  · exact frame_mutOpen _ _ _ _
  · split
    · exact frame_mutClose _ _ _
    · split
      · split
        · exact Frame.refl _
        · exact frame_mutIncrease _ _ _ _
      · split
        · split
          · split
            · exact frame_mutClose _ _ _
            · exact Frame.trans (frame_mutClose _ _ _) (frame_mutOpen _ _ _ _)
          · exact frame_mutReduce _ _ _ _
        · exact Frame.refl _

theorem frame_chargeFee (w : World) (o : Order) : Frame w (chargeFee w o) := by
  unfold chargeFee; split <;> exact ⟨rfl, rfl, rfl, rfl, rfl⟩

theorem frame_onExecuted (w : World) (o : Order) : Frame w (onExecuted w o) :=
  Frame.trans (frame_chargeFee w o) (frame_onExecutedCore _ o)

theorem onExecuted_frame (w : World) (o : Order) :
    (onExecuted w o).orders = w.orders ∧ (onExecuted w o).stopSum = w.stopSum ∧
    (onExecuted w o).limitSum = w.limitSum ∧ (onExecuted w o).kind = w.kind ∧
    (onExecuted w o).base = w.base := frame_onExecuted w o

/-- accepted submissions keep the invariant -/
theorem submit_keeps_sums (w w' : World) (h : SumsInv w) (side : Side) (type : OrderType) (q p : Rat) (ro : Bool)
    (hsub : submit w 0 side type q p ro = .ok w') : SumsInv w' := by
  obtain ⟨⟨hk, hb, hst, hl⟩, hs, hli⟩ := h
  have hq : absR (-(absR q)) = absR q := by rw [absR_eq_abs, absR_eq_abs, abs_neg, abs_abs]
  cases side
  · -- buy: sums untouched, the new order contributes nothing
    simp only [submit, hk, reduceCtorEq, if_false, if_true] at hsub
    split at hsub
    · cases hsub
    · injection hsub with hsub; rw [← hsub]
      refine ⟨⟨rfl, hb, hst, hl⟩, ?_, ?_⟩
      · simp only []; rw [resting_append, hs]; simp [contrib]
      · simp only []; rw [resting_append, hli]; simp [contrib]
  · cases type
    · simp only [submit, hk, reduceCtorEq, if_false, if_true] at hsub
      split at hsub
      · cases hsub
      · injection hsub with hsub; rw [← hsub]
        refine ⟨⟨rfl, hb, hst, hl⟩, ?_, ?_⟩
        · simp only []; rw [resting_append, hs]; simp [contrib]
        · simp only []; rw [resting_append, hli]; simp [contrib]
    · simp only [submit, hk, reduceCtorEq, if_false, if_true] at hsub
      split at hsub
      · cases hsub
      · injection hsub with hsub; rw [← hsub]
        obtain ⟨e1, e2⟩ := getD_upd_zero w.limitSum (· + absR (-(absR q))) hl
        refine ⟨⟨rfl, hb, hst, e2⟩, ?_, ?_⟩
        · simp only []; rw [resting_append, hs]; simp [contrib]
        · simp only []; rw [resting_append, e1, hli]; simp [contrib]
    · simp only [submit, hk, reduceCtorEq, if_false, if_true] at hsub
      split at hsub
      · cases hsub
      · injection hsub with hsub; rw [← hsub]
        obtain ⟨e1, e2⟩ := getD_upd_zero w.stopSum (· + absR (-(absR q))) hst
        refine ⟨⟨rfl, hb, e2, hl⟩, ?_, ?_⟩
        · simp only []; rw [resting_append, e1, hs]; simp [contrib]
        · simp only []; rw [resting_append, hli]; simp [contrib]

theorem releaseSell_sums (w : World) (o : Order) (hsym : o.sym = 0) (hst : w.stopSum.length = 1)
    (hl : w.limitSum.length = 1) (hact : o.status = .active) :
    getD (releaseSell w o).stopSum 0 = getD w.stopSum 0 - contrib .stop o ∧
    getD (releaseSell w o).limitSum 0 = getD w.limitSum 0 - contrib .limit o ∧
    (releaseSell w o).stopSum.length = 1 ∧ (releaseSell w o).limitSum.length = 1 ∧
    (releaseSell w o).orders = w.orders := by
  unfold releaseSell contrib
  by_cases h1 : o.side = .sell
  · by_cases h2 : o.type = .stop
    · obtain ⟨e1, e2⟩ := getD_upd_zero w.stopSum (· - absR o.qty) hst
      simp [h1, h2, hact, hsym, e1, e2, hl]
    · by_cases h3 : o.type = .limit
      · obtain ⟨e1, e2⟩ := getD_upd_zero w.limitSum (· - absR o.qty) hl
        simp [h1, h3, hact, hsym, e1, e2, hst]
      · simp [h1, h2, h3, hst, hl]
  · simp [h1, hst, hl]

/-- executions and cancellations (of any order, any number of times) keep the invariant -/
theorem execute_keeps_sums (w : World) (h : SumsInv w) (id : Nat)
    (hsym : ∀ o, w.orders[id]? = some o → o.sym = 0) : SumsInv (execute w id) := by
  obtain ⟨⟨hk, hb, hst, hl⟩, hs, hli⟩ := h
  unfold execute
  cases hg : w.orders[id]? with
  | none => exact ⟨⟨hk, hb, hst, hl⟩, hs, hli⟩
  | some o =>
    simp only []
    by_cases ha : o.status = .active
    · simp only [ha, ne_eq, not_true_eq_false, if_false]
      obtain ⟨f1, f2, f3, f4, f5⟩ := onExecuted_frame (exchangeOnExecution (addExecutedOrder (setStatus w id .executed) o) o) o
      have hs0 := hsym o hg
      -- the exchange step
      have hkk : (addExecutedOrder (setStatus w id .executed) o).kind = .spot := hk
      obtain ⟨r1, r2, r3, r4, r5⟩ := releaseSell_sums (addExecutedOrder (setStatus w id .executed) o) o hs0 hst hl ha
      have hex : (exchangeOnExecution (addExecutedOrder (setStatus w id .executed) o) o).stopSum
            = (releaseSell (addExecutedOrder (setStatus w id .executed) o) o).stopSum ∧
          (exchangeOnExecution (addExecutedOrder (setStatus w id .executed) o) o).limitSum
            = (releaseSell (addExecutedOrder (setStatus w id .executed) o) o).limitSum ∧
          (exchangeOnExecution (addExecutedOrder (setStatus w id .executed) o) o).orders
            = (releaseSell (addExecutedOrder (setStatus w id .executed) o) o).orders ∧
          (exchangeOnExecution (addExecutedOrder (setStatus w id .executed) o) o).kind = .spot ∧
          (exchangeOnExecution (addExecutedOrder (setStatus w id .executed) o) o).base.length = 1 := by
        simp only [exchangeOnExecution, hkk]
        have hbl : (releaseSell (addExecutedOrder (setStatus w id .executed) o) o).base.length = 1 := by
          rw [(releaseSell_wallet_base _ _).2.1]; exact hb
        have hkr : (releaseSell (addExecutedOrder (setStatus w id .executed) o) o).kind = .spot := by
          rw [(releaseSell_wallet_base _ _).2.2.1]; exact hk
        split
        · exact ⟨rfl, rfl, rfl, hkr, by rw [hs0]; exact (getD_upd_zero _ _ hbl).2⟩
        · exact ⟨rfl, rfl, rfl, hkr, by rw [hs0]; exact (getD_upd_zero _ _ hbl).2⟩
      obtain ⟨x1, x2, x3, x4, x5⟩ := hex
      have hord : (releaseSell (addExecutedOrder (setStatus w id .executed) o) o).orders
          = upd w.orders id (fun o => { o with status := .executed }) := by rw [r5]; rfl
      have hc1 := resting_upd w.orders id o (fun o => { o with status := .executed }) .stop hg
      have hc2 := resting_upd w.orders id o (fun o => { o with status := .executed }) .limit hg
      have z1 : contrib .stop { o with status := OrderStatus.executed } = 0 := by simp [contrib]
      have z2 : contrib .limit { o with status := OrderStatus.executed } = 0 := by simp [contrib]
      refine ⟨⟨by rw [f4]; exact x4, by rw [f5]; exact x5, by rw [f2, x1]; exact r3, by rw [f3, x2]; exact r4⟩, ?_, ?_⟩
      · rw [f2, x1, r1, f1, x3, hord, hc1, z1]
        show getD w.stopSum 0 - contrib .stop o = _
        rw [hs]; ring
      · rw [f3, x2, r2, f1, x3, hord, hc2, z2]
        show getD w.limitSum 0 - contrib .limit o = _
        rw [hli]; ring
    · simp only [ha, ne_eq, not_false_eq_true, if_true]
      exact ⟨⟨hk, hb, hst, hl⟩, hs, hli⟩

theorem cancel_keeps_sums (w : World) (h : SumsInv w) (id : Nat)
    (hsym : ∀ o, w.orders[id]? = some o → o.sym = 0) : SumsInv (cancel w id) := by
  obtain ⟨⟨hk, hb, hst, hl⟩, hs, hli⟩ := h
  unfold cancel
  cases hg : w.orders[id]? with
  | none => exact ⟨⟨hk, hb, hst, hl⟩, hs, hli⟩
  | some o =>
    simp only []
    by_cases ha : o.status = .active
    · simp only [ha, ne_eq, not_true_eq_false, if_false, hk]
      have hs0 := hsym o hg
      obtain ⟨r1, r2, r3, r4, r5⟩ := releaseSell_sums (setStatus w id .canceled) o hs0 hst hl ha
      obtain ⟨q1, q2, q3, _⟩ := releaseSell_wallet_base (setStatus w id .canceled) o
      have hord : (releaseSell (setStatus w id .canceled) o).orders
          = upd w.orders id (fun o => { o with status := .canceled }) := by rw [r5]; rfl
      have hc1 := resting_upd w.orders id o (fun o => { o with status := .canceled }) .stop hg
      have hc2 := resting_upd w.orders id o (fun o => { o with status := .canceled }) .limit hg
      have z1 : contrib .stop { o with status := OrderStatus.canceled } = 0 := by simp [contrib]
      have z2 : contrib .limit { o with status := OrderStatus.canceled } = 0 := by simp [contrib]
      have hbl : (releaseSell (setStatus w id .canceled) o).base.length = 1 := by rw [q2]; exact hb
      have hkr : (releaseSell (setStatus w id .canceled) o).kind = .spot := by rw [q3]; exact hk
      split
      · refine ⟨⟨hkr, hbl, r3, r4⟩, ?_, ?_⟩
        · show getD (releaseSell (setStatus w id .canceled) o).stopSum 0 = resting (releaseSell (setStatus w id .canceled) o).orders .stop
          rw [r1, hord, hc1, z1]
          show getD w.stopSum 0 - contrib .stop o = _
          rw [hs]; ring
        · show getD (releaseSell (setStatus w id .canceled) o).limitSum 0 = resting (releaseSell (setStatus w id .canceled) o).orders .limit
          rw [r2, hord, hc2, z2]
          show getD w.limitSum 0 - contrib .limit o = _
          rw [hli]; ring
      · refine ⟨⟨hkr, hbl, r3, r4⟩, ?_, ?_⟩
        · rw [r1, hord, hc1, z1]
          show getD w.stopSum 0 - contrib .stop o = _
          rw [hs]; ring
        · rw [r2, hord, hc2, z2]
          show getD w.limitSum 0 - contrib .limit o = _
          rw [hli]; ring
    · simp only [ha, ne_eq, not_false_eq_true, if_true]
      exact ⟨⟨hk, hb, hst, hl⟩, hs, hli⟩

/-- REJECTION after any history: under the invariant (which every sequence of accepted submissions,
    executions and cancellations preserves — the three theorems above) a sell is rejected exactly when
    it plus the RESTING sells of its kind exceeds the base held — also after any number of earlier
    cancellations (the defect repaired by `fix:` 28f1a04c made the sums drift below the resting sells). -/
theorem reject_iff_resting (w : World) (h : SumsInv w) (type : OrderType) (q p : Rat) (ro : Bool) :
    (∃ w', submit w 0 .sell type q p ro = .error (.InsufficientBalance, w')) ↔
      (match type with
        | .market => absR q + resting w.orders .limit
        | .stop => resting w.orders .stop + absR q
        | .limit => resting w.orders .limit + absR q) > getD w.base 0 := by
  obtain ⟨hsng, hs, hli⟩ := h
  rw [reject_iff_sell w hsng type q p ro]
  cases type <;> simp only [sellLoad, viewOf, hs, hli]

/-- FULL STATEMENT (false on the unchanged code): no short position ever exists and the position
    size equals the base balance after every operation.  Witness of the negation (known finding
    C04-F1): a take-profit LIMIT sell and a stop-loss STOP sell for the whole base are both accepted;
    the second one, executed after the first closed the position, OPENS a short position. -/
theorem short_position_witness :
    let w0 := setPrice (Acc.init .spot 10000 0 1 1) 0 100
    (match submit w0 0 .buy .market 3 100 false with
     | .ok w1 =>
       let w2 := execute w1 0
       (match submit w2 0 .sell .limit 3 103 true with
        | .ok w3 => (match submit w3 0 .sell .stop 3 97 true with
          | .ok w4 =>
            let w5 := execute (execute w4 1) 2
            decide ((getD w5.pos 0).qty = -3 ∧ getD w5.base 0 = 0)
          | _ => false)
        | _ => false)
     | _ => false) = true := by decide +kernel

end C04
