/-
  Proofs/C20.lean — candle series handed to the store are gapless and strictly ordered.
  Part 1: `_fill_absent_candles` (model in Jesse/FillAbsent.lean, tied by correspondence).
  Part 2: the candle store keeps strictly increasing timestamps (model in Jesse/Store.lean).
  PROPERTY THEOREMS ONLY.
-/
import Jesse.FillAbsent
import Jesse.Store
import Proofs.Lemmas.Num
import Proofs.Lemmas.ListExtra
import Proofs.Lemmas.StoreArray

namespace C20
open Jesse Jesse.FillAbsent

/-! ### filling absent candles -/

theorem fillLoop_length (temp : List Candle) (fo : Rat) (n : Nat) (ts : Int) (st : Bool) (lc : Rat) :
    (fillLoop temp fo n ts st lc).length = n := by
  induction n generalizing ts st lc with
  | zero => rfl
  | succ n ih =>
    unfold fillLoop
    cases temp.find? (fun c => c.ts = ts) <;> simp [ih]

/-- exactly one candle per minute of the requested interval -/
theorem fill_length (temp : List Candle) (start stop : Int) (h : temp ≠ []) (hse : start ≤ stop)
    (hal : (stop - start) % 60000 = 0) :
    ∃ out, fillAbsent temp start stop = .ok out ∧ (out.length : Int) = (stop - start) / 60000 + 1 := by
  cases temp with
  | nil => exact absurd rfl h
  | cons first rest =>
    refine ⟨_, rfl, ?_⟩
    rw [fillLoop_length]
    unfold loopLength
    obtain ⟨k, hk⟩ : ∃ k : Int, stop - start = 60000 * k := ⟨(stop - start) / 60000, by omega⟩
    have hk0 : 0 ≤ k := by omega
    have e : (((stop - start : Int) : Rat) / 60000 + 1) = ((k + 1 : Int) : Rat) := by
      rw [hk]; push_cast; field_simp
    simp only [e]
    have hx : ¬ (((k + 1 : Int) : Rat) < 0) := by
      have : (0 : Rat) ≤ ((k + 1 : Int) : Rat) := by exact_mod_cast (by omega : (0 : Int) ≤ k + 1)
      exact not_lt.mpr this
    rw [if_neg hx, Rat.floor_intCast]
    omega

/-- the k-th candle carries the k-th minute: timestamps are `start + 60000·k`, strictly increasing -/
theorem fillLoop_ts (temp : List Candle) (fo : Rat) (n : Nat) (ts : Int) (st : Bool) (lc : Rat)
    (k : Nat) (hk : k < n) :
    ((fillLoop temp fo n ts st lc)[k]?).map (·.ts) = some (ts + 60000 * k) := by
  induction n generalizing ts st lc k with
  | zero => omega
  | succ n ih =>
    unfold fillLoop
    cases hf : temp.find? (fun c => c.ts = ts) with
    | some c =>
      have hc : c.ts = ts := by have := List.find?_some hf; simpa using this
      cases k with
      | zero => simp [hc]
      | succ k' =>
        simp only [List.getElem?_cons_succ]
        rw [ih (ts + 60000) true c.c k' (by omega)]
        congr 1; push_cast; ring
    | none =>
      cases k with
      | zero => simp [flat]
      | succ k' =>
        simp only [List.getElem?_cons_succ]
        rw [ih _ _ _ k' (by omega)]
        congr 1; push_cast; ring

theorem fill_timestamps (temp : List Candle) (start stop : Int) (out : List Candle)
    (h : fillAbsent temp start stop = .ok out) (k : Nat) (hk : k < out.length) :
    (out[k]?).map (·.ts) = some (start + 60000 * k) := by
  cases temp with
  | nil => cases h
  | cons first rest =>
    simp only [fillAbsent] at h
    injection h with h; subst h
    rw [fillLoop_length] at hk
    exact fillLoop_ts _ _ _ _ _ _ k hk

/-- every provided candle is kept unchanged at its minute (the first one with that timestamp) -/
theorem fillLoop_keeps (temp : List Candle) (fo : Rat) (n : Nat) (ts : Int) (st : Bool) (lc : Rat)
    (k : Nat) (hk : k < n) (c : Candle)
    (hc : temp.find? (fun c => c.ts = ts + 60000 * k) = some c) :
    (fillLoop temp fo n ts st lc)[k]? = some c := by
  induction n generalizing ts st lc k with
  | zero => omega
  | succ n ih =>
    unfold fillLoop
    cases k with
    | zero =>
      simp only [Nat.cast_zero, mul_zero, add_zero] at hc
      rw [hc]; simp
    | succ k' =>
      have hc' : temp.find? (fun c => c.ts = (ts + 60000) + 60000 * (k' : Int)) = some c := by
        have : ts + 60000 * ((k' + 1 : Nat) : Int) = (ts + 60000) + 60000 * (k' : Int) := by push_cast; ring
        rw [← this]; exact hc
      cases temp.find? (fun c => c.ts = ts) with
      | some d => simp only [List.getElem?_cons_succ]; exact ih _ _ _ k' (by omega) hc'
      | none => simp only [List.getElem?_cons_succ]; exact ih _ _ _ k' (by omega) hc'

theorem fill_keeps_provided (temp : List Candle) (start stop : Int) (out : List Candle)
    (h : fillAbsent temp start stop = .ok out) (k : Nat) (hk : k < out.length) (c : Candle)
    (hc : temp.find? (fun c => c.ts = start + 60000 * k) = some c) :
    out[k]? = some c := by
  cases temp with
  | nil => cases h
  | cons first rest =>
    simp only [fillAbsent] at h
    injection h with h; subst h
    rw [fillLoop_length] at hk
    exact fillLoop_keeps _ _ _ _ _ _ k hk c hc

/-- a missing minute becomes a flat zero-volume candle: open = high = low = close, volume 0, at the
    close of the previous output candle once any provided candle has been seen … -/
theorem fillLoop_flat (temp : List Candle) (fo : Rat) (n : Nat) (ts : Int) (st : Bool) (lc : Rat)
    (k : Nat) (hk : k + 1 < n)
    (hmiss : temp.find? (fun c => c.ts = ts + 60000 * ((k + 1 : Nat) : Int)) = none)
    (hstarted : st = true ∨ ∃ j, j ≤ k ∧ (temp.find? (fun c => c.ts = ts + 60000 * (j : Int))).isSome) :
    ∃ prev, (fillLoop temp fo n ts st lc)[k]? = some prev ∧
      (fillLoop temp fo n ts st lc)[k + 1]? = some (flat (ts + 60000 * ((k + 1 : Nat) : Int)) prev.c) := by
  induction n generalizing ts st lc k with
  | zero => omega
  | succ n ih =>
    cases k with
    | zero =>
      -- first two iterations
      cases n with
      | zero => omega
      | succ n' =>
        have hm : temp.find? (fun c => c.ts = ts + 60000) = none := by simpa using hmiss
        unfold fillLoop
        cases hf : temp.find? (fun c => c.ts = ts) with
        | some c =>
          refine ⟨c, by simp, ?_⟩
          simp only [List.getElem?_cons_succ]
          unfold fillLoop
          simp [hm]
        | none =>
          have hst : st = true := by
            rcases hstarted with h | ⟨j, hj, hs⟩
            · exact h
            · have : j = 0 := by omega
              subst this; simp [hf] at hs
          refine ⟨flat ts lc, by simp [hst], ?_⟩
          simp only [List.getElem?_cons_succ, hst, if_true]
          unfold fillLoop
          simp [hm, flat]
    | succ k' =>
      have hmiss' : temp.find? (fun c => c.ts = (ts + 60000) + 60000 * ((k' + 1 : Nat) : Int)) = none := by
        have : ts + 60000 * ((k' + 1 + 1 : Nat) : Int) = (ts + 60000) + 60000 * ((k' + 1 : Nat) : Int) := by
          push_cast; ring
        rw [← this]; exact hmiss
      unfold fillLoop
      cases hf : temp.find? (fun c => c.ts = ts) with
      | some c =>
        obtain ⟨prev, h1, h2⟩ := ih (ts + 60000) true c.c k' (by omega) hmiss' (Or.inl rfl)
        refine ⟨prev, by simpa using h1, ?_⟩
        simp only [List.getElem?_cons_succ]
        rw [h2]; congr 2; push_cast; ring
      | none =>
        have hst' : st = true ∨ ∃ j, j ≤ k' ∧ (temp.find? (fun c => c.ts = (ts + 60000) + 60000 * (j : Int))).isSome := by
          rcases hstarted with h | ⟨j, hj, hs⟩
          · exact Or.inl h
          · cases j with
            | zero => simp [hf] at hs
            | succ j' =>
              right; refine ⟨j', by omega, ?_⟩
              have : ts + 60000 * ((j' + 1 : Nat) : Int) = (ts + 60000) + 60000 * (j' : Int) := by push_cast; ring
              rw [← this]; exact hs
        obtain ⟨prev, h1, h2⟩ := ih (ts + 60000) st (if st then lc else fo) k' (by omega) hmiss' hst'
        refine ⟨prev, by simpa using h1, ?_⟩
        simp only [List.getElem?_cons_succ]
        rw [h2]; congr 2; push_cast; ring

/-- … and at the first known open before any provided candle has been seen. -/
theorem fillLoop_flat_before (temp : List Candle) (fo : Rat) (n : Nat) (ts : Int) (lc : Rat)
    (k : Nat) (hk : k < n)
    (hnone : ∀ j, j ≤ k → temp.find? (fun c => c.ts = ts + 60000 * (j : Int)) = none) :
    (fillLoop temp fo n ts false lc)[k]? = some (flat (ts + 60000 * (k : Int)) fo) := by
  induction n generalizing ts lc k with
  | zero => omega
  | succ n ih =>
    unfold fillLoop
    have h0 : temp.find? (fun c => c.ts = ts) = none := by simpa using hnone 0 (by omega)
    rw [h0]
    cases k with
    | zero => simp
    | succ k' =>
      simp only [List.getElem?_cons_succ, Bool.false_eq_true, if_false]
      rw [ih (ts + 60000) fo k' (by omega) (by
        intro j hj
        have := hnone (j + 1) (by omega)
        have e : ts + 60000 * ((j + 1 : Nat) : Int) = (ts + 60000) + 60000 * (j : Int) := by push_cast; ring
        rw [← e]; exact this)]
      congr 2; push_cast; ring

/-! ### the candle store keeps strictly increasing timestamps -/

open Jesse.Store

/-- strictly increasing timestamps -/
def Sorted (arr : List Candle) : Prop := arr.Pairwise (fun a b => a.ts < b.ts)

theorem replaceFirst_ts (arr : List Candle) (c : Candle) :
    (replaceFirst arr c).map (·.ts) = arr.map (·.ts) := by
  induction arr with
  | nil => rfl
  | cons x xs ih =>
    unfold replaceFirst
    split
    · rename_i h; simp [h]
    · simp [ih]

theorem replaceFromEnd_ts (arr : List Candle) (c : Candle) :
    (replaceFromEnd arr c).map (·.ts) = arr.map (·.ts) := by
  unfold replaceFromEnd
  rw [List.map_reverse, replaceFirst_ts, ← List.map_reverse, List.reverse_reverse]

theorem sorted_iff_ts (arr : List Candle) :
    Sorted arr ↔ (arr.map (·.ts)).Pairwise (· < ·) := by
  unfold Sorted; rw [List.pairwise_map]

theorem sorted_append_last (arr : List Candle) (c last : Candle) (hs : Sorted arr)
    (hl : arr.getLast? = some last) (hgt : last.ts < c.ts) : Sorted (arr ++ [c]) := by
  unfold Sorted at *
  rw [List.pairwise_append]
  refine ⟨hs, List.pairwise_singleton _ _, ?_⟩
  intro a ha b hb
  simp only [List.mem_singleton] at hb; subst hb
  -- every element is ≤ the last one
  have hle : a.ts ≤ last.ts := by
    obtain ⟨init, rfl⟩ : ∃ init, arr = init ++ [last] := by
      have := List.getLast?_eq_some_iff.mp hl
      obtain ⟨ys, hys⟩ := this
      exact ⟨ys, hys⟩
    rw [List.pairwise_append] at hs
    rcases List.mem_append.mp ha with h1 | h1
    · exact le_of_lt (hs.2.2 a h1 last (by simp))
    · simp only [List.mem_singleton] at h1; subst h1; exact le_refl _
  omega

/-- INVARIANT: whatever candle is added (new, repeated, older, timestamp 0), for any timeframe,
    the stored timestamps stay strictly increasing. -/
theorem add_candle_sorted (arr : List Candle) (c : Candle) (hs : Sorted arr) :
    Sorted (addCandle arr c) := by
  unfold addCandle
  split
  · exact hs
  · cases hl : arr.getLast? with
    | none =>
      have : arr = [] := by simpa using hl
      subst this; simp [Sorted]
    | some last =>
      simp only []
      split
      · exact sorted_append_last arr c last hs hl (by omega)
      · split
        · -- same timestamp as the last: replace it
          rename_i heq
          obtain ⟨init, rfl⟩ : ∃ init, arr = init ++ [last] := by
            obtain ⟨ys, hys⟩ := List.getLast?_eq_some_iff.mp hl
            exact ⟨ys, hys⟩
          simp only [List.dropLast_concat]
          rw [sorted_iff_ts] at *
          simpa [heq] using hs
        · rw [sorted_iff_ts, replaceFromEnd_ts, ← sorted_iff_ts]; exact hs

/-- … hence for every sequence of additions starting from an empty array. -/
theorem store_strictly_increasing (cs : List Candle) : Sorted (batchAdd [] cs) := by
  have : ∀ arr, Sorted arr → Sorted (batchAdd arr cs) := by
    induction cs with
    | nil => intro arr h; exact h
    | cons c rest ih => intro arr h; exact ih _ (add_candle_sorted arr c h)
  exact this [] (by simp [Sorted])

/-- a candle with a timestamp newer than everything stored is appended -/
theorem new_appends (arr : List Candle) (c last : Candle) (hl : arr.getLast? = some last)
    (hz : c.ts ≠ 0) (hgt : last.ts < c.ts) : addCandle arr c = arr ++ [c] := by
  unfold addCandle
  simp [hz, hl, hgt]

theorem first_appends (c : Candle) (hz : c.ts ≠ 0) : addCandle [] c = [c] := by
  simp [addCandle, hz]

/-- a candle with the timestamp of a stored candle replaces exactly that candle
    (all other rows and the length are unchanged) -/
theorem replaceFirst_spec (arr : List Candle) (c : Candle) (k : Nat) (x : Candle)
    (hk : arr[k]? = some x) (hx : x.ts = c.ts) (hfirst : ∀ j < k, ∀ y, arr[j]? = some y → y.ts ≠ c.ts) :
    replaceFirst arr c = arr.set k c := by
  induction arr generalizing k with
  | nil => simp at hk
  | cons a as ih =>
    unfold replaceFirst
    cases k with
    | zero =>
      simp only [List.getElem?_cons_zero, Option.some.injEq] at hk
      subst hk; simp [hx]
    | succ k' =>
      have ha : a.ts ≠ c.ts := hfirst 0 (by omega) a (by simp)
      simp only [ha, if_false, List.set_cons_succ]
      congr 1
      exact ih k' (by simpa using hk) (fun j hj y hy => hfirst (j + 1) (by omega) y (by simpa using hy))

theorem same_timestamp_replaces (arr : List Candle) (c : Candle) (hs : Sorted arr) (hz : c.ts ≠ 0)
    (k : Nat) (x : Candle) (hk : arr[k]? = some x) (hx : x.ts = c.ts) :
    addCandle arr c = arr.set k c := by
  have hklt : k < arr.length := by
    by_contra h; rw [List.getElem?_eq_none (by omega)] at hk; cases hk
  -- in a sorted array the timestamp determines the row
  have uniq : ∀ j y, arr[j]? = some y → y.ts = c.ts → j = k := by
    intro j y hj hy
    have hjlt : j < arr.length := by
      by_contra h; rw [List.getElem?_eq_none (by omega)] at hj; cases hj
    have hjy : arr[j] = y := by rw [List.getElem?_eq_getElem hjlt] at hj; injection hj
    have hkx : arr[k] = x := by rw [List.getElem?_eq_getElem hklt] at hk; injection hk
    rcases Nat.lt_trichotomy j k with h | h | h
    · have := List.pairwise_iff_getElem.mp hs j k hjlt hklt h
      rw [hjy, hkx] at this; omega
    · exact h
    · have := List.pairwise_iff_getElem.mp hs k j hklt hjlt h
      rw [hjy, hkx] at this; omega
  unfold addCandle
  simp only [hz, if_false]
  cases hl : arr.getLast? with
  | none => have : arr = [] := by simpa using hl
            subst this; simp at hk
  | some last =>
    simp only []
    have hlast : arr[arr.length - 1]? = some last := by
      rw [← List.getLast?_eq_getElem?]; exact hl
    have hle : c.ts ≤ last.ts := by
      have hkx : arr[k] = x := by rw [List.getElem?_eq_getElem hklt] at hk; injection hk
      have hll : arr[arr.length - 1]'(by omega) = last := by
        rw [List.getElem?_eq_getElem (by omega)] at hlast; injection hlast
      rcases Nat.lt_or_ge k (arr.length - 1) with h | h
      · have := List.pairwise_iff_getElem.mp hs k (arr.length - 1) hklt (by omega) h
        rw [hkx, hll] at this; omega
      · have : k = arr.length - 1 := by omega
        subst this; rw [hkx] at hll; rw [← hll, hx]
    have hng : ¬ c.ts > last.ts := by omega
    simp only [hng, if_false]
    split
    · -- it is the last row
      rename_i heq
      have : arr.length - 1 = k := uniq _ last hlast heq.symm
      subst this
      obtain ⟨init, rfl⟩ : ∃ init, arr = init ++ [last] := by
        obtain ⟨ys, hys⟩ := List.getLast?_eq_some_iff.mp hl
        exact ⟨ys, hys⟩
      simp [List.dropLast_concat, List.set_append]
    · -- an older row: found by the search from the end
      unfold replaceFromEnd
      have hrev : arr.reverse[arr.length - 1 - k]? = some x := by
        rw [List.getElem?_reverse (by omega)]
        have : arr.length - 1 - (arr.length - 1 - k) = k := by omega
        rw [this]; exact hk
      rw [replaceFirst_spec arr.reverse c (arr.length - 1 - k) x hrev hx (by
        intro j hj y hy hyc
        rw [List.getElem?_reverse (by omega)] at hy
        have := uniq _ y hy hyc
        omega)]
      have := ListExtra.reverse_set_reverse arr k c hklt
      rw [← this]

/-! ### the store on the real array class

`Jesse/StoreD.lean` is `add_candle` written with the calls the Python makes on its `DynamicNumpyArray`
(`len`, `arr[-1]`, `append`, `arr[-1] = c`, the search `arr[-i]` / `arr[-i] = c`), on the array model of C18.
The theorems below say that, on the array's logical content, it IS the list algorithm the rest of this file (and the
engine model) reasons about — for every array state that satisfies the class invariant, every bucket size, every
candle.  This is the composition C18 ∘ C20 that used to be trusted. -/

open Jesse.StoreD StoreArray in
theorem append_keeps_dropAt (a a' : DynArray) (r : Row) (h : a.append r = .ok a') : a'.dropAt = a.dropAt := by
  unfold DynArray.append DynArray.writeRow at h
  dsimp only at h
  split at h
  · injection h with h; rw [← h]
  · exact absurd h (by simp)

open Jesse.StoreD StoreArray in
theorem setItem_keeps_dropAt (a a' : DynArray) (i : Int) (r : Row) (h : a.setItem i r = .ok a') :
    a'.dropAt = a.dropAt := by
  unfold DynArray.setItem at h
  dsimp only at h
  split at h
  · exact absurd h (by simp)
  · split at h
    · injection h with h; rw [← h]
    · exact absurd h (by simp)

open Jesse.StoreD StoreArray in
theorem replaceLoop_keeps_dropAt (r : Row) (fuel : Nat) : ∀ (a a' : DynArray) (i : Nat),
    replaceLoop a r fuel i = .ok a' → a'.dropAt = a.dropAt := by
  induction fuel with
  | zero => intro a a' i h; unfold replaceLoop at h; injection h with h; rw [h]
  | succ fuel ih =>
    intro a a' i h
    unfold replaceLoop at h
    split at h
    · exact absurd h (by simp)
    · split at h
      · exact setItem_keeps_dropAt _ _ _ _ h
      · exact ih _ _ _ h

open Jesse.StoreD StoreArray Jesse.DynArray in
/-- ONE `add_candle` on the array = `addCandle` on the list it holds; it never raises, and the class invariant and
    the absence of `drop_at` carry over -/
theorem addCandleD_refines (a : DynArray) (h : Inv a) (hd : a.dropAt = none) (arr : List Candle) (c : Candle)
    (habs : a.abs = arr.map enc) :
    ∃ a', addCandleD a (enc c) = .ok a' ∧ a'.abs = (Store.addCandle arr c).map enc ∧ Inv a' ∧ a'.dropAt = none := by
  have hdrop : ∀ d, a.dropAt = some d → 0 < d := by intro d hh; rw [hd] at hh; exact absurd hh (by simp)
  have hlen : a.len = (arr.length : Int) := by rw [C18.refines_len a h, habs, List.length_map]
  unfold addCandleD Store.addCandle
  rw [ts_enc]
  by_cases hz : c.ts = 0
  · simp only [hz, Int.cast_zero, if_true]
    exact ⟨a, rfl, habs, h, hd⟩
  · have hz' : ¬ ((c.ts : Int) : Rat) = 0 := by rw [Rat.intCast_eq_zero_iff]; exact hz
    simp only [hz', hz, if_false]
    -- what an append does
    have happ : ∃ a', a.append (enc c) = .ok a' ∧ a'.abs = (arr ++ [c]).map enc ∧ Inv a' ∧ a'.dropAt = none := by
      obtain ⟨a', hok, ha, hi⟩ := C18.refines_append a h (enc c) hdrop
      refine ⟨a', hok, ?_, hi, by rw [append_keeps_dropAt a a' _ hok, hd]⟩
      rw [ha, hd, habs]; simp [Spec.listAppend, Spec.listAppendAll]
    cases hl : arr.getLast? with
    | none =>
      have harr : arr = [] := List.getLast?_eq_none_iff.mp hl
      have h0 : a.len = 0 := by rw [hlen, harr]; rfl
      simp only [h0, if_true]
      exact happ
    | some last =>
      have hne : arr ≠ [] := by intro h0; rw [h0] at hl; simp at hl
      have hpos : 0 < arr.length := List.length_pos_iff.mpr hne
      have h0 : ¬ a.len = 0 := by rw [hlen]; omega
      simp only [h0, if_false]
      have hget : a.getItem (-1) = .ok (enc last) := by
        rw [C18.refines_getItem a h (-1), getIdx_neg_one, habs, List.getLast?_map, hl]; rfl
      rw [hget]
      simp only [ts_enc, gt_iff_lt, Rat.intCast_lt_intCast, Rat.intCast_inj]
      by_cases hgt : last.ts < c.ts
      · simp only [hgt, if_true]; exact happ
      · simp only [hgt, if_false]
        by_cases heq : c.ts = last.ts
        · simp only [heq, if_true]
          have hset := C18.refines_setItem a h (-1) (enc c)
          have hn : Py.normIdx a.abs.length (-1) = some (a.abs.length - 1) := by
            have := normIdx_neg a.abs.length 1 (Nat.le_refl 1) (by rw [habs, List.length_map]; omega)
            simpa using this
          rw [hn] at hset
          obtain ⟨a', hok, ha, hi⟩ := hset
          refine ⟨a', hok, ?_, hi, by rw [setItem_keeps_dropAt a a' _ _ hok, hd]⟩
          have hane : a.abs ≠ [] := by rw [habs]; simpa using hne
          rw [ha, set_last _ _ hane, habs, List.map_append, List.map_dropLast]; rfl
        · simp only [heq, if_false]
          have hfuel : a.len.toNat = a.abs.length := by rw [hlen, habs, List.length_map]; omega
          rw [hfuel]
          obtain ⟨a', hok, ha, hi⟩ := replaceLoop_refines (enc c) a.abs.length a 1 h (Nat.le_refl 1) rfl (by
            intro y hy
            have : a.abs.length + 1 - 1 = a.abs.length := by omega
            rw [this, List.drop_length] at hy
            exact absurd hy (by simp))
          refine ⟨a', hok, ?_, hi, by rw [replaceLoop_keeps_dropAt _ _ _ _ _ hok, hd]⟩
          rw [ha, habs, replaceFromEndR_map]

open Jesse.StoreD StoreArray Jesse.DynArray in
/-- ANY sequence of `add_candle` calls on the array = `batchAdd` on the list it holds -/
theorem batchAddD_refines (cs : List Candle) : ∀ (a : DynArray) (arr : List Candle), Inv a → a.dropAt = none →
    a.abs = arr.map enc →
    ∃ a', batchAddD a (cs.map enc) = .ok a' ∧ a'.abs = (Store.batchAdd arr cs).map enc ∧ Inv a' ∧ a'.dropAt = none := by
  induction cs with
  | nil => intro a arr h hd habs; exact ⟨a, rfl, habs, h, hd⟩
  | cons c cs ih =>
    intro a arr h hd habs
    obtain ⟨a1, hok, ha, hi, hd1⟩ := addCandleD_refines a h hd arr c habs
    obtain ⟨a2, hok2, ha2, hi2, hd2⟩ := ih a1 (Store.addCandle arr c) hi hd1 ha
    refine ⟨a2, ?_, ?_, hi2, hd2⟩
    · simp only [List.map_cons, batchAddD, hok]; exact hok2
    · rw [ha2]; rfl

open Jesse.StoreD StoreArray Jesse.DynArray in
/-- from a fresh array of any bucket size: whatever candles are added in whatever order, no call raises and the rows
    the array holds are the candles of a strictly increasing series -/
theorem store_on_array_strictly_increasing (bucket : Nat) (hb : 0 < bucket) (cs : List Candle) :
    ∃ a' arr, batchAddD (DynArray.new bucket 6 none) (cs.map enc) = .ok a' ∧ a'.abs = arr.map enc ∧ Sorted arr := by
  obtain ⟨hinv, habs⟩ := C18.inv_new bucket 6 none hb
  obtain ⟨a', hok, ha, _, _⟩ := batchAddD_refines cs (DynArray.new bucket 6 none) [] hinv rfl (by rw [habs]; rfl)
  exact ⟨a', Store.batchAdd [] cs, hok, ha, store_strictly_increasing cs⟩

open Jesse.StoreD StoreArray in
theorem appendMultiple_keeps_dropAt (a a' : DynArray) (rs : List Row) (h : a.appendMultiple rs = .ok a') :
    a'.dropAt = a.dropAt := by
  unfold DynArray.appendMultiple at h
  split at h
  · exact absurd h (by simp)
  · dsimp only at h; injection h with h; rw [← h]

open Jesse.StoreD StoreArray in
theorem setSlice_keeps_dropAt (a a' : DynArray) (s e : Option Int) (rs : List Row) (h : a.setSlice s e rs = .ok a') :
    a'.dropAt = a.dropAt := by
  unfold DynArray.setSlice at h
  dsimp only at h
  split at h
  · injection h with h; rw [← h]
  · exact absurd h (by simp)

open Jesse.StoreD StoreArray Jesse.DynArray in
/-- `add_multiple_1m_candles` on the array = `addMultiple1m` on the list it holds — same result, same IndexError —
    whenever the chunk is entirely new or ENDS AT THE LAST STORED MINUTE (the two ways the fast simulator calls it:
    a fresh chunk, and the chunk whose minutes were already stored one by one while orders were matched).
    A chunk that ends later than the stored series but overlaps it writes past the logical end of the array and is
    left to C18 + correspondence. -/
theorem addMultipleD_refines (a : DynArray) (h : Inv a) (hd : a.dropAt = none) (arr cs : List Candle)
    (habs : a.abs = arr.map enc)
    (hcase : ∀ last cl, arr.getLast? = some last → cs.getLast? = some cl →
      (∃ c0, cs.head? = some c0 ∧ last.ts < c0.ts) ∨ cl.ts = last.ts) :
    match Store.addMultiple1m arr cs with
    | .ok out => ∃ a', addMultipleD a (cs.map enc) = .ok a' ∧ a'.abs = out.map enc ∧ Inv a' ∧ a'.dropAt = none
    | .error e => addMultipleD a (cs.map enc) = .error e := by
  have hdrop : ∀ d, a.dropAt = some d → 0 < d := by intro d hh; rw [hd] at hh; exact absurd hh (by simp)
  have hlen : a.len = (arr.length : Int) := by rw [C18.refines_len a h, habs, List.length_map]
  unfold addMultipleD Store.addMultiple1m
  rw [List.head?_map, List.getLast?_map]
  cases hc0 : cs.head? with
  | none => simp
  | some c0 =>
    cases hcl : cs.getLast? with
    | none => simp
    | some cl =>
      simp only [Option.map_some]
      have hcne : cs ≠ [] := by intro h0; rw [h0] at hc0; simp at hc0
      have hcpos : 0 < cs.length := List.length_pos_iff.mpr hcne
      -- what a bulk append does
      have happ : ∃ a', a.appendMultiple (cs.map enc) = .ok a' ∧ a'.abs = (arr ++ cs).map enc ∧ Inv a' ∧ a'.dropAt = none := by
        obtain ⟨a', hok, ha, hi⟩ := C18.refines_appendMultiple a h (cs.map enc) hdrop (by intro hh; exact absurd hd hh)
        refine ⟨a', hok, ?_, hi, by rw [appendMultiple_keeps_dropAt a a' _ hok, hd]⟩
        rw [ha, hd, habs]; simp [Spec.listAppendAll]
      cases hl : arr.getLast? with
      | none =>
        have harr : arr = [] := List.getLast?_eq_none_iff.mp hl
        have h0 : a.len = 0 := by rw [hlen, harr]; rfl
        simp only [h0, if_true]
        exact happ
      | some last =>
        have hne : arr ≠ [] := by intro h0; rw [h0] at hl; simp at hl
        have hpos : 0 < arr.length := List.length_pos_iff.mpr hne
        have h0 : ¬ a.len = 0 := by rw [hlen]; omega
        simp only [h0, if_false]
        have hget : a.getItem (-1) = .ok (enc last) := by
          rw [C18.refines_getItem a h (-1), getIdx_neg_one, habs, List.getLast?_map, hl]; rfl
        rw [hget]
        simp only [ts_enc, gt_iff_lt, ge_iff_le, Rat.intCast_lt_intCast, Rat.intCast_le_intCast]
        by_cases hgt : last.ts < c0.ts
        · simp only [hgt, if_true]; exact happ
        · simp only [hgt, if_false]
          have heq : cl.ts = last.ts := by
            rcases hcase last cl hl hcl with ⟨c0', hh, hlt⟩ | hh
            · rw [hc0] at hh; injection hh with hh; rw [← hh] at hlt; exact absurd hlt hgt
            · exact hh
          have hgetk : a.getItem (-((cs.map enc).length : Int)) = match Py.getIdx arr (-(cs.length : Int)) with
              | some x => .ok (enc x)
              | none => .error .IndexError := by
            rw [C18.refines_getItem a h, habs, getIdx_map, List.length_map]
            cases Py.getIdx arr (-(cs.length : Int)) <;> rfl
          rw [hgetk]
          cases hx : Py.getIdx arr (-(cs.length : Int)) with
          | none => simp
          | some x =>
            simp only [ts_enc, Rat.intCast_le_intCast]
            have hkle : cs.length ≤ arr.length := by
              unfold Py.getIdx at hx
              cases hn : Py.normIdx arr.length (-(cs.length : Int)) with
              | none => rw [hn] at hx; exact absurd hx (by simp)
              | some k =>
                unfold Py.normIdx at hn
                have h1 : ¬ (0 : Int) ≤ -(cs.length : Int) := by omega
                have h2 : (-(-(cs.length : Int))).toNat = cs.length := by omega
                simp only [h1, if_false, h2] at hn
                by_contra hcon
                simp [hcon] at hn
            by_cases hcond : x.ts ≤ c0.ts ∧ last.ts ≤ cl.ts
            · rw [if_pos hcond, if_pos hcond]
              have hov : (cs.length : Int) - (cl.ts - last.ts) / 60000 = (cs.length : Int) := by
                rw [heq]; simp
              have hovD : ((cs.map enc).length : Int) - ((((cl.ts : Int) : Rat) - ((last.ts : Int) : Rat)) / 60000).floor
                  = (cs.length : Int) := by
                have hf : Rat.floor 0 = 0 := rfl
                rw [heq, List.length_map]; simp [hf]
              rw [hov]
              have hnle : ¬ ((cs.length : Int) ≤ 0) := by omega
              simp only [hnle, if_false, Int.toNat_natCast, List.take_length]
              rw [hovD]
              have hk1 : 1 ≤ (cs.map enc).length := by rw [List.length_map]; omega
              have hka : (cs.map enc).length ≤ a.abs.length := by rw [habs, List.length_map, List.length_map]; exact hkle
              have hset := C18.refines_setSlice a h (some (-(cs.length : Int))) none (cs.map enc) (by
                have := slice_tail_length a.abs (cs.map enc).length hka hk1
                rw [List.length_map] at this
                rw [this, List.length_map])
              obtain ⟨a', hok, hs, hi⟩ := hset
              refine ⟨a', hok, ?_, hi, by rw [setSlice_keeps_dropAt a a' _ _ _ hok, hd]⟩
              have hst := setSlice_tail a.abs (cs.map enc) (cs.map enc).length hka hk1 rfl
              rw [List.length_map] at hst
              rw [hst] at hs
              injection hs with hs
              rw [← hs, habs, List.length_map, List.map_append, List.map_take]
            · rw [if_neg hcond, if_neg hcond]

/-- non-vacuity: bucket 2 (so the array grows), a new minute, the last minute again, an older minute, a zero timestamp -/
example : (match Jesse.StoreD.batchAddD (DynArray.new 2 6 none)
      ([⟨60000, 1, 2, 3, 0, 5⟩, ⟨120000, 2, 2, 2, 2, 1⟩, ⟨180000, 2, 3, 4, 1, 1⟩, ⟨180000, 2, 5, 6, 1, 2⟩,
        ⟨120000, 9, 9, 9, 9, 9⟩, ⟨0, 7, 7, 7, 7, 7⟩].map Jesse.StoreD.enc) with
    | .ok a => decide (a.abs = ([⟨60000, 1, 2, 3, 0, 5⟩, ⟨120000, 9, 9, 9, 9, 9⟩, ⟨180000, 2, 5, 6, 1, 2⟩] : List Candle).map Jesse.StoreD.enc)
    | _ => false) = true := by decide +kernel

/-- non-vacuity: a fresh chunk of three minutes (bulk append with growth), then the same three minutes again with new
    values (the override that ends at the last stored minute) -/
example : (match Jesse.StoreD.addMultipleD (DynArray.new 2 6 none)
      ([⟨60000, 1, 2, 3, 0, 5⟩, ⟨120000, 2, 2, 2, 2, 1⟩, ⟨180000, 2, 3, 4, 1, 1⟩].map Jesse.StoreD.enc) with
    | .ok a => (match Jesse.StoreD.addMultipleD a ([⟨120000, 7, 7, 7, 7, 7⟩, ⟨180000, 8, 8, 8, 8, 8⟩].map Jesse.StoreD.enc) with
      | .ok b => decide (b.abs = ([⟨60000, 1, 2, 3, 0, 5⟩, ⟨120000, 7, 7, 7, 7, 7⟩, ⟨180000, 8, 8, 8, 8, 8⟩] : List Candle).map Jesse.StoreD.enc)
      | _ => false)
    | _ => false) = true := by decide +kernel

/-- the isolated backtest rejects input whose two leading candles are not one minute apart
    (model of the check in `_isolated_backtest`; it looks at the first two rows only, as the code does) -/
theorem spacing_rejected (cs : List Candle) (c0 c1 : Candle) (rest : List Candle)
    (h : cs = c0 :: c1 :: rest) : spacingCheck cs = .ok () ↔ c1.ts - c0.ts = 60000 := by
  subst h; unfold spacingCheck; simp only []
  constructor
  · intro hh; by_contra hne; simp [hne] at hh
  · intro hh; simp [hh]

/-- non-vacuity: minutes 0 and 3 provided, 1–2 and 4 missing -/
example : (match fillAbsent [⟨0, 10, 11, 12, 9, 5⟩, ⟨180000, 20, 21, 22, 19, 7⟩] 0 240000 with
    | .ok out => decide (out = [⟨0, 10, 11, 12, 9, 5⟩, flat 60000 11, flat 120000 11, ⟨180000, 20, 21, 22, 19, 7⟩, flat 240000 21])
    | _ => false) = true := by decide +kernel

end C20
