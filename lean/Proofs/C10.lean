/-
  Proofs/C10.lean — smart order routing (decision tables).  Statements about the GENERATED
  `_submit_buy_orders` / `_submit_sell_orders` loop bodies, the GENERATED broker methods and
  `is_price_near`, composed by the dispatch glue of Jesse/Routing.lean.  PROPERTY THEOREMS ONLY.
-/
import Jesse.Routing
import Proofs.Lemmas.Num
import Proofs.Lemmas.Frame

namespace C10
open Jesse Jesse.Gen Jesse.Routing

/-- "within 0.015 percent of the current price" -/
def Near (p cur : Rat) : Prop := |1 - p / cur| ≤ 15 / 100000

instance (p cur : Rat) : Decidable (Near p cur) := by unfold Near; infer_instance

theorem near_iff (p cur : Rat) : isPriceNearD p cur ↔ Near p cur := by
  unfold isPriceNearD isPriceNear defaultThreshold Near
  rw [absR_eq_abs]

theorem near_self (cur : Rat) (h : cur ≠ 0) : Near cur cur := by
  unfold Near; rw [div_self h]; norm_num

/-- what an order submission looks like, stripped of the decidability plumbing -/
structure Sub where
  type : OrderType
  qty : Rat
  price : Rat
  side : Side
  reduceOnly : Bool
deriving DecidableEq, Repr

def view (a : ApiCall) : Sub := ⟨a.type, a.qty, a.price, a.side, decide a.reduceOnly⟩

/-- ENTRY (buy side).  For a non-zero quantity and a non-negative price, with the strategy price
    equal to the position's current price `cur > 0`: exactly one order of quantity |q| is submitted,
    not reduce-only, on the buy side; MARKET at the current price when p is within 0.015 % of it,
    otherwise at exactly p: STOP if p is above (worse), LIMIT if below (better). Never an error. -/
theorem entry_routing_buy (q p cur : Rat) (hq : q ≠ 0) (hp : 0 ≤ p) (hc : 0 < cur) :
    ∃ a, entryBuy q p cur cur = .ok a ∧ view a =
      (if Near p cur then ⟨.market, |q|, cur, .buy, false⟩
       else if p > cur then ⟨.stop, |q|, p, .buy, false⟩
       else ⟨.limit, |q|, p, .buy, false⟩) := by
  unfold entryBuy submitBuyDecision
  by_cases hn : Near p cur
  · have hn' : isPriceNearD p cur := (near_iff p cur).mpr hn
    simp only [hn', hn, if_true, dispatch, buyAtMarket, validateQty, hq, if_false]
    exact ⟨_, rfl, by simp [view, ApiCall.market, absR_eq_abs]⟩
  · have hn' : ¬ isPriceNearD p cur := fun h => hn ((near_iff p cur).mp h)
    have hne : p ≠ cur := by
      intro h; apply hn; rw [h]; exact near_self cur (ne_of_gt hc)
    simp only [hn', hn, if_false]
    by_cases hgt : p > cur
    · have hnp : ¬ p < 0 := not_lt.mpr hp
      have h2 : ¬ p < cur := not_lt.mpr (le_of_lt hgt)
      simp only [hgt, if_true, dispatch, startProfitAt, validateQty, hq, if_false, hnp, h2,
        reduceCtorEq, false_and, and_false]
      exact ⟨_, rfl, by simp [view, ApiCall.stop, absR_eq_abs]⟩
    · have hlt : p < cur := lt_of_le_of_ne (not_lt.mp hgt) hne
      have hnp : ¬ p < 0 := not_lt.mpr hp
      simp only [hgt, hlt, if_true, if_false, dispatch, buyAt, validateQty, hq, hnp]
      exact ⟨_, rfl, by simp [view, ApiCall.limit, absR_eq_abs]⟩

/-- ENTRY (sell side), mirrored: STOP below the current price (worse), LIMIT above (better). -/
theorem entry_routing_sell (q p cur : Rat) (hq : q ≠ 0) (hp : 0 ≤ p) (hc : 0 < cur) :
    ∃ a, entrySell q p cur cur = .ok a ∧ view a =
      (if Near p cur then ⟨.market, |q|, cur, .sell, false⟩
       else if p < cur then ⟨.stop, |q|, p, .sell, false⟩
       else ⟨.limit, |q|, p, .sell, false⟩) := by
  unfold entrySell submitSellDecision
  by_cases hn : Near p cur
  · have hn' : isPriceNearD p cur := (near_iff p cur).mpr hn
    simp only [hn', hn, if_true, dispatch, sellAtMarket, validateQty, hq, if_false]
    exact ⟨_, rfl, by simp [view, ApiCall.market, absR_eq_abs]⟩
  · have hn' : ¬ isPriceNearD p cur := fun h => hn ((near_iff p cur).mp h)
    have hne : p ≠ cur := by
      intro h; apply hn; rw [h]; exact near_self cur (ne_of_gt hc)
    simp only [hn', hn, if_false]
    by_cases hlt : p < cur
    · have hnp : ¬ p < 0 := not_lt.mpr hp
      have h2 : ¬ p > cur := not_lt.mpr (le_of_lt hlt)
      simp only [hlt, if_true, dispatch, startProfitAt, validateQty, hq, if_false, hnp, h2,
        reduceCtorEq, false_and, and_false]
      exact ⟨_, rfl, by simp [view, ApiCall.stop, absR_eq_abs]⟩
    · have hgt : p > cur := lt_of_le_of_ne (not_lt.mp hlt) (Ne.symm hne)
      have hnp : ¬ p < 0 := not_lt.mpr hp
      simp only [hlt, hgt, if_true, if_false, dispatch, sellAt, validateQty, hq, hnp]
      exact ⟨_, rfl, by simp [view, ApiCall.limit, absR_eq_abs]⟩

/-- closing side of a position type -/
def closingSide : PosType → Side
  | .long => .sell | .short => .buy | .close => .buy

/-- EXIT.  For an open position, a non-zero quantity, a non-negative price and a positive current
    price: exactly one reduce-only order of quantity |q| at exactly price p on the closing side;
    MARKET within 0.015 %, otherwise LIMIT on the profit side and STOP on the loss side.
    The `OrderNotAllowed` fall-through is unreachable. -/
theorem exit_routing (q p cur : Rat) (t : PosType) (ht : t ≠ .close) (hq : q ≠ 0) (hp : 0 ≤ p)
    (hc : 0 < cur) :
    ∃ a, reducePositionAt q p cur t = .ok a ∧ view a =
      (if Near p cur then ⟨.market, |q|, p, closingSide t, true⟩
       else if (t = .long ∧ p > cur) ∨ (t = .short ∧ p < cur) then ⟨.limit, |q|, p, closingSide t, true⟩
       else ⟨.stop, |q|, p, closingSide t, true⟩) := by
  have hnp : ¬ p < 0 := not_lt.mpr hp
  unfold reducePositionAt
  simp only [validateQty, hq, if_false, hnp, ht]
  by_cases hn : Near p cur
  · have hn' : isPriceNearD p cur := (near_iff p cur).mpr hn
    cases t
    · simp only [typeToSide, oppositeSide, if_true, hn', hn, reduceCtorEq, if_false]
      exact ⟨_, rfl, by simp [view, ApiCall.market, absR_eq_abs, closingSide]⟩
    · simp only [typeToSide, oppositeSide, if_true, hn', hn, reduceCtorEq, if_false]
      exact ⟨_, rfl, by simp [view, ApiCall.market, absR_eq_abs, closingSide]⟩
    · exact absurd rfl ht
  · have hn' : ¬ isPriceNearD p cur := fun h => hn ((near_iff p cur).mp h)
    have hne : p ≠ cur := by
      intro h; apply hn; rw [h]; exact near_self cur (ne_of_gt hc)
    cases t
    · -- long: closing side sell
      simp only [typeToSide, oppositeSide, if_true, hn', hn, reduceCtorEq, if_false, true_and,
        false_and, or_false, and_false]
      by_cases hgt : p > cur
      · simp only [hgt, if_true]
        exact ⟨_, rfl, by simp [view, ApiCall.limit, absR_eq_abs, closingSide]⟩
      · have hlt : p < cur := lt_of_le_of_ne (not_lt.mp hgt) hne
        simp only [hgt, hlt, if_true, if_false]
        exact ⟨_, rfl, by simp [view, ApiCall.stop, absR_eq_abs, closingSide]⟩
    · -- short: closing side buy
      simp only [typeToSide, oppositeSide, if_true, hn', hn, reduceCtorEq, if_false, true_and,
        false_and, false_or, and_false]
      by_cases hlt : p < cur
      · simp only [hlt, if_true]
        exact ⟨_, rfl, by simp [view, ApiCall.limit, absR_eq_abs, closingSide]⟩
      · have hgt : p > cur := lt_of_le_of_ne (not_lt.mp hlt) (Ne.symm hne)
        simp only [hlt, hgt, if_true, if_false]
        exact ⟨_, rfl, by simp [view, ApiCall.stop, absR_eq_abs, closingSide]⟩
    · exact absurd rfl ht

/-- An exit request without an open position is refused. -/
theorem exit_refused_when_closed (q p cur : Rat) (hq : q ≠ 0) (hp : 0 ≤ p) :
    reducePositionAt q p cur .close = .error .OrderNotAllowed := by
  have hnp : ¬ p < 0 := not_lt.mpr hp
  unfold reducePositionAt
  simp [validateQty, hq, hnp]

/-- A zero quantity is always refused (entry and exit). -/
theorem zero_qty_refused (p cur : Rat) (t : PosType) (hc : 0 < cur) :
    reducePositionAt 0 p cur t = .error .InvalidStrategy ∧
    entryBuy 0 p cur cur = .error .InvalidStrategy ∧ entrySell 0 p cur cur = .error .InvalidStrategy := by
  refine ⟨by simp [reducePositionAt, validateQty], ?_, ?_⟩
  · unfold entryBuy submitBuyDecision
    by_cases hn : isPriceNearD p cur
    · simp [hn, dispatch, buyAtMarket, validateQty]
    · simp only [hn, if_false]
      by_cases h1 : p > cur
      · simp [h1, dispatch, startProfitAt, validateQty]
      · by_cases h2 : p < cur
        · simp [h1, h2, dispatch, buyAt, validateQty]
        · exfalso; apply hn
          have : p = cur := le_antisymm (not_lt.mp h1) (not_lt.mp h2)
          rw [this, near_iff]; exact near_self cur (ne_of_gt hc)
  · unfold entrySell submitSellDecision
    by_cases hn : isPriceNearD p cur
    · simp [hn, dispatch, sellAtMarket, validateQty]
    · simp only [hn, if_false]
      by_cases h1 : p < cur
      · simp [h1, dispatch, startProfitAt, validateQty]
      · by_cases h2 : p > cur
        · simp [h1, h2, dispatch, sellAt, validateQty]
        · exfalso; apply hn
          have : p = cur := le_antisymm (not_lt.mp h2) (not_lt.mp h1)
          rw [this, near_iff]; exact near_self cur (ne_of_gt hc)

/-- non-vacuity: the 0.015 % boundary itself is MARKET, one tick outside is LIMIT -/
example : Near (100 + 15/1000) 100 ∧ ¬ Near (100 + 16/1000) 100 := by decide +kernel
example : (match reducePositionAt 1 (10016/100) 100 .long with
    | .ok a => decide (view a = ⟨.limit, 1, 10016/100, .sell, true⟩) | _ => false) = true := by
  decide +kernel

end C10

/-! ### no stale exit survives a modification (engine model, one reconciliation)

When the strategy layer handles a modified stop-loss / take-profit declaration (`resubmitExits`, the exit part of
`_detect_and_handle_entry_and_exit_modifications`), every exit order that was active and tagged with that kind BEFORE
the call is no longer active after it — whatever the new rows are and however many of them are accepted or rejected. -/
namespace C10
open Jesse Jesse.Eng Jesse.Gen Jesse.Acc FrameLemmas

section reconcile
variable {M : Type} [Inhabited M]

/-- cancelling an order that exists leaves it non-active -/
theorem cancelOrder_not_active (e : Engine M) (id : Nat) (hid : id < e.w.orders.length) :
    (orderOf (cancelOrder e id) id).status ≠ .active := by
  unfold cancelOrder
  split
  · rename_i hact
    show ((Acc.cancel e.w id).orders.getD id default).status ≠ .active
    unfold orderOf at hact
    unfold Acc.cancel
    rw [List.getElem?_eq_getElem hid]
    have hst : (e.w.orders[id]).status = .active := by
      rw [List.getD_eq_getElem?_getD, List.getElem?_eq_getElem hid] at hact; simpa using hact
    have hne : ¬ (e.w.orders[id]).status ≠ .active := by simp [hst]
    simp only [hne, if_false]
    have key : ((Acc.setStatus e.w id .canceled).orders.getD id default).status = .canceled := by
      unfold Acc.setStatus
      simp only []
      have : (Acc.upd e.w.orders id (fun o => { o with status := OrderStatus.canceled })).getD id default
          = { e.w.orders.getD id default with status := OrderStatus.canceled } := by
        clear hact hst hne
        generalize e.w.orders = os at hid
        induction os generalizing id with
        | nil => simp at hid
        | cons x xs ih =>
          cases id with
          | zero => simp [Acc.upd]
          | succ k => simp only [Acc.upd, List.getD_cons_succ]; exact ih k (by simpa using hid)
      rw [this]
    -- the bookkeeping after the status change does not touch the order table
    split
    · split
      · rw [key]; decide
      · split <;> (show ((Acc.setStatus e.w id .canceled).orders.getD id default).status ≠ _; rw [key]; decide)
    · split
      · have := (same_releaseSell (Acc.setStatus e.w id .canceled) e.w.orders[id]).1
        show ((Acc.releaseSell (Acc.setStatus e.w id .canceled) e.w.orders[id]).orders.getD id default).status ≠ _
        rw [this, key]; decide
      · rename_i hb
        first
          | (have := (same_releaseSell (Acc.setStatus e.w id .canceled) e.w.orders[id]).1
             show ((Acc.releaseSell (Acc.setStatus e.w id .canceled) e.w.orders[id]).orders.getD id default).status ≠ _
             rw [this, key]; decide)
          | (show ((Acc.setStatus e.w id .canceled).orders.getD id default).status ≠ _; rw [key]; decide)
  · rename_i hna; exact hna

/-- a non-active existing order stays non-active through any `EExt` step -/
theorem stays_not_active {e e' : Engine M} (h : EExt e e') (id : Nat) (hid : id < e.w.orders.length)
    (hna : (orderOf e id).status ≠ .active) : (orderOf e' id).status ≠ .active :=
  fun ha => hna (h.noRevive id hid ha)

/-- NO STALE EXIT SURVIVES A MODIFICATION -/
theorem resubmit_leaves_no_previous_exit (e : Engine M) (r : Nat) (isStop : Bool) (rows : Rows) (id : Nat)
    (hid : id < e.w.orders.length)
    (hmem : id ∈ activeExitOrders e (routeOf e r).sym)
    (hvia : e.via.getD id none = some (if isStop then Via.stopLoss else Via.takeProfit)) :
    (orderOf (resubmitExits e r isStop rows) id).status ≠ .active := by
  unfold resubmitExits
  dsimp only
  -- phase 1: the cancellation loop
  have phase1 : ∀ (l : List Nat) (e0 : Engine M), e0.via = e.via → e.w.orders.length ≤ e0.w.orders.length →
      (id ∈ l ∨ (orderOf e0 id).status ≠ .active) →
      (orderOf (l.foldl (fun (e : Engine M) id =>
        if (e.via.getD id none) = some (if isStop then Via.stopLoss else Via.takeProfit) ∧ (orderOf e id).status = .active
        then cancelOrder e id else e) e0) id).status ≠ .active := by
    intro l
    induction l with
    | nil =>
      intro e0 _ _ h
      rcases h with h | h
      · cases h
      · exact h
    | cons x xs ih =>
      intro e0 hv hl h
      simp only [List.foldl_cons]
      have hid0 : id < e0.w.orders.length := by omega
      by_cases hc : (e0.via.getD x none) = some (if isStop then Via.stopLoss else Via.takeProfit) ∧ (orderOf e0 x).status = .active
      · simp only [hc, and_self, if_true]
        have hext := cancelOrder_ext e0 x
        have hv' : (cancelOrder e0 x).via = e.via := by
          unfold cancelOrder; split <;> exact hv
        have hl' : e.w.orders.length ≤ (cancelOrder e0 x).w.orders.length := Nat.le_trans hl hext.len
        apply ih _ hv' hl'
        by_cases hx : x = id
        · right; subst hx; exact cancelOrder_not_active e0 x hid0
        · rcases h with h | h
          · rcases List.mem_cons.mp h with h1 | h1
            · exact absurd h1.symm hx
            · exact Or.inl h1
          · exact Or.inr (stays_not_active hext id hid0 h)
      · simp only [hc, if_false]
        apply ih _ hv hl
        rcases h with h | h
        · rcases List.mem_cons.mp h with h1 | h1
          · -- this is `id` itself and the guard is false: its tag is right, so it is not active
            subst h1
            right
            intro ha
            apply hc
            exact ⟨by rw [hv]; exact hvia, ha⟩
          · exact Or.inl h1
        · exact Or.inr h
  have h1 := phase1 (activeExitOrders e (routeOf e r).sym) e rfl (Nat.le_refl _) (Or.inl hmem)
  -- phase 2: the new submissions never revive an order
  have hlen1 : e.w.orders.length ≤ ((activeExitOrders e (routeOf e r).sym).foldl (fun (e : Engine M) id =>
        if (e.via.getD id none) = some (if isStop then Via.stopLoss else Via.takeProfit) ∧ (orderOf e id).status = .active
        then cancelOrder e id else e) e).w.orders.length := by
    have : EExt e ((activeExitOrders e (routeOf e r).sym).foldl (fun (e : Engine M) id =>
        if (e.via.getD id none) = some (if isStop then Via.stopLoss else Via.takeProfit) ∧ (orderOf e id).status = .active
        then cancelOrder e id else e) e) := by
      apply foldl_ext
      intro e' x
      exact ext_ite (cancelOrder_ext _ _) (EExt.refl _)
    exact this.len
  revert h1 hlen1
  generalize ((activeExitOrders e (routeOf e r).sym).foldl (fun (e : Engine M) id =>
        if (e.via.getD id none) = some (if isStop then Via.stopLoss else Via.takeProfit) ∧ (orderOf e id).status = .active
        then cancelOrder e id else e) e) = e1
  intro h1 hlen1
  have h2 : EExt e1 (rows.foldl (fun (e' : Engine M) row =>
      if e'.err.isSome then e' else
      if (posOf e' (routeOf e r).sym).qty = 0 then e' else
      brokerSubmit e' (routeOf e r).sym (Jesse.Gen.reducePositionAt row.1
        (if (if rows.length = 1 then some (priceOf e r) else none) = some row.2 then priceOf e' r else row.2) (priceOf e' r)
        (posTypeOf e' (routeOf e r).sym)) (some (if isStop then Via.stopLoss else Via.takeProfit))) e1) := by
    apply foldl_ext
    intro e' row
    split
    · exact EExt.refl _
    · split
      · exact EExt.refl _
      · exact brokerSubmit_ext _ _ _ _
  exact stays_not_active h2 id (by omega) h1

/-- ONCE THE POSITION IS CLOSED NOTHING STAYS ACTIVE: `_execute_cancel` (run when a position closes and when resting
    entries are given up) leaves no order of the symbol's registry active — whatever the other routes do when the
    event is broadcast to them. -/
theorem execute_cancel_leaves_nothing_active (e : Engine M) (r : Nat) (id : Nat)
    (hid : id < e.w.orders.length) (hmem : id ∈ Acc.getD e.w.active (routeOf e r).sym) :
    (orderOf (executeCancel e r) id).status ≠ .active ∨ (executeCancel e r).err.isSome := by
  unfold executeCancel
  dsimp only
  split
  · right; assumption
  · split
    · right
      unfold fail; split
      · assumption
      · rfl
    · left
      -- the cancellation loop
      have phase1 : ∀ (l : List Nat) (e0 : Engine M), e.w.orders.length ≤ e0.w.orders.length →
          (id ∈ l ∨ (orderOf e0 id).status ≠ .active) →
          (orderOf (l.foldl (fun (e : Engine M) id => cancelOrder e id) e0) id).status ≠ .active := by
        intro l
        induction l with
        | nil =>
          intro e0 _ h
          rcases h with h | h
          · cases h
          · exact h
        | cons x xs ih =>
          intro e0 hl h
          simp only [List.foldl_cons]
          have hid0 : id < e0.w.orders.length := by omega
          have hext := cancelOrder_ext e0 x
          apply ih _ (Nat.le_trans hl hext.len)
          by_cases hx : x = id
          · right; subst hx; exact cancelOrder_not_active e0 x hid0
          · rcases h with h | h
            · rcases List.mem_cons.mp h with h1 | h1
              · exact absurd h1.symm hx
              · exact Or.inl h1
            · exact Or.inr (stays_not_active hext id hid0 h)
      have h1 := phase1 (Acc.getD e.w.active (routeOf e r).sym) e (Nat.le_refl _) (Or.inl hmem)
      have hlen1 : e.w.orders.length ≤ ((Acc.getD e.w.active (routeOf e r).sym).foldl (fun (e : Engine M) id => cancelOrder e id) e).w.orders.length :=
        (foldl_ext _ (fun e' x => cancelOrder_ext e' x) _ e).len
      revert h1 hlen1
      generalize (Acc.getD e.w.active (routeOf e r).sym).foldl (fun (e : Engine M) id => cancelOrder e id) e = e1
      intro h1 hlen1
      -- storage reset, strategy reset, broadcast, log: none revives an order
      have h2 : EExt e1 (logE (broadcast (resetStrategy { e1 with storage := upd e1.storage (routeOf e r).sym (fun _ => []) } r) r)
          (Event.hook r "on_cancel" (stratOf e r).index (priceOf e r) 0 (posOf e (routeOf e r).sym).pnl)) := by
        apply ext_then (fun x => logE x _) (fun x => logE_ext x _)
        apply ext_then (fun x => broadcast x r) (fun x => broadcast_ext x r)
        apply ext_then (fun x => resetStrategy x r) (fun x => resetStrategy_ext x r)
        exact EExt.of_w rfl
      exact stays_not_active h2 id (by omega) h1

end reconcile

end C10
