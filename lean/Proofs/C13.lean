/-
  Proofs/C13.lean — indicator series are causal: row `i` depends only on candles `0..i`.
  `Causal f := ∀ xs ys k, xs.take k = ys.take k → (f xs).take k = (f ys).take k`
  (Proofs/Lemmas/Causal.lean; `Causal.prefix_eq` turns it into "computing on a prefix gives the
  prefix of the full result" for length-preserving kernels).  One theorem per modelled kernel
  (Jesse/Ind/*.lean, tied to the real indicators by the correspondence pass).  For the kernels that
  are NOT causal on the unchanged tree a concrete witness is proved instead (`…_not_causal_witness`,
  by kernel evaluation) and the causal statement is kept in the doc comment.
  PROPERTY THEOREMS ONLY (helpers in Proofs/Lemmas/Causal.lean).
-/
import Proofs.Lemmas.Causal
import Proofs.Lemmas.Witness
import Proofs.Lemmas.MinMax
import Jesse.Ind.MA
import Jesse.Ind.Simple
import Jesse.Ind.Osc
import Jesse.Ind.Dir
import Jesse.Ind.Off

namespace C13
open Jesse Jesse.Ind

/-- every kernel that works on a source series is causal as a function of the candles, for each of
    the eight source types, as soon as it is causal on the source series -/
theorem causal_any_source {K : List Rat → Ser} (hK : Causal K) (s : Source) :
    Causal (fun cs : List Candle => K (source s cs)) := causal_on_source hK s

/-- the C13 statement itself for a causal, length-preserving kernel:
    `ind(c[:k]) = ind(c)[:k]` for every `k` -/
theorem prefix_of_causal {α} {K : List α → Ser} (hc : Causal K) (hl : LenPres K) (cs : List α) (k : Nat) :
    K (cs.take k) = (K cs).take k := hc.prefix_eq hl cs k

/-! ### moving averages -/

theorem causal_sma (p : Nat) : Causal (sma p) := causal_trailing _ _
theorem causal_ema (p : Nat) : Causal (ema p) := causal_scanState _ _
theorem causal_wma (p : Nat) : Causal (wma p) := causal_trailing _ _
theorem causal_smma (p : Nat) : Causal (smma p) := causal_pmap _
theorem causal_wilders (p : Nat) : Causal (wilders p) := causal_scanState _ _
theorem causal_trima (p : Nat) : Causal (trima p) := causal_trailing _ _

theorem causal_dema (p : Nat) : Causal (dema p) :=
  causal_comp (g := List.map some)
    (causal_zipWith _ (causal_scanState _ _)
      (causal_comp (g := ema0 (alphaOf p)) (causal_scanState _ _) (causal_scanState _ _)))
    (causal_map _)

theorem causal_tema (p : Nat) : Causal (tema p) :=
  causal_comp (g := List.map some)
    (causal_zipWith _
      (causal_zipWith _ (causal_scanState _ _)
        (causal_comp (g := ema0 (alphaOf p)) (causal_scanState _ _) (causal_scanState _ _)))
      (causal_comp (g := ema0 (alphaOf p))
        (causal_comp (g := ema0 (alphaOf p)) (causal_scanState _ _) (causal_scanState _ _))
        (causal_scanState _ _)))
    (causal_map _)

/-- `rma` is NOT causal on the unchanged tree.  Intended statement: `∀ p, Causal (rma p)`.
    `rma_fast` reads `newseries[i-1]` at `i = 0`, which is the LAST input value (negative index
    wrap-around), so every row depends on the length of the input.  Witness: two inputs that agree
    on their first two values give different first two rows. -/
theorem rma_not_causal_witness :
    ([1, 2, 3] : List Rat).take 2 = ([1, 2, 4] : List Rat).take 2
      ∧ (rma 14 [1, 2, 3]).take 2 ≠ (rma 14 [1, 2, 4]).take 2 := by decide +kernel

/-- hence the causal statement fails for `rma` -/
theorem rma_not_causal : ¬ Causal (rma 14) := fun h =>
  rma_not_causal_witness.2 (h _ _ 2 rma_not_causal_witness.1)

/-- apart from its seed `rma` is a left-to-right recurrence: with the seed held fixed it is causal
    (this is the part of the intended statement that does hold) -/
theorem rma_causal_given_seed (p : Nat) (seed : Rat) : Causal (scanState (rmaStep p) seed) :=
  causal_scanState _ _

/-! ### rate of change, momentum, on-balance volume -/

theorem causal_roc (p : Nat) : Causal (roc p) := causal_pmap _
theorem causal_mom (p : Nat) : Causal (mom p) := causal_pmap _
theorem causal_obv : Causal obv := causal_scanState _ _

/-! ### price transforms -/

theorem causal_avgprice : Causal avgprice := causal_map _
theorem causal_medprice : Causal medprice := causal_map _
theorem causal_typprice : Causal typprice := causal_map _
theorem causal_wclprice : Causal wclprice := causal_map _

/-! ### channels, Williams %R, true range, ATR -/

theorem causal_donchian_upper (p : Nat) : Causal (donchianUpper p) := causal_trailing _ _
theorem causal_donchian_middle (p : Nat) : Causal (donchianMiddle p) := causal_trailing _ _
theorem causal_donchian_lower (p : Nat) : Causal (donchianLower p) := causal_trailing _ _
theorem causal_willr (p : Nat) : Causal (willr p) := causal_trailing _ _

theorem causal_trange : Causal trange :=
  causal_comp (g := List.map some) (causal_scanState _ _) (causal_map _)

theorem causal_atr (p : Nat) : Causal (atr p) :=
  causal_comp (f := trR) (g := seeded p (wilderUpd p)) (causal_scanState _ _) (causal_scanState _ _)

/-! ### oscillators -/

theorem causal_rsi (p : Nat) : Causal (rsi p) := causal_scanState _ _

theorem causal_macd_line (f s : Nat) : Causal (macdLine f s) :=
  causal_zipWith _ (causal_scanState _ _) (causal_scanState _ _)

theorem causal_macd_signal (f s g : Nat) : Causal (macdSignal f s g) :=
  causal_comp (f := macdLine f s) (g := ema0 (alphaOf g)) (causal_macd_line f s) (causal_scanState _ _)

theorem causal_macd_hist (f s g : Nat) : Causal (macdHist f s g) :=
  causal_zipWith _ (causal_macd_line f s) (causal_macd_signal f s g)

theorem causal_stoch_k (fk sk : Nat) : Causal (stochK fk sk) :=
  causal_comp (f := stochRaw fk) (g := smaO sk) (causal_trailing _ _) (causal_trailing _ _)

theorem causal_stoch_d (fk sk sd : Nat) : Causal (stochD fk sk sd) :=
  causal_comp (f := stochK fk sk) (g := smaO sd) (causal_stoch_k fk sk) (causal_trailing _ _)

theorem causal_stochf_k (p : Nat) : Causal (stochfK p) := causal_pmap _

theorem causal_stochf_d (p fd : Nat) : Causal (stochfD p fd) :=
  causal_comp (f := stochfK p) (g := smaO fd) (causal_pmap _) (causal_trailing _ _)

theorem causal_cci (p : Nat) : Causal (cci p) :=
  causal_comp (f := List.map tpOf) (g := trailing p (cciWin p)) (causal_map _) (causal_trailing _ _)

theorem causal_mfi (p : Nat) : Causal (mfi p) :=
  causal_comp (f := mfiFlows) (causal_pmap _) (causal_trailing _ _)

/-! ### dispersion and bands (for EVERY function used as `sqrt`) -/

theorem causal_stddev (sqrt : Rat → Rat) (p : Nat) (nb : Rat) : Causal (stddev sqrt p nb) := causal_trailing _ _
theorem causal_var (p : Nat) (nb : Rat) : Causal (var p nb) := causal_trailing _ _

theorem causal_bollinger_middle (p : Nat) : Causal (bbMiddle p) := causal_sma p

theorem causal_bollinger_upper (sqrt : Rat → Rat) (p : Nat) (du : Rat) : Causal (bbUpper sqrt p du) :=
  causal_zipWith _ (causal_sma p)
    (causal_comp (f := bbDev sqrt p) (g := List.map (oscale du)) (causal_trailing _ _) (causal_map _))

theorem causal_bollinger_lower (sqrt : Rat → Rat) (p : Nat) (dd : Rat) : Causal (bbLower sqrt p dd) :=
  causal_zipWith _ (causal_sma p)
    (causal_comp (f := bbDev sqrt p) (g := List.map (oscale dd)) (causal_trailing _ _) (causal_map _))

theorem causal_keltner_middle (p : Nat) (s : Source) : Causal (keltnerMiddle p s) :=
  causal_on_source (causal_ema p) s

theorem causal_keltner_upper (p : Nat) (m : Rat) (s : Source) : Causal (keltnerUpper p m s) :=
  causal_zipWith _ (causal_on_source (causal_ema p) s)
    (causal_comp (f := atr p) (g := List.map (oscale m)) (causal_atr p) (causal_map _))

theorem causal_keltner_lower (p : Nat) (m : Rat) (s : Source) : Causal (keltnerLower p m s) :=
  causal_zipWith _ (causal_on_source (causal_ema p) s)
    (causal_comp (f := atr p) (g := List.map (oscale m)) (causal_atr p) (causal_map _))

/-! ### directional movement -/

theorem causal_dm_plus (p : Nat) : Causal (dmPlus p) :=
  causal_comp (f := dmPairs p) (g := List.map (Option.map (·.1))) (causal_scanState _ _) (causal_map _)
theorem causal_dm_minus (p : Nat) : Causal (dmMinus p) :=
  causal_comp (f := dmPairs p) (g := List.map (Option.map (·.2))) (causal_scanState _ _) (causal_map _)
theorem causal_di_plus (p : Nat) : Causal (diPlus p) :=
  causal_comp (f := diPairs p) (g := List.map (Option.map (·.1))) (causal_scanState _ _) (causal_map _)
theorem causal_di_minus (p : Nat) : Causal (diMinus p) :=
  causal_comp (f := diPairs p) (g := List.map (Option.map (·.2))) (causal_scanState _ _) (causal_map _)
theorem causal_adx (p : Nat) : Causal (adx p) := causal_scanState _ _

/-! ### the kernels that are NOT causal on the unchanged tree: concrete witnesses
    (two candle series with a common prefix whose outputs differ inside the prefix) -/

/-- `dx` is NOT causal.  Intended statement: `Causal (dxPlusDI dl)`, `Causal (dxMinusDI dl)`,
    `Causal (dxAdx dl sm)`.  It smooths with `rma`, whose seed is the last row (see `rma_not_causal_witness`). -/
theorem dx_not_causal_witness :
    wA.take 3 = wB.take 3
      ∧ (dxPlusDI 14 wA).take 3 ≠ (dxPlusDI 14 wB).take 3
      ∧ (dxMinusDI 14 wA).take 3 ≠ (dxMinusDI 14 wB).take 3
      ∧ (dxAdx 14 14 wA).take 3 ≠ (dxAdx 14 14 wB).take 3 := by decide +kernel

/-- `lrsi` is NOT causal.  Intended statement: `∀ al, Causal (lrsi al)`.  The four Laguerre stages are
    seeded at row 0 from `l·[-1]`, the LAST price (negative index wrap-around). -/
theorem lrsi_not_causal_witness :
    wA.take 3 = wB.take 3 ∧ (lrsi (1 / 5) wA).take 3 ≠ (lrsi (1 / 5) wB).take 3 := by decide +kernel

/-- `er` is NOT causal.  Intended statement: `∀ p, Causal (er p)`.  Every row is divided by ONE sum over
    all windows of the whole series. -/
theorem er_not_causal_witness :
    ([1, 2, 4, 3] : List Rat).take 3 = ([1, 2, 4, 3, 7] : List Rat).take 3
      ∧ (er 2 [1, 2, 4, 3]).take 3 ≠ (er 2 [1, 2, 4, 3, 7]).take 3 := by decide +kernel

/-- `mab` upper/lower bands are NOT causal (for the driver's square root; the two sides differ already in
    which rows are NaN, which no choice of `sqrt` repairs).  Intended statement:
    `Causal (mabUpper sqrt fp sp du)`.  One deviation from the LAST `fast_period` rows is applied to every row.
    The middle band is causal (`causal_mab_middle`). -/
theorem mab_not_causal_witness :
    ([1, 2, 4] : List Rat).take 3 = ([1, 2, 4, 8] : List Rat).take 3
      ∧ (mabUpper sqrtNewton 2 3 1 [1, 2, 4]).take 3 ≠ (mabUpper sqrtNewton 2 3 1 [1, 2, 4, 8]).take 3
      ∧ (mabLower sqrtNewton 2 3 1 [1, 2, 4]).take 3 ≠ (mabLower sqrtNewton 2 3 1 [1, 2, 4, 8]).take 3 := by
  decide +kernel

theorem causal_mab_middle (fp : Nat) : Causal (mabMiddle fp) := causal_sma fp

/-- `emd` is NOT causal (filter constants 1/2, 1/2).  Intended statement: `Causal (emdMiddle p a b)` etc.
    `bp_fast` reads `price[i-2]` at `i < 2` (the last two prices), `peak_valley_fast` reads `peak[i-1]` at
    `i = 0` (the last band-pass value). -/
theorem emd_not_causal_witness :
    wA.take 3 = wB.take 3
      ∧ (emdBp (1 / 2) (1 / 2) (hl2 wA)).take 3 ≠ (emdBp (1 / 2) (1 / 2) (hl2 wB)).take 3
      ∧ (emdMiddle 1 (1 / 2) (1 / 2) wA).take 3 ≠ (emdMiddle 1 (1 / 2) (1 / 2) wB).take 3
      ∧ (emdPeak true (emdBp (1 / 2) (1 / 2) (hl2 wA))).take 3 ≠ (emdPeak true (emdBp (1 / 2) (1 / 2) (hl2 wB))).take 3 := by
  decide +kernel

/-! ### the extrema detector: causal up to its documented `order` confirming candles -/

/-- `minmax`: the series computed on the prefix `c[:k]` equals the series computed on the full input in
    every row except the last `order` rows of the prefix — for the flags (is_min, is_max) and for the
    forward-filled last extrema (last_min, last_max).  (The exemption of C13.) -/
theorem minmax_causal_up_to_order (o : Nat) (cs : List Candle) (k : Nat) :
    (minmaxIsMin o (cs.take k)).take (k - o) = (minmaxIsMin o cs).take (k - o)
    ∧ (minmaxIsMax o (cs.take k)).take (k - o) = (minmaxIsMax o cs).take (k - o)
    ∧ (minmaxLastMin o (cs.take k)).take (k - o) = (minmaxLastMin o cs).take (k - o)
    ∧ (minmaxLastMax o (cs.take k)).take (k - o) = (minmaxLastMax o cs).take (k - o) := by
  have h1 : (minmaxIsMin o (cs.take k)).take (k - o) = (minmaxIsMin o cs).take (k - o) := by
    unfold minmaxIsMin; rw [List.map_take]; exact extrema_take true o _ k
  have h2 : (minmaxIsMax o (cs.take k)).take (k - o) = (minmaxIsMax o cs).take (k - o) := by
    unfold minmaxIsMax; rw [List.map_take]; exact extrema_take false o _ k
  refine ⟨h1, h2, ?_, ?_⟩
  · unfold minmaxLastMin; rw [ffill_take, ffill_take, h1]
  · unfold minmaxLastMax; rw [ffill_take, ffill_take, h2]

/-- the exemption is needed: a flag inside the last `order` rows of a prefix can be revoked by later candles -/
theorem minmax_tail_not_causal_witness :
    (minmaxIsMin 1 (wB.take 3)).take 3 ≠ (minmaxIsMin 1 wB).take 3
      ∨ (minmaxIsMax 1 (wB.take 3)).take 3 ≠ (minmaxIsMax 1 wB).take 3 := by decide +kernel

end C13
