/-
  Proofs/C05.lean — order lifecycle: one terminal transition, idempotent execute/cancel, the active
  registry, every executed order in exactly one trade.  Statements over the accounts model
  (Jesse/Accounts.lean, tied to the real classes by correspondence) and, at the end, over whole runs of the engine
  model (Jesse/Engine.lean) for every strategy.  PROPERTY THEOREMS ONLY.
-/
import Jesse.Accounts
import Proofs.C04
import Proofs.C03
import Proofs.C02
import Proofs.Lemmas.FrameRun

namespace C05
open Jesse Jesse.Acc

/-- the status order: active may become executed or canceled; final statuses never change -/
def Step (a b : OrderStatus) : Prop := a = b ∨ (a = .active ∧ b ≠ .active)

theorem upd_get {α} (l : List α) (i j : Nat) (f : α → α) :
    (upd l i f)[j]? = if i = j then (l[j]?).map f else l[j]? := by
  induction l generalizing i j with
  | nil => simp [upd]
  | cons x xs ih =>
    cases i with
    | zero =>
      cases j with
      | zero => simp [upd]
      | succ k => simp [upd]
    | succ i' =>
      cases j with
      | zero => simp [upd]
      | succ k => simp only [upd, List.getElem?_cons_succ, ih]; simp

/-- EXECUTING AN ORDER THAT IS ALREADY FINAL HAS NO EFFECT on anything: balances, positions, margin
    tables, registries, trade records (the whole model state is unchanged) — spot and futures. -/
theorem execute_final_noop (w : World) (id : Nat) (o : Order) (h : w.orders[id]? = some o)
    (hf : o.status ≠ .active) : execute w id = w := by
  simp [execute, h, hf]

theorem cancel_final_noop (w : World) (id : Nat) (o : Order) (h : w.orders[id]? = some o)
    (hf : o.status ≠ .active) : cancel w id = w := by
  simp [cancel, h, hf]

/-- an unknown id is ignored as well -/
theorem execute_unknown_noop (w : World) (id : Nat) (h : w.orders[id]? = none) :
    execute w id = w ∧ cancel w id = w := by
  simp [execute, cancel, h]

/-- orders of `execute`: only the status of the executed order changes, and only from active -/
theorem execute_orders (w : World) (id : Nat) :
    (execute w id).orders = w.orders ∨
    (∃ o, w.orders[id]? = some o ∧ o.status = .active ∧
      (execute w id).orders = upd w.orders id (fun o => { o with status := .executed })) := by
  unfold execute
  cases h : w.orders[id]? with
  | none => left; rfl
  | some o =>
    simp only []
    by_cases ha : o.status = .active
    · right
      refine ⟨o, rfl, ha, ?_⟩
      simp only [ha, ne_eq, not_true_eq_false, if_false]
      rw [(C04.frame_onExecuted _ _).1]
      -- exchange step and trade record do not touch `orders`
      have e1 : ∀ w' : World, (exchangeOnExecution w' o).orders = w'.orders := by
        intro w'
        unfold exchangeOnExecution
        cases w'.kind
        · simp only []; split
          · rfl
          · split <;> rfl
        · simp only []
          have := (C04.releaseSell_sums w' o)
          split
          · show (releaseSell w' o).orders = _
            unfold releaseSell; split
            · split
              · rfl
              · split <;> rfl
            · rfl
          · show (releaseSell w' o).orders = _
            unfold releaseSell; split
            · split
              · rfl
              · split <;> rfl
            · rfl
      rw [e1]
      rfl
    · left; simp [ha]

theorem cancel_orders (w : World) (id : Nat) :
    (cancel w id).orders = w.orders ∨
    (∃ o, w.orders[id]? = some o ∧ o.status = .active ∧
      (cancel w id).orders = upd w.orders id (fun o => { o with status := .canceled })) := by
  unfold cancel
  cases h : w.orders[id]? with
  | none => left; rfl
  | some o =>
    simp only []
    by_cases ha : o.status = .active
    · right
      refine ⟨o, rfl, ha, ?_⟩
      simp only [ha, ne_eq, not_true_eq_false, if_false]
      have r : ∀ w' : World, (releaseSell w' o).orders = w'.orders := by
        intro w'; unfold releaseSell; split
        · split
          · rfl
          · split <;> rfl
        · rfl
      cases w.kind
      · simp only []
        split
        · rfl
        · split <;> rfl
      · simp only []
        split
        · show (releaseSell _ o).orders = _; rw [r]; rfl
        · rw [r]; rfl
    · left; simp [ha]

/-- STATUS MONOTONE: one `execute` or `cancel` call moves every order's status along
    active → executed | canceled at most once and never back. -/
theorem status_step_execute (w : World) (id j : Nat) (o o' : Order)
    (h : w.orders[j]? = some o) (h' : (execute w id).orders[j]? = some o') : Step o.status o'.status := by
  rcases execute_orders w id with e | ⟨x, hx, hax, e⟩
  · rw [e, h] at h'; injection h' with h'; left; rw [h']
  · rw [e, upd_get] at h'
    by_cases hij : id = j
    · subst hij
      rw [hx] at h; injection h with h; subst h
      simp only [if_true, hx, Option.map_some, Option.some.injEq] at h'
      right; rw [← h']; exact ⟨hax, by simp⟩
    · simp only [hij, if_false] at h'
      rw [h] at h'; injection h' with h'; left; rw [h']

theorem status_step_cancel (w : World) (id j : Nat) (o o' : Order)
    (h : w.orders[j]? = some o) (h' : (cancel w id).orders[j]? = some o') : Step o.status o'.status := by
  rcases cancel_orders w id with e | ⟨x, hx, hax, e⟩
  · rw [e, h] at h'; injection h' with h'; left; rw [h']
  · rw [e, upd_get] at h'
    by_cases hij : id = j
    · subst hij
      rw [hx] at h; injection h with h; subst h
      simp only [if_true, hx, Option.map_some, Option.some.injEq] at h'
      right; rw [← h']; exact ⟨hax, by simp⟩
    · simp only [hij, if_false] at h'
      rw [h] at h'; injection h' with h'; left; rw [h']

/-- `Step` is transitive: over any history of calls a status takes at most one terminal transition -/
theorem Step.trans {a b c : OrderStatus} (h1 : Step a b) (h2 : Step b c) : Step a c := by
  rcases h1 with h1 | ⟨h1, h1'⟩
  · subst h1; exact h2
  · rcases h2 with h2 | ⟨h2, _⟩
    · subst h2; exact Or.inr ⟨h1, h1'⟩
    · exact absurd h2 h1'

/-- ACTIVE REGISTRY: after `update_active_orders` the ids reported as active for a symbol are exactly
    the previously listed ids whose order is not final. -/
theorem active_registry (w : World) (sym : Nat) (hs : sym < w.active.length) (id : Nat) :
    id ∈ getD (updateActive w sym).active sym ↔
      (id ∈ getD w.active sym ∧ ∃ o, w.orders[id]? = some o ∧ o.status = .active) := by
  unfold updateActive
  simp only []
  rw [C03.getD_upd_same _ _ _ hs, List.mem_filter]
  constructor
  · rintro ⟨h1, h2⟩
    refine ⟨h1, ?_⟩
    cases ho : w.orders[id]? with
    | none => simp [ho] at h2
    | some o => simp only [ho, decide_eq_true_eq] at h2; exact ⟨o, rfl, h2⟩
  · rintro ⟨h1, o, ho, ha⟩
    exact ⟨h1, by simp [ho, ha]⟩

/-- EXECUTED ONCE IN ONE TRADE (step): executing an active order appends its id exactly once to the
    trade under construction of its symbol; executing it again appends nothing (`execute_final_noop`). -/
theorem executed_recorded_once (w : World) (o : Order) (hs : o.sym < w.temp.length) :
    (getD (addExecutedOrder w o).temp o.sym).orders = (getD w.temp o.sym).orders ++ [o.id] := by
  unfold addExecutedOrder
  simp only []
  rw [C03.getD_upd_same _ _ _ hs]
  split <;> rfl

/-! ### engine level: whole backtest runs, every strategy

The frame relation `FrameLemmas.EExt e e'` (Proofs/Lemmas/Frame.lean) says of every order that exists in `e`:
its symbol and price are the same in `e'`, a final status is unchanged in `e'`, a non-active order is not active
in `e'`, and it is in a registry of `e'` only if it was in that registry in `e`.  Proofs/Lemmas/FrameRun.lean
proves it for every function of the engine model: one strategy step, one matched minute, one fast-mode chunk,
the liquidation check, the end of the session and both simulators, FOR EVERY `UserStrategy` (arbitrary hooks),
every candle input, every fuel, from every engine state.  -/

section engine
open Jesse.Eng FrameLemmas

variable {M : Type} [Inhabited M] (u : UserStrategy M)

/-! ### every active order is listed in its symbol's registry (operation level, any history)

`active_registry` describes one clean-up of the registry.  The converse direction — the registry never LOSES an order
that is still active — is an invariant of every operation of the accounts model: a submission registers the new
order, executions and cancellations leave the registries alone and only move statuses away from ACTIVE, and the
clean-up drops only orders that are no longer active.  (It is the hypothesis "the registry lists every active order"
of C02's composition theorem, here for every history of account operations.) -/

/-- every ACTIVE order is in the registry of its symbol (and every order's symbol has a registry) -/
def ActiveIn (w : World) : Prop :=
  ∀ id, id < w.orders.length →
    (w.orders.getD id default).sym < w.active.length ∧
    ((w.orders.getD id default).status = .active → id ∈ getD w.active (w.orders.getD id default).sym)

theorem activeIn_init (kind : Kind) (b f l : Rat) (n : Nat) : ActiveIn (init kind b f l n) := by
  intro id hid; simp [init] at hid

theorem execute_active (w : World) (id : Nat) : (execute w id).active = w.active := by
  unfold execute
  split
  · rfl
  · split
    · rfl
    · unfold onExecuted
      rw [(FrameLemmas.same_onExecutedCore _ _).2, (FrameLemmas.same_chargeFee _ _).2,
        (FrameLemmas.same_exchangeOnExecution _ _).2, (FrameLemmas.same_addExecutedOrder _ _).2]
      rfl

theorem cancel_active (w : World) (id : Nat) : (cancel w id).active = w.active := by
  unfold cancel
  split
  · rfl
  · split
    · rfl
    · dsimp only
      split
      · split
        · rfl
        · split <;> rfl
      · split
        · show (releaseSell _ _).active = _
          rw [(FrameLemmas.same_releaseSell _ _).2]; rfl
        · rw [(FrameLemmas.same_releaseSell _ _).2]; rfl

/-- an operation that leaves the registries alone and is a frame for the orders (`WExt`: same symbols, no order
    becomes active again, no new order) keeps the invariant -/
theorem activeIn_of_ext (w w' : World) (h : ActiveIn w) (hext : FrameLemmas.WExt w w') (hlen : w'.orders.length = w.orders.length)
    (hact : w'.active = w.active) : ActiveIn w' := by
  intro id hid
  rw [hlen] at hid
  obtain ⟨h1, h2⟩ := h id hid
  have hs := (hext.same id hid).2
  rw [hs, hact]
  exact ⟨h1, fun ha => h2 (hext.noRevive id hid ha)⟩

theorem execute_len (w : World) (id : Nat) : (execute w id).orders.length = w.orders.length := by
  rcases execute_orders w id with h | ⟨_, _, _, h⟩
  · rw [h]
  · rw [h]; exact (FrameLemmas.getD_upd_status w.orders id 0 .executed).2.2.1

theorem cancel_len (w : World) (id : Nat) : (cancel w id).orders.length = w.orders.length := by
  rcases cancel_orders w id with h | ⟨_, _, _, h⟩
  · rw [h]
  · rw [h]; exact (FrameLemmas.getD_upd_status w.orders id 0 .canceled).2.2.1

theorem activeIn_execute (w : World) (id : Nat) (h : ActiveIn w) : ActiveIn (execute w id) :=
  activeIn_of_ext w _ h (FrameLemmas.execute_ext w id) (execute_len w id) (execute_active w id)

theorem activeIn_cancel (w : World) (id : Nat) (h : ActiveIn w) : ActiveIn (cancel w id) :=
  activeIn_of_ext w _ h (FrameLemmas.cancel_ext w id) (cancel_len w id) (cancel_active w id)

/-- the registry clean-up drops only orders that are not active -/
theorem activeIn_updateActive (w : World) (sym : Nat) (h : ActiveIn w) : ActiveIn (updateActive w sym) := by
  intro id hid
  have hid' : id < w.orders.length := hid
  obtain ⟨h1, h2⟩ := h id hid'
  have hl : (updateActive w sym).active.length = w.active.length := by
    unfold updateActive; exact C03.upd_len _ _ _
  refine ⟨by rw [hl]; exact h1, ?_⟩
  intro ha
  have ha' : (w.orders.getD id default).status = .active := ha
  have hin := h2 ha'
  show id ∈ getD (updateActive w sym).active (w.orders.getD id default).sym
  by_cases hs : sym = (w.orders.getD id default).sym
  · subst hs
    have hreg := (active_registry w _ h1 id).mpr ⟨hin, w.orders.getD id default, by
      rw [List.getD_eq_getElem?_getD, List.getElem?_eq_getElem hid']; rfl, ha'⟩
    exact hreg
  · unfold updateActive
    rw [C03.getD_upd_other _ _ _ _ hs]; exact hin

theorem submit_new_order {w w' : World} {sym : Nat} {side : Side} {type : OrderType} {q p : Rat} {ro : Bool}
    (h : submit w sym side type q p ro = .ok w') :
    (w'.orders.getD w.orders.length default).sym = sym ∧ (w'.orders.getD w.orders.length default).status = .active := by
  unfold submit at h
  dsimp only at h
  repeat' (split at h)
  all_goals (cases h)
  all_goals (first | (simp; done) | (split <;> simp; done) | (split <;> (try split) <;> (try split) <;> simp; done))

/-- a successful submission for a symbol that has a registry keeps the invariant: the new order is registered -/
theorem activeIn_submit {w w' : World} {sym : Nat} {side : Side} {type : OrderType} {q p : Rat} {ro : Bool}
    (h : ActiveIn w) (hs : sym < w.active.length) (hok : submit w sym side type q p ro = .ok w') : ActiveIn w' := by
  obtain ⟨htake, hlen, hact⟩ := FrameLemmas.submit_ok_fields hok
  obtain ⟨hnsym, hnst⟩ := submit_new_order hok
  have hal : w'.active.length = w.active.length := by rw [hact]; exact C03.upd_len _ _ _
  intro id hid
  rw [hlen] at hid
  by_cases hold : id < w.orders.length
  · have hsame : w'.orders.getD id default = w.orders.getD id default := by
      rw [List.getD_eq_getElem?_getD, List.getD_eq_getElem?_getD, ← htake, List.getElem?_take, if_pos hold]
    obtain ⟨h1, h2⟩ := h id hold
    rw [hsame, hal]
    refine ⟨h1, fun ha => ?_⟩
    have hin := h2 ha
    rw [hact]
    by_cases hss : sym = (w.orders.getD id default).sym
    · rw [← hss, C03.getD_upd_same _ _ _ hs]
      rw [← hss] at hin
      exact List.mem_append_left _ hin
    · rw [C03.getD_upd_other _ _ _ _ hss]; exact hin
  · have hid' : id = w.orders.length := by omega
    subst hid'
    rw [hnsym, hal]
    refine ⟨hs, fun _ => ?_⟩
    rw [hact, C03.getD_upd_same _ _ _ hs]
    exact List.mem_append_right _ (List.mem_singleton.mpr rfl)

/-- a rejected submission changes neither orders nor registries -/
theorem activeIn_submit_rejected {w w' : World} {k : Err} {sym : Nat} {side : Side} {type : OrderType} {q p : Rat} {ro : Bool}
    (h : ActiveIn w) (herr : submit w sym side type q p ro = .error (k, w')) : ActiveIn w' := by
  obtain ⟨ho, ha⟩ := FrameLemmas.submit_err_fields herr
  intro id hid
  rw [ho] at hid ⊢
  rw [ha]
  exact h id hid

/-- the engine's registry RESET (after `_execute_cancel`, when a position closes or resting entries are given up): if no
    order listed for the symbol is still active — which is what `C10.execute_cancel_leaves_nothing_active` proves of the
    state the reset is applied to — emptying the symbol's registry keeps the invariant -/
theorem activeIn_reset (w : World) (sym : Nat) (h : ActiveIn w)
    (hnone : ∀ id ∈ getD w.active sym, (w.orders.getD id default).status ≠ .active) :
    ActiveIn { w with active := upd w.active sym (fun _ => []) } := by
  intro id hid
  obtain ⟨h1, h2⟩ := h id hid
  refine ⟨by show _ < (upd w.active sym _).length; rw [C03.upd_len]; exact h1, ?_⟩
  intro ha
  show id ∈ getD (upd w.active sym (fun _ => [])) (w.orders.getD id default).sym
  by_cases hs : sym = (w.orders.getD id default).sym
  · have hin := h2 ha
    rw [← hs] at hin
    exact absurd ha (hnone id hin)
  · rw [C03.getD_upd_other _ _ _ _ hs]; exact h2 ha

/-! the three gateways through which the strategy layer of the engine changes orders and registries -/

theorem fail_w (e : Engine M) (k : Err) : (fail e k).w = e.w := by unfold fail; split <;> rfl

/-- `createOrder` (every order the broker, the exit handling or a liquidation submits) keeps the invariant -/
theorem activeIn_createOrder (e : Engine M) (sym : Nat) (a : Jesse.Gen.ApiCall) (via : Option Via)
    (h : ActiveIn e.w) (hs : sym < e.w.active.length) : ActiveIn (createOrder e sym a via).w := by
  unfold createOrder
  split
  · exact h
  · cases hsub : Acc.submit e.w sym a.side a.type a.qty a.price (decide a.reduceOnly) with
    | error kw =>
      obtain ⟨k, w'⟩ := kw
      simp only
      rw [fail_w]
      exact activeIn_submit_rejected h hsub
    | ok w' =>
      simp only
      exact activeIn_submit h hs hsub

/-- `cancelOrder` keeps the invariant -/
theorem activeIn_cancelOrder (e : Engine M) (id : Nat) (h : ActiveIn e.w) : ActiveIn (cancelOrder e id).w := by
  unfold cancelOrder
  split
  · exact activeIn_cancel e.w id h
  · exact h

/-- `resetStrategy` (the registry reset) keeps the invariant when nothing listed for the symbol is active any more -/
theorem activeIn_resetStrategy (e : Engine M) (r : Nat) (h : ActiveIn e.w)
    (hnone : ∀ id ∈ getD e.w.active (routeOf e r).sym, (e.w.orders.getD id default).status ≠ .active) :
    ActiveIn (resetStrategy e r).w :=
  activeIn_reset e.w (routeOf e r).sym h hnone

/-- C02's composition without its registry hypothesis: in a state that satisfies the invariant, "active" alone is
    enough — no order of the symbol that was resting before the minute is left ACTIVE with its price inside the
    minute's range, registered or not (normal simulator, every strategy) -/
theorem active_order_never_left_in_range (fuel : Nat) (e : Engine M) (sym : Nat) (real : Candle) (hv : real.Valid) :
    let r := matchLoop u fuel e sym real (ComposeLemmas.sel sym e real) (ComposeLemmas.sel sym) false
    r.1.err = none → ActiveIn r.1.w →
      ∀ id, id < e.w.orders.length → (orderOf r.1 id).status = .active → (orderOf r.1 id).sym = sym →
        ¬ Jesse.Gen.candleIncludesPrice real (orderOf e id).price := by
  intro r herr hin id hid hact hsym
  have hext := (ComposeLemmas.loop_keeps u e sym real fuel e real hv (FrameLemmas.EExt.refl e) (fun _ _ _ _ h => h) herr).1
  have hlen : id < r.1.w.orders.length := Nat.lt_of_lt_of_le hid hext.len
  have hreg := (hin id hlen).2 hact
  have hsym' : (r.1.w.orders.getD id default).sym = sym := hsym
  rw [hsym'] at hreg
  exact C02.resting_order_never_left_in_range u fuel e sym real hv herr id hid hact hreg

/-- the account operations of a session -/
inductive AOp where
  | submit (sym : Nat) (side : Side) (type : OrderType) (q p : Rat) (ro : Bool)
  | execute (id : Nat)
  | cancel (id : Nat)
  | cleanUp (sym : Nat)

def applyOp (w : World) : AOp → World
  | .submit sym side type q p ro =>
    if sym < w.active.length then
      (match Acc.submit w sym side type q p ro with | .ok w' => w' | .error (_, w') => w')
    else w
  | .execute id => Acc.execute w id
  | .cancel id => Acc.cancel w id
  | .cleanUp sym => updateActive w sym

theorem activeIn_applyOp (w : World) (op : AOp) (h : ActiveIn w) : ActiveIn (applyOp w op) := by
  cases op with
  | submit sym side type q p ro =>
    simp only [applyOp]
    by_cases hs : sym < w.active.length
    · rw [if_pos hs]
      cases hsub : Acc.submit w sym side type q p ro with
      | ok w' => exact activeIn_submit h hs hsub
      | error kw => obtain ⟨k, w'⟩ := kw; exact activeIn_submit_rejected h hsub
    · rw [if_neg hs]; exact h
  | execute id => exact activeIn_execute w id h
  | cancel id => exact activeIn_cancel w id h
  | cleanUp sym => exact activeIn_updateActive w sym h

/-- EVERY HISTORY: after any sequence of submissions (accepted or rejected), executions, cancellations (of any ids,
    known, unknown or already final) and registry clean-ups, every active order is listed in its symbol's registry -/
theorem activeIn_history (kind : Kind) (b f l : Rat) (n : Nat) (ops : List AOp) :
    ActiveIn (ops.foldl applyOp (init kind b f l n)) := by
  suffices ∀ w, ActiveIn w → ActiveIn (ops.foldl applyOp w) from this _ (activeIn_init kind b f l n)
  induction ops with
  | nil => intro w h; exact h
  | cons op ops ih => intro w h; exact ih _ (activeIn_applyOp w op h)

/-- non-vacuity: two symbols; submit on both, execute one, clean up — the other is still listed -/
def demoHistory : World := List.foldl applyOp (init .futures 1000 0 1 2)
  [AOp.submit 0 .buy .limit 1 10 false, .submit 1 .sell .limit 1 12 false, .execute 0, .cleanUp 0, .cleanUp 1]
example : decide (demoHistory.active = [[], [1]] ∧ demoHistory.orders.map (·.status) = [.executed, .active]) = true := by
  decide +kernel

/-- what `EExt` says about one order, in the vocabulary of the property -/
theorem lifecycle_of_ext {e e' : Engine M} (h : EExt e e') (id : Nat) (hid : id < e.w.orders.length) :
    Step (orderOf e id).status (orderOf e' id).status ∧
    ((orderOf e id).status ≠ .active → (orderOf e' id).status = (orderOf e id).status) ∧
    (orderOf e' id).price = (orderOf e id).price ∧ (orderOf e' id).sym = (orderOf e id).sym ∧
    (∀ sym, id ∈ Acc.getD e'.w.active sym → id ∈ Acc.getD e.w.active sym) := by
  refine ⟨?_, h.final id hid, (h.same id hid).1, (h.same id hid).2, fun sym hm => h.registry sym id hid hm⟩
  by_cases ha : (orderOf e id).status = .active
  · by_cases hb : (orderOf e' id).status = .active
    · exact Or.inl (ha.trans hb.symm)
    · exact Or.inr ⟨ha, hb⟩
  · exact Or.inl (h.final id hid ha).symm

/-- ONE TERMINAL TRANSITION OVER A WHOLE RUN of the normal simulator: every order that exists at any point `e`
    moves along active → final at most once until the end of the run, a final status never changes, symbol and
    price never change, and a final order never returns to a registry -/
theorem run_lifecycle_step (fuel : Nat) (inputs : List (List Candle)) (e : Engine M) (id : Nat) (hid : id < e.w.orders.length) :
    Step (orderOf e id).status (orderOf (runStep u fuel inputs e) id).status ∧
    ((orderOf e id).status ≠ .active → (orderOf (runStep u fuel inputs e) id).status = (orderOf e id).status) ∧
    (orderOf (runStep u fuel inputs e) id).price = (orderOf e id).price ∧
    (orderOf (runStep u fuel inputs e) id).sym = (orderOf e id).sym ∧
    (∀ sym, id ∈ Acc.getD (runStep u fuel inputs e).w.active sym → id ∈ Acc.getD e.w.active sym) :=
  lifecycle_of_ext (runStep_ext u fuel inputs e) id hid

/-- the same over a whole run of the fast simulator -/
theorem run_lifecycle_skip (fuel : Nat) (inputs : List (List Candle)) (e : Engine M) (id : Nat) (hid : id < e.w.orders.length) :
    Step (orderOf e id).status (orderOf (runSkip u fuel inputs e) id).status ∧
    ((orderOf e id).status ≠ .active → (orderOf (runSkip u fuel inputs e) id).status = (orderOf e id).status) ∧
    (orderOf (runSkip u fuel inputs e) id).price = (orderOf e id).price ∧
    (orderOf (runSkip u fuel inputs e) id).sym = (orderOf e id).sym ∧
    (∀ sym, id ∈ Acc.getD (runSkip u fuel inputs e).w.active sym → id ∈ Acc.getD e.w.active sym) :=
  lifecycle_of_ext (runSkip_ext u fuel inputs e) id hid

theorem runStepN_succ (fuel : Nat) (inputs : List (List Candle)) (e : Engine M) (n : Nat) :
    runStepN u fuel inputs e (n + 1) = stepAt u fuel (runStepN u fuel inputs e n).2 (runStepN u fuel inputs e n).1 n := by
  unfold runStepN
  simp only [List.range_succ, List.foldl_append, List.foldl_cons, List.foldl_nil]

theorem runSkipN_succ (fuel : Nat) (inputs : List (List Candle)) (e : Engine M) (step k : Nat) :
    runSkipN u fuel inputs e step (k + 1) =
      skipAt u fuel (runSkipN u fuel inputs e step k).2 (runSkipN u fuel inputs e step k).1 (k * step)
        (min step ((inputs.getD 0 []).length - k * step)) := by
  unfold runSkipN
  simp only [List.range_succ, List.foldl_append, List.foldl_cons, List.foldl_nil]

/-- BETWEEN ANY TWO MINUTES of a run of the normal simulator (`n ≤ m` iterations done): the state after `m`
    iterations extends the state after `n` -/
theorem run_prefix_ext_step (fuel : Nat) (inputs : List (List Candle)) (e : Engine M) (n k : Nat) :
    EExt (runStepN u fuel inputs e n).1 (runStepN u fuel inputs e (n + k)).1 := by
  induction k with
  | zero => exact EExt.refl _
  | succ k ih =>
    rw [← Nat.add_assoc, runStepN_succ]
    exact EExt.trans ih (stepAt_ext u fuel _ _ _)

theorem run_prefix_ext_skip (fuel : Nat) (inputs : List (List Candle)) (e : Engine M) (step n k : Nat) :
    EExt (runSkipN u fuel inputs e step n).1 (runSkipN u fuel inputs e step (n + k)).1 := by
  induction k with
  | zero => exact EExt.refl _
  | succ k ih =>
    rw [← Nat.add_assoc, runSkipN_succ]
    exact EExt.trans ih (skipAt_ext u fuel _ _ _ _)

/-- NEVER CHANGES AFTERWARDS, at every minute of the run: an order that is final after `n` iterations of the
    normal simulator has the same status after any later iteration (and so an order takes at most one
    terminal transition along the whole sequence of minute states) -/
theorem final_stays_final_step (fuel : Nat) (inputs : List (List Candle)) (e : Engine M) (n k id : Nat)
    (hid : id < (runStepN u fuel inputs e n).1.w.orders.length)
    (hf : (orderOf (runStepN u fuel inputs e n).1 id).status ≠ .active) :
    (orderOf (runStepN u fuel inputs e (n + k)).1 id).status = (orderOf (runStepN u fuel inputs e n).1 id).status :=
  (run_prefix_ext_step u fuel inputs e n k).final id hid hf

theorem final_stays_final_skip (fuel : Nat) (inputs : List (List Candle)) (e : Engine M) (step n k id : Nat)
    (hid : id < (runSkipN u fuel inputs e step n).1.w.orders.length)
    (hf : (orderOf (runSkipN u fuel inputs e step n).1 id).status ≠ .active) :
    (orderOf (runSkipN u fuel inputs e step (n + k)).1 id).status = (orderOf (runSkipN u fuel inputs e step n).1 id).status :=
  (run_prefix_ext_skip u fuel inputs e step n k).final id hid hf

/-- the same for one strategy step (before → check → after with arbitrary hooks) and one matched minute -/
theorem strategy_step_lifecycle (fuel : Nat) (e : Engine M) (r id : Nat) (hid : id < e.w.orders.length) :
    Step (orderOf e id).status (orderOf (executeStrategy u fuel e r) id).status :=
  (lifecycle_of_ext (executeStrategy_ext u fuel e r) id hid).1

theorem minute_lifecycle (fuel : Nat) (e : Engine M) (sym : Nat) (c : Candle) (id : Nat) (hid : id < e.w.orders.length) :
    Step (orderOf e id).status (orderOf (simulateMinute u fuel e sym c) id).status :=
  (lifecycle_of_ext (simulateMinute_ext u fuel e sym c) id hid).1

/-- not vacuous: in the demo session of C02 (a LIMIT buy at 97 and a STOP buy at 103 resting, the candle
    95..105) both orders exist before the run, are active, and are executed by the run, which ends without error
    (the third order is the closing market order of the end of the session) -/
example : C02.demoEngine.w.orders.map (·.status) = [.active, .active] := by decide +kernel
example : (runStep C02.idle 50 [[C02.demoCandle]] C02.demoEngine).err = none := by decide +kernel
example : (runStep C02.idle 50 [[C02.demoCandle]] C02.demoEngine).w.orders.map (·.status) = [.executed, .executed, .executed] := by
  decide +kernel

end engine

end C05
