/-
  Proofs/C05.lean — order lifecycle: one terminal transition, idempotent execute/cancel, the active
  registry, every executed order in exactly one trade.  Statements over the accounts model
  (Jesse/Accounts.lean, tied to the real classes by correspondence).  PROPERTY THEOREMS ONLY.
-/
import Jesse.Accounts
import Proofs.C04
import Proofs.C03

namespace C05
open Jesse Jesse.Acc

/-- the status order: active may become executed or canceled; final statuses never change -/
def Step (a b : OrderStatus) : Prop := a = b ∨ (a = .active ∧ b ≠ .active)

theorem upd_get {α} (l : List α) (i j : Nat) (f : α → α) :
    (upd l i f)[j]? = if i = j then (l[j]?).map f else l[j]? := by
  induction l generalizing i j with
  | nil => simp [upd]
  | cons x xs ih =>
    cases i with
    | zero =>
      cases j with
      | zero => simp [upd]
      | succ k => simp [upd]
    | succ i' =>
      cases j with
      | zero => simp [upd]
      | succ k => simp only [upd, List.getElem?_cons_succ, ih]; simp

/-- EXECUTING AN ORDER THAT IS ALREADY FINAL HAS NO EFFECT on anything: balances, positions, margin
    tables, registries, trade records (the whole model state is unchanged) — spot and futures. -/
theorem execute_final_noop (w : World) (id : Nat) (o : Order) (h : w.orders[id]? = some o)
    (hf : o.status ≠ .active) : execute w id = w := by
  simp [execute, h, hf]

theorem cancel_final_noop (w : World) (id : Nat) (o : Order) (h : w.orders[id]? = some o)
    (hf : o.status ≠ .active) : cancel w id = w := by
  simp [cancel, h, hf]

/-- an unknown id is ignored as well -/
theorem execute_unknown_noop (w : World) (id : Nat) (h : w.orders[id]? = none) :
    execute w id = w ∧ cancel w id = w := by
  simp [execute, cancel, h]

/-- orders of `execute`: only the status of the executed order changes, and only from active -/
theorem execute_orders (w : World) (id : Nat) :
    (execute w id).orders = w.orders ∨
    (∃ o, w.orders[id]? = some o ∧ o.status = .active ∧
      (execute w id).orders = upd w.orders id (fun o => { o with status := .executed })) := by
  unfold execute
  cases h : w.orders[id]? with
  | none => left; rfl
  | some o =>
    simp only []
    by_cases ha : o.status = .active
    · right
      refine ⟨o, rfl, ha, ?_⟩
      simp only [ha, ne_eq, not_true_eq_false, if_false]
      rw [(C04.frame_onExecuted _ _).1]
      -- exchange step and trade record do not touch `orders`
      have e1 : ∀ w' : World, (exchangeOnExecution w' o).orders = w'.orders := by
        intro w'
        unfold exchangeOnExecution
        cases w'.kind
        · simp only []; split
          · rfl
          · split <;> rfl
        · simp only []
          have := (C04.releaseSell_sums w' o)
          split
          · show (releaseSell w' o).orders = _
            unfold releaseSell; split
            · split
              · rfl
              · split <;> rfl
            · rfl
          · show (releaseSell w' o).orders = _
            unfold releaseSell; split
            · split
              · rfl
              · split <;> rfl
            · rfl
      rw [e1]
      rfl
    · left; simp [ha]

theorem cancel_orders (w : World) (id : Nat) :
    (cancel w id).orders = w.orders ∨
    (∃ o, w.orders[id]? = some o ∧ o.status = .active ∧
      (cancel w id).orders = upd w.orders id (fun o => { o with status := .canceled })) := by
  unfold cancel
  cases h : w.orders[id]? with
  | none => left; rfl
  | some o =>
    simp only []
    by_cases ha : o.status = .active
    · right
      refine ⟨o, rfl, ha, ?_⟩
      simp only [ha, ne_eq, not_true_eq_false, if_false]
      have r : ∀ w' : World, (releaseSell w' o).orders = w'.orders := by
        intro w'; unfold releaseSell; split
        · split
          · rfl
          · split <;> rfl
        · rfl
      cases w.kind
      · simp only []
        split
        · rfl
        · split <;> rfl
      · simp only []
        split
        · show (releaseSell _ o).orders = _; rw [r]; rfl
        · rw [r]; rfl
    · left; simp [ha]

/-- STATUS MONOTONE: one `execute` or `cancel` call moves every order's status along
    active → executed | canceled at most once and never back. -/
theorem status_step_execute (w : World) (id j : Nat) (o o' : Order)
    (h : w.orders[j]? = some o) (h' : (execute w id).orders[j]? = some o') : Step o.status o'.status := by
  rcases execute_orders w id with e | ⟨x, hx, hax, e⟩
  · rw [e, h] at h'; injection h' with h'; left; rw [h']
  · rw [e, upd_get] at h'
    by_cases hij : id = j
    · subst hij
      rw [hx] at h; injection h with h; subst h
      simp only [if_true, hx, Option.map_some, Option.some.injEq] at h'
      right; rw [← h']; exact ⟨hax, by simp⟩
    · simp only [hij, if_false] at h'
      rw [h] at h'; injection h' with h'; left; rw [h']

theorem status_step_cancel (w : World) (id j : Nat) (o o' : Order)
    (h : w.orders[j]? = some o) (h' : (cancel w id).orders[j]? = some o') : Step o.status o'.status := by
  rcases cancel_orders w id with e | ⟨x, hx, hax, e⟩
  · rw [e, h] at h'; injection h' with h'; left; rw [h']
  · rw [e, upd_get] at h'
    by_cases hij : id = j
    · subst hij
      rw [hx] at h; injection h with h; subst h
      simp only [if_true, hx, Option.map_some, Option.some.injEq] at h'
      right; rw [← h']; exact ⟨hax, by simp⟩
    · simp only [hij, if_false] at h'
      rw [h] at h'; injection h' with h'; left; rw [h']

/-- `Step` is transitive: over any history of calls a status takes at most one terminal transition -/
theorem Step.trans {a b c : OrderStatus} (h1 : Step a b) (h2 : Step b c) : Step a c := by
  rcases h1 with h1 | ⟨h1, h1'⟩
  · subst h1; exact h2
  · rcases h2 with h2 | ⟨h2, _⟩
    · subst h2; exact Or.inr ⟨h1, h1'⟩
    · exact absurd h2 h1'

/-- ACTIVE REGISTRY: after `update_active_orders` the ids reported as active for a symbol are exactly
    the previously listed ids whose order is not final. -/
theorem active_registry (w : World) (sym : Nat) (hs : sym < w.active.length) (id : Nat) :
    id ∈ getD (updateActive w sym).active sym ↔
      (id ∈ getD w.active sym ∧ ∃ o, w.orders[id]? = some o ∧ o.status = .active) := by
  unfold updateActive
  simp only []
  rw [C03.getD_upd_same _ _ _ hs, List.mem_filter]
  constructor
  · rintro ⟨h1, h2⟩
    refine ⟨h1, ?_⟩
    cases ho : w.orders[id]? with
    | none => simp [ho] at h2
    | some o => simp only [ho, decide_eq_true_eq] at h2; exact ⟨o, rfl, h2⟩
  · rintro ⟨h1, o, ho, ha⟩
    exact ⟨h1, by simp [ho, ha]⟩

/-- EXECUTED ONCE IN ONE TRADE (step): executing an active order appends its id exactly once to the
    trade under construction of its symbol; executing it again appends nothing (`execute_final_noop`). -/
theorem executed_recorded_once (w : World) (o : Order) (hs : o.sym < w.temp.length) :
    (getD (addExecutedOrder w o).temp o.sym).orders = (getD w.temp o.sym).orders ++ [o.id] := by
  unfold addExecutedOrder
  simp only []
  rw [C03.getD_upd_same _ _ _ hs]
  split <;> rfl

end C05
