/-
  Proofs/C11.lean — research.backtest is a pure, repeatable function of its arguments: the effective
  parameters of a session depend on the call's own arguments only, whatever ran before in the process
  (model of the process-wide state in Jesse/Session.lean, tied to the real code by correspondence).
  PROPERTY THEOREMS ONLY.
-/
import Jesse.Session

namespace C11
open Jesse Jesse.Acc Jesse.Sess

/-- the parameters the arguments ask for -/
def wanted (a : Args) : Eff :=
  { kind := a.cfg.kind, leverage := a.cfg.leverage, isolated := a.cfg.isolated, fee := a.cfg.fee,
    balance := a.cfg.balance, warmup := a.warmup, driver := true }

theorem lookup_setConf (c : List (Nat × ExCfg)) (k : Nat) (v : ExCfg) : (setConf c k v).lookup k = some v := by
  simp [setConf, List.lookup]

/-- ONE CALL, ANY STATE: whatever the process-wide state is, a call runs with exactly the parameters of
    its own arguments, and its orders reach an exchange driver. -/
theorem call_effective (g : G) (a : Args) : (call g a).2 = wanted a := by
  unfold call wanted
  simp only [lookup_setConf, Option.getD_some, List.lookup_nil]
  by_cases h : a.exchange ∈ g.drivers <;> simp [h]

/-- HISTORY INDEPENDENCE: after ANY sequence of earlier calls — other exchange names, spot instead of
    futures, other leverage, fee, balance, warm-up size, calls that aborted part-way — the probe call runs
    with the same effective parameters as in a fresh process. -/
theorem history_independent (first : List Nat) (h : List Args) (a : Args) :
    (call (runAll (g0 first) h) a).2 = (call (g0 first) a).2 := by
  rw [call_effective, call_effective]

/-- non-vacuity / regression witness of the two repaired defects: leverage 2 then leverage 10 on the same
    exchange name, then spot, then a new exchange name — each session gets what it asked for -/
example :
    let a1 : Args := ⟨0, ⟨.futures, 2, false, 1/1000, 10000⟩, 0, false⟩
    let a2 : Args := ⟨0, ⟨.futures, 10, false, 2/1000, 5000⟩, 0, true⟩
    let a3 : Args := ⟨0, ⟨.spot, 1, false, 1/1000, 10000⟩, 0, false⟩
    let a4 : Args := ⟨7, ⟨.futures, 3, true, 0, 100⟩, 5, false⟩
    decide ((call (runAll (g0 [0]) [a1, a2, a3]) a4).2 = wanted a4 ∧ (call (runAll (g0 [0]) [a1]) a2).2.leverage = 10) = true := by
  decide +kernel

end C11
