/-
  Proofs/C18.lean — the dynamic array behaves like a growing list of rows.
  Every public method of the model of DynamicNumpyArray (Jesse/DynArray.lean, tied to the real class
  by correspondence) refines the plain-list operation under the invariant `Inv`, the invariant is
  preserved, and the model raises exactly where the list does.  PROPERTY THEOREMS ONLY
  (helpers in Proofs/Lemmas/DynArray.lean).
-/
import Proofs.Lemmas.DynArray

namespace C18
open Jesse Jesse.DynArray Spec

/-- a fresh array is empty and satisfies the invariant -/
theorem inv_new (b w : Nat) (d : Option Nat) (hb : 0 < b) :
    Inv (DynArray.new b w d) ∧ (DynArray.new b w d).abs = [] := by
  refine ⟨⟨by simp [DynArray.new], by simp [DynArray.new], hb, by simp [DynArray.new, zeros]⟩, ?_⟩
  simp [DynArray.new, DynArray.abs]

/-- `len(a)` is the length of the list -/
theorem refines_len (a : DynArray) (h : Inv a) : a.len = (a.abs.length : Int) := by
  rw [abs_length a h, n_cast a h]; rfl

/-- `a[i]` (positive and negative `i`): the list's element, IndexError exactly where the list raises -/
theorem refines_getItem (a : DynArray) (h : Inv a) (i : Int) :
    a.getItem i = match Py.getIdx a.abs i with
      | some r => .ok r
      | none => .error .IndexError := by
  unfold Py.getIdx
  rw [abs_length a h]
  cases hk : Py.normIdx a.n i with
  | none =>
    have := resolve_none a h i hk
    simp [DynArray.getItem, this]
  | some k =>
    obtain ⟨hc, hr, hlt⟩ := resolve_some a h i k hk
    rw [hr] at hc
    simp only [DynArray.getItem, hr, hc, if_false]
    rw [getIdx_array_of_lt a h k hlt, abs_getElem? a k hlt]
    cases a.array[k]? <;> rfl

/-- `a[i] = row`: the list's item assignment -/
theorem refines_setItem (a : DynArray) (h : Inv a) (i : Int) (r : Row) :
    match Py.normIdx a.abs.length i with
    | some k => ∃ a', a.setItem i r = .ok a' ∧ a'.abs = a.abs.set k r ∧ Inv a'
    | none => a.setItem i r = .error .IndexError := by
  rw [abs_length a h]
  cases hk : Py.normIdx a.n i with
  | none =>
    have := resolve_none a h i hk
    have h2 : a.resolve i > a.index ∨ a.resolve i < 0 := by
      rcases this with h1 | h1 | h1
      · unfold DynArray.resolve; split
        · right; omega
        · left; omega
      · left; exact h1
      · right; exact h1
    simp [DynArray.setItem, h2]
  | some k =>
    obtain ⟨hc, hr, hlt⟩ := resolve_some a h i k hk
    have hc' : ¬ (a.resolve i > a.index ∨ a.resolve i < 0) := fun hh => hc (Or.inr hh)
    rw [hr] at hc'
    simp only [DynArray.setItem, hr, hc', if_false, normIdx_array_of_lt a h k hlt]
    refine ⟨_, rfl, ?_, ?_⟩
    · simp only [DynArray.abs]
      exact take_set_lt _ _ _ _ hlt
    · exact ⟨h.idx, by simpa using h.fits, h.bpos, by simpa using h.cap⟩

/-- `a.get_last_item()` -/
theorem refines_getLast (a : DynArray) (h : Inv a) :
    a.getLast = match a.abs.getLast? with
      | some r => .ok r
      | none => .error .IndexError := by
  have hc := n_cast a h
  have hl := abs_length a h
  by_cases h0 : a.index = -1
  · have : a.n = 0 := by omega
    have : a.abs = [] := List.length_eq_zero_iff.mp (by omega)
    simp [DynArray.getLast, h0, this]
  · have hi := h.idx
    have hn : a.n ≠ 0 := by omega
    have hk : a.n - 1 < a.n := by omega
    have e1 : a.index = ((a.n - 1 : Nat) : Int) := by omega
    simp only [DynArray.getLast, h0, if_false]
    rw [e1, getIdx_array_of_lt a h _ hk, ← abs_getElem? a _ hk, List.getLast?_eq_getElem?, hl]
    rfl

/-- `a.flush()` -/
theorem refines_flush (a : DynArray) (h : Inv a) : a.flush.abs = [] ∧ Inv a.flush := by
  refine ⟨by simp [DynArray.flush, DynArray.abs], ?_⟩
  exact ⟨by simp [DynArray.flush], by simp [DynArray.flush], h.bpos, by simp [DynArray.flush, zeros]⟩

/-- `a.delete(i)`: the list's `del l[i]`, IndexError exactly where the list raises -/
theorem refines_delete (a : DynArray) (h : Inv a) (i : Int) :
    match Py.normIdx a.abs.length i with
    | some k => ∃ a', a.delete i = .ok a' ∧ a'.abs = a.abs.eraseIdx k ∧ Inv a'
    | none => a.delete i = .error .IndexError := by
  rw [abs_length a h]
  cases hk : Py.normIdx a.n i with
  | none =>
    have := resolve_none a h i hk
    have h2 : a.resolve i > a.index ∨ a.resolve i < 0 := by
      rcases this with h1 | h1 | h1
      · unfold DynArray.resolve; split
        · right; omega
        · left; omega
      · left; exact h1
      · right; exact h1
    simp [DynArray.delete, h2]
  | some k =>
    obtain ⟨hc, hr, hlt⟩ := resolve_some a h i k hk
    have hc' : ¬ (a.resolve i > a.index ∨ a.resolve i < 0) := fun hh => hc (Or.inr hh)
    rw [hr] at hc'
    have hcast := n_cast a h
    have hfits := h.fits
    have hkl : k < a.array.length := by unfold DynArray.n at hlt; omega
    simp only [DynArray.delete, hr, hc', if_false, Py.npDelete, normIdx_array_of_lt a h k hlt]
    have hlen : (a.array.eraseIdx k).length = a.array.length - 1 := List.length_eraseIdx_of_lt hkl
    have hidx : (a.index - 1 + 1).toNat = a.n - 1 := by unfold DynArray.n; omega
    refine ⟨_, rfl, ?_, ?_⟩
    · simp only [DynArray.abs, hidx]
      have key := take_eraseIdx_lt a.array a.n k hlt (by unfold DynArray.n; exact hfits)
      split
      · rw [List.take_append_of_le_length (by rw [hlen]; unfold DynArray.n at hlt; omega)]
        exact key
      · exact key
    · constructor
      · show -1 ≤ a.index - 1
        omega
      · show (a.index - 1 + 1).toNat ≤ _
        rw [hidx]
        split
        · simp only [List.length_append, hlen]; unfold DynArray.n; omega
        · rw [hlen]; unfold DynArray.n; omega
      · exact h.bpos
      · show a.bucket ≤ List.length (if (a.array.eraseIdx k).length ≤ a.bucket
            then a.array.eraseIdx k ++ zeros a.bucket a.width else a.array.eraseIdx k)
        split
        · simp [zeros_length]
        · omega

/-- `a[s:e]` with positive, negative and omitted bounds: exactly the list's slice -/
theorem refines_getSlice (a : DynArray) (h : Inv a) (s e : Option Int) :
    a.getSlice s e = Py.slice a.abs s e := by
  obtain ⟨hB, hBn, hA⟩ := sliceBounds_spec a h s e
  have hl := abs_length a h
  simp only [DynArray.getSlice, Py.slice, hl]
  generalize (a.sliceBounds s e).1 = s1 at *
  generalize (a.sliceBounds s e).2 = e1 at *
  have es : ∀ x : Int, Py.startIdx a.array.length (some x) = Py.clampIdx a.array.length x := fun _ => rfl
  have ee : ∀ x : Int, Py.stopIdx a.array.length (some x) = Py.clampIdx a.array.length x := fun _ => rfl
  rw [es, ee, hB]
  show _ = List.take _ (List.drop _ (List.take a.n a.array))
  generalize Py.stopIdx a.n e = B at *
  generalize Py.startIdx a.n s = A at *
  rcases hA with hA | ⟨hA1, hA2⟩
  · rw [hA]
    exact (slice_take a.array a.n _ _ hBn).symm
  · -- start beyond the logical length: both slices are empty
    have e1 : B - Py.clampIdx a.array.length s1 = 0 := by omega
    have e2 : B - A = 0 := by omega
    rw [e1, e2]; simp

/-- `a[s:e] = rows` with as many rows as the list slice `a[s:e]` holds: the list's slice assignment; never raises. -/
theorem refines_setSlice (a : DynArray) (h : Inv a) (s e : Option Int) (items : List Row)
    (hlen : items.length = (Py.slice a.abs s e).length) :
    ∃ a', a.setSlice s e items = .ok a' ∧ Py.setSlice a.abs s e items = some a'.abs ∧ Inv a' := by
  have hc := n_cast a h
  have hn : a.n ≤ a.array.length := h.fits
  have hl := abs_length a h
  have hB : Py.stopIdx a.n e ≤ a.n := by
    cases e with
    | none => simp [Py.stopIdx]
    | some x => exact clampIdx_le _ _
  have hk : items.length = Py.stopIdx a.n e - Py.startIdx a.n s := by
    rw [hlen]; simp only [Py.slice, hl, List.length_take, List.length_drop]; omega
  obtain ⟨start1, h1'⟩ : ∃ x : Int, x = startOf s a.index := ⟨_, rfl⟩
  have h1 : start1 = if s.getD 0 < 0 then max ((a.index + 1) + s.getD 0) 0 else s.getD 0 := h1' 
  obtain ⟨stop2, h2⟩ : ∃ x : Int, x = stopOf e start1 items.length a.index := ⟨_, rfl⟩
  obtain ⟨hTS, hcase⟩ := setSlice_bounds a.n a.array.length a.index hc hn s e items.length hk start1 stop2 h1 h2
  have hT : Py.clampIdx a.array.length stop2 ≤ a.array.length := clampIdx_le _ _
  have hSle : Py.clampIdx a.array.length start1 ≤ a.array.length := clampIdx_le _ _
  generalize hS : Py.clampIdx a.array.length start1 = S at *
  generalize hTT : Py.clampIdx a.array.length stop2 = T at *
  have hfit : S + items.length ≤ a.array.length := by omega
  -- the assignment on the backing array
  have hassign : npAssign a.array start1 stop2 items = some (a.array.take S ++ items ++ a.array.drop (S + items.length)) := by
    unfold npAssign
    have hsl : (Py.slice a.array (some start1) (some stop2)).length = items.length := by
      simp only [Py.slice, Py.startIdx, Py.stopIdx, hS, hTT, List.length_take, List.length_drop]; omega
    simp only [hsl, if_true]
    simp only [Py.setSlice, Py.startIdx, Py.stopIdx, hS, hTT, hTS, if_true]
  have hset : a.setSlice s e items = .ok { a with array := a.array.take S ++ items ++ a.array.drop (S + items.length) } := by
    rw [setSlice_unfold, ← h1', ← h2, hassign]
  refine ⟨_, hset, ?_, ?_⟩
  · -- the list view
    have hcond : Py.stopIdx a.abs.length e - Py.startIdx a.abs.length s = items.length := by rw [hl]; omega
    simp only [Py.setSlice, hcond, if_true, Option.some.injEq]
    rw [hl]
    show _ = (List.take S a.array ++ items ++ List.drop (S + items.length) a.array).take (a.index + 1).toNat
    have hnn : (a.index + 1).toNat = a.n := rfl
    rw [hnn]
    rcases hcase with h0 | ⟨hSA, hAk⟩
    · have hnil : items = [] := List.eq_nil_of_length_eq_zero h0
      subst hnil
      simp only [List.append_nil, List.length_nil, Nat.add_zero, List.take_append_drop]
      rfl
    · rw [← hSA]
      have hSN : S + items.length ≤ a.n := by omega
      unfold DynArray.abs
      rw [hnn]
      have e1 : (a.array.take a.n).take S = a.array.take S := by
        rw [List.take_take]; congr 1; omega
      have e2 : (a.array.take a.n).drop (S + items.length) = (a.array.drop (S + items.length)).take (a.n - (S + items.length)) :=
        List.drop_take
      have hXlen : (a.array.take S ++ items).length = S + items.length := by
        simp only [List.length_append, List.length_take]; omega
      rw [e1, e2, List.take_append, hXlen]
      congr 1
      exact (List.take_of_length_le (by rw [hXlen]; exact hSN)).symm
  · have hL : (a.array.take S ++ items ++ a.array.drop (S + items.length)).length = a.array.length := by
      simp only [List.length_append, List.length_take, List.length_drop]
      clear hk hcase hTS hlen
      omega
    exact ⟨h.idx, by show _ ≤ (List.take S a.array ++ items ++ List.drop (S + items.length) a.array).length; rw [hL]; exact h.fits,
      h.bpos, by show _ ≤ (List.take S a.array ++ items ++ List.drop (S + items.length) a.array).length; rw [hL]; exact h.cap⟩

/-- `a.append(row)`: the list's append (with the drop-oldest rule when `drop_at` is set);
    never raises. -/
theorem refines_append (a : DynArray) (h : Inv a) (r : Row)
    (hd : ∀ d, a.dropAt = some d → 0 < d) :
    ∃ a', a.append r = .ok a' ∧ a'.abs = Spec.listAppend a.dropAt a.abs r ∧ Inv a' := by
  have hc := n_cast a h
  have hi := h.idx
  have hb := h.bpos
  have hl := abs_length a h
  obtain ⟨h1len, h1cap⟩ := grow_append_lt a h
  have h1take := grow_take a h (a.index + 1) a.bucket
  have e1 : a.index + 1 = ((a.n : Nat) : Int) := hc.symm
  have hlen1 : (a.abs ++ [r]).length = a.n + 1 := by simp [hl]
  -- the case without a drop (shared by `drop_at = None` and a length that is no multiple)
  have plain : ∀ (hstep : a.dropStep (a.index + 1) (a.grow (a.index + 1) a.bucket)
        = (a.index + 1, a.grow (a.index + 1) a.bucket))
      (hspec : Spec.listAppend a.dropAt a.abs r = a.abs ++ [r]),
      ∃ a', a.append r = .ok a' ∧ a'.abs = Spec.listAppend a.dropAt a.abs r ∧ Inv a' := by
    intro hstep hspec
    refine ⟨{ a with index := (a.n : Int), array := (a.grow (a.index + 1) a.bucket).set a.n r }, ?_, ?_, ?_⟩
    · simp only [DynArray.append, hstep]
      rw [e1]; rw [e1] at h1len
      exact writeRow_ok a a.n _ r h1len
    · rw [hspec]
      show List.take ((a.n : Int) + 1).toNat ((a.grow (a.index + 1) a.bucket).set a.n r) = _
      have : ((a.n : Int) + 1).toNat = a.n + 1 := by omega
      rw [this, take_set_succ _ _ _ h1len, h1take]
    · exact ⟨by simp only []; omega, by simp only [List.length_set]; omega, hb, by simpa using h1cap⟩
  cases hdrop : a.dropAt with
  | none =>
    rw [← hdrop]
    exact plain (dropStep_none a hdrop _ _) (by simp [Spec.listAppend, Spec.listAppendAll, hdrop])
  | some d =>
    rw [← hdrop]
    have hdpos := hd d hdrop
    by_cases hcond : a.index + 1 ≠ 0 ∧ (a.index + 1 + 1) % (d : Int) = 0
    · -- the drop step fires: the oldest d/2 rows go
      have hmodZ : ((a.n + 1 : Nat) : Int) % (d : Int) = 0 := by
        have h2 := hcond.2
        rw [← h2]; congr 1; omega
      have hmod : (a.n + 1) % d = 0 := by exact_mod_cast hmodZ
      have hge : d ≤ a.n + 1 := Nat.le_of_dvd (by omega) (Nat.dvd_of_mod_eq_zero hmod)
      have hk : d / 2 ≤ a.n := by omega
      have hklt : d / 2 < (a.grow (a.index + 1) a.bucket).length := by omega
      obtain ⟨h2len, h2take⟩ := shiftLeft_small (a.grow (a.index + 1) a.bucket) (d / 2) (zeroRow a.width) hklt
      have e2 : a.index + 1 - ((d / 2 : Nat) : Int) = ((a.n - d / 2 : Nat) : Int) := by omega
      have hpos : a.n - d / 2 < (Py.shiftLeft (a.grow (a.index + 1) a.bucket) (d / 2) (zeroRow a.width)).length := by
        omega
      refine ⟨{ a with index := ((a.n - d / 2 : Nat) : Int),
                       array := (Py.shiftLeft (a.grow (a.index + 1) a.bucket) (d / 2) (zeroRow a.width)).set (a.n - d / 2) r },
              ?_, ?_, ?_⟩
      · simp only [DynArray.append, dropStep_fire a d hdrop _ _ hcond]
        rw [e2]
        exact writeRow_ok a _ _ r hpos
      · have hne1 : a.n + 1 ≠ 1 := by omega
        simp only [Spec.listAppend, Spec.listAppendAll, hdrop, hlen1, hne1, hmod, ne_eq,
          not_false_eq_true, and_self, if_true]
        show List.take (((a.n - d / 2 : Nat) : Int) + 1).toNat
          ((Py.shiftLeft (a.grow (a.index + 1) a.bucket) (d / 2) (zeroRow a.width)).set (a.n - d / 2) r) = _
        have : (((a.n - d / 2 : Nat) : Int) + 1).toNat = (a.n - d / 2) + 1 := by omega
        rw [this, take_set_succ _ _ _ hpos, h2take _ (by omega)]
        rw [List.drop_append_of_le_length (by rw [hl]; exact hk), ← h1take, List.drop_take]
      · exact ⟨by simp only []; omega, by simp only [List.length_set]; omega, hb,
          by simp only [List.length_set]; omega⟩
    · -- no drop at this length
      have hnc : ¬ (a.n + 1 ≠ 1 ∧ (a.n + 1) % d = 0) := by
        intro hh
        apply hcond
        refine ⟨by omega, ?_⟩
        have : ((a.n + 1 : Nat) : Int) % (d : Int) = 0 := by exact_mod_cast hh.2
        rw [← this]; congr 1; omega
      exact plain (dropStep_nofire a d hdrop _ _ hcond)
        (by simp only [Spec.listAppend, Spec.listAppendAll, hdrop, hlen1, hnc, if_false])

/-- `a.append_multiple(rows)`: the list's extend (with the drop-oldest rule when `drop_at` is
    set); never raises.  (Before the `fix:` commit 6be5649a the drop step ran before the write and a
    bulk append onto a short array with a drop limit raised ValueError.) -/
theorem refines_appendMultiple (a : DynArray) (h : Inv a) (items : List Row)
    (hd : ∀ d, a.dropAt = some d → 0 < d)
    (hnz : a.dropAt ≠ none → 0 < a.n + items.length) :
    ∃ a', a.appendMultiple items = .ok a' ∧ a'.abs = Spec.listAppendAll a.dropAt a.abs items ∧ Inv a' := by
  have hc := n_cast a h
  have hi := h.idx
  have hb := h.bpos
  have hl := abs_length a h
  obtain ⟨hfit, hcap⟩ := grow_appendMultiple_le a h items.length
  have htake := grow_take a h (a.index + items.length) (max items.length a.bucket)
  have e1 : a.index + (items.length : Int) - (items.length : Int) + 1 = ((a.n : Nat) : Int) := by omega
  have e2 : a.index + (items.length : Int) + 1 = ((a.n : Nat) : Int) + (items.length : Nat) := by omega
  -- the array after growth and write
  obtain ⟨G, hG⟩ : ∃ G, a.grow (a.index + items.length) (max items.length a.bucket) = G := ⟨_, rfl⟩
  rw [hG] at hfit hcap htake
  obtain ⟨W, hWdef⟩ : ∃ W, G.take a.n ++ items ++ G.drop (a.n + items.length) = W := ⟨_, rfl⟩
  have hW : npAssign G (a.index + items.length - items.length + 1) (a.index + items.length + 1) items = some W := by
    rw [e1, e2, ← hWdef]; exact npAssign_exact _ a.n items.length items rfl hfit
  have hWlen : W.length = G.length := by
    rw [← hWdef]
    simp only [List.length_append, List.length_take, List.length_drop]; omega
  have hlen2 : (a.abs ++ items).length = a.n + items.length := by simp [hl]
  have hWtake : W.take (a.n + items.length) = a.abs ++ items := by
    rw [← hWdef, htake, List.take_append_of_le_length (by omega), List.take_of_length_le (by omega)]
  have plain : ∀ (hstep : a.dropStep (a.index + items.length) W = (a.index + items.length, W))
      (hspec : Spec.listAppendAll a.dropAt a.abs items = a.abs ++ items),
      ∃ a', a.appendMultiple items = .ok a' ∧ a'.abs = Spec.listAppendAll a.dropAt a.abs items ∧ Inv a' := by
    intro hstep hspec
    refine ⟨{ a with index := a.index + items.length, array := W }, ?_, ?_, ?_⟩
    · simp only [DynArray.appendMultiple]
      rw [hG, hW]; simp only [hstep]
    · rw [hspec]
      show List.take (a.index + (items.length : Int) + 1).toNat W = _
      have : (a.index + (items.length : Int) + 1).toNat = a.n + items.length := by omega
      rw [this, hWtake]
    · exact ⟨by simp only []; omega, by simp only []; omega, hb, by simp only []; omega⟩
  cases hdrop : a.dropAt with
  | none =>
    rw [← hdrop]
    exact plain (dropStep_none a hdrop _ _) (by simp [Spec.listAppendAll, hdrop])
  | some d =>
    rw [← hdrop]
    have hdpos := hd d hdrop
    by_cases hcond : a.index + (items.length : Int) ≠ 0 ∧ (a.index + (items.length : Int) + 1) % (d : Int) = 0
    · have hmodZ : ((a.n + items.length : Nat) : Int) % (d : Int) = 0 := by
        have h2 := hcond.2
        rw [← h2]; congr 1; omega
      have hmod : (a.n + items.length) % d = 0 := by exact_mod_cast hmodZ
      have hpos' : 0 < a.n + items.length := hnz (by rw [hdrop]; simp)
      have hge : d ≤ a.n + items.length := Nat.le_of_dvd hpos' (Nat.dvd_of_mod_eq_zero hmod)
      have hklt : d / 2 < W.length := by omega
      obtain ⟨h2len, h2take⟩ := shiftLeft_small W (d / 2) (zeroRow a.width) hklt
      refine ⟨{ a with index := a.index + items.length - ((d / 2 : Nat) : Int),
                       array := Py.shiftLeft W (d / 2) (zeroRow a.width) }, ?_, ?_, ?_⟩
      · simp only [DynArray.appendMultiple]
        rw [hG, hW]; simp only [dropStep_fire a d hdrop _ _ hcond]
      · have hne1 : a.n + items.length ≠ 1 := by omega
        simp only [Spec.listAppendAll, hdrop, hlen2, hne1, hmod, ne_eq, not_false_eq_true, and_self, if_true]
        show List.take (a.index + (items.length : Int) - ((d / 2 : Nat) : Int) + 1).toNat
          (Py.shiftLeft W (d / 2) (zeroRow a.width)) = _
        have : (a.index + (items.length : Int) - ((d / 2 : Nat) : Int) + 1).toNat = a.n + items.length - d / 2 := by omega
        rw [this, h2take _ (by omega), ← hWtake, List.drop_take]
      · exact ⟨by simp only []; omega, by simp only []; omega, hb, by simp only []; omega⟩
    · have hnc : ¬ (a.n + items.length ≠ 1 ∧ (a.n + items.length) % d = 0) := by
        intro hh
        apply hcond
        refine ⟨by omega, ?_⟩
        have : ((a.n + items.length : Nat) : Int) % (d : Int) = 0 := by exact_mod_cast hh.2
        have e3 : a.index + (items.length : Int) + 1 = ((a.n + items.length : Nat) : Int) := by omega
        rw [e3]; exact this
      exact plain (dropStep_nofire a d hdrop _ _ hcond)
        (by simp only [Spec.listAppendAll, hdrop, hlen2, hnc, if_false])

/-- regression witness of the repaired defect: bucket 2, `drop_at = 4`, bulk append of four rows
    onto a fresh array now leaves the two most recent rows -/
example : (match (DynArray.new 2 2 (some 4)).appendMultiple [[1, 1], [2, 2], [3, 3], [4, 4]] with
     | .ok a => decide (a.abs = [[3, 3], [4, 4]]) | _ => false) = true := by decide +kernel

/-- `a.get_past_item(k)` for k ≥ 0: the k-th row from the end -/
theorem refines_getPast (a : DynArray) (h : Inv a) (k : Nat) :
    a.getPast k = (if k < a.abs.length then
        (match a.abs[a.abs.length - 1 - k]? with | some r => .ok r | none => .error .IndexError)
      else .error .IndexError) := by
  have hc := n_cast a h
  have hl := abs_length a h
  have hi := h.idx
  rw [hl]
  unfold DynArray.getPast
  by_cases h0 : a.index = -1
  · have : ¬ k < a.n := by omega
    simp [h0, this]
  · by_cases hk : k < a.n
    · have h1 : ¬ a.index - (k : Int) < 0 := by omega
      have e1 : a.index - (k : Int) = ((a.n - 1 - k : Nat) : Int) := by omega
      have hlt : a.n - 1 - k < a.n := by omega
      simp only [h0, h1, hk, if_true, if_false]
      rw [e1, getIdx_array_of_lt a h _ hlt, abs_getElem? a _ hlt]
      cases a.array[a.n - 1 - k]? <;> rfl
    · have h1 : a.index - (k : Int) < 0 := by omega
      simp [h0, h1, hk]

/-! ### every operation history -/

/-- the mutating operations of the array (reads are covered by the per-state theorems above) -/
inductive Op where
  | append (r : Row)
  | appendMultiple (rs : List Row)
  | setItem (i : Int) (r : Row)
  | delete (i : Int)
  | flush

def stepModel (a : DynArray) : Op → Except Err DynArray
  | .append r => a.append r
  | .appendMultiple rs => a.appendMultiple rs
  | .setItem i r => a.setItem i r
  | .delete i => a.delete i
  | .flush => .ok a.flush

/-- the same operation on a plain list (with the drop-oldest rule `d`); `none` where Python's
    list raises -/
def stepList (d : Option Nat) (l : List Row) : Op → Option (List Row)
  | .append r => some (Spec.listAppend d l r)
  | .appendMultiple rs => some (Spec.listAppendAll d l rs)
  | .setItem i r => (Py.normIdx l.length i).map (fun k => l.set k r)
  | .delete i => (Py.normIdx l.length i).map (fun k => l.eraseIdx k)
  | .flush => some []

/-- with a drop limit, a bulk append of zero rows is excluded (see `refines_appendMultiple`) -/
def Op.NonDegenerate (d : Option Nat) : Op → Prop
  | .appendMultiple rs => d ≠ none → rs ≠ []
  | _ => True

def runModel (a : DynArray) : List Op → Except Err DynArray
  | [] => .ok a
  | op :: rest => match stepModel a op with
    | .ok a' => runModel a' rest
    | .error e => .error e

def runList (d : Option Nat) (l : List Row) : List Op → Option (List Row)
  | [] => some l
  | op :: rest => match stepList d l op with
    | some l' => runList d l' rest
    | none => none

/-- one step: if the operation is valid on the list, the array performs it and stays in `Inv`;
    if the list raises, so does the array (state unchanged by construction of `Except`). -/
theorem refines_step (a : DynArray) (h : Inv a) (hd : ∀ d, a.dropAt = some d → 0 < d) (op : Op)
    (hop : op.NonDegenerate a.dropAt) :
    match stepList a.dropAt a.abs op with
    | some l' => ∃ a', stepModel a op = .ok a' ∧ a'.abs = l' ∧ Inv a' ∧ a'.dropAt = a.dropAt
    | none => ∃ e, stepModel a op = .error e := by
  cases op with
  | append r =>
    obtain ⟨a', h1, h2, h3⟩ := refines_append a h r hd
    refine ⟨a', h1, h2, h3, ?_⟩
    simp only [DynArray.append, DynArray.writeRow] at h1
    split at h1
    · injection h1 with h1; rw [← h1]
    · cases h1
  | appendMultiple rs =>
    have hnz : a.dropAt ≠ none → 0 < a.n + rs.length := by
      intro hh
      have := hop hh
      have : 0 < rs.length := List.length_pos_iff.mpr this
      omega
    obtain ⟨a', h1, h2, h3⟩ := refines_appendMultiple a h rs hd hnz
    refine ⟨a', h1, h2, h3, ?_⟩
    simp only [DynArray.appendMultiple] at h1
    split at h1
    · cases h1
    · injection h1 with h1; rw [← h1]
  | setItem i r =>
    have := refines_setItem a h i r
    simp only [stepList, stepModel]
    cases hk : Py.normIdx a.abs.length i with
    | none => rw [hk] at this; exact ⟨_, this⟩
    | some k =>
      rw [hk] at this
      obtain ⟨a', h1, h2, h3⟩ := this
      refine ⟨a', h1, h2, h3, ?_⟩
      simp only [DynArray.setItem] at h1
      split at h1
      · cases h1
      · split at h1
        · injection h1 with h1; rw [← h1]
        · cases h1
  | delete i =>
    have := refines_delete a h i
    simp only [stepList, stepModel]
    cases hk : Py.normIdx a.abs.length i with
    | none => rw [hk] at this; exact ⟨_, this⟩
    | some k =>
      rw [hk] at this
      obtain ⟨a', h1, h2, h3⟩ := this
      refine ⟨a', h1, h2, h3, ?_⟩
      simp only [DynArray.delete] at h1
      split at h1
      · cases h1
      · split at h1
        · cases h1
        · injection h1 with h1; rw [← h1]
  | flush =>
    obtain ⟨h1, h2⟩ := refines_flush a h
    exact ⟨a.flush, rfl, h1, h2, rfl⟩

/-- EVERY HISTORY, with and without the drop-oldest limit: for every bucket size, row width and
    sequence of mutating operations, if the sequence is valid on a plain list (truncated by the
    drop rule) then the array executes it without raising, ends in `Inv`, and its logical content is
    the list's — so by the per-state theorems every read (`len`, `a[i]`, `a[s:e]`, last, past)
    returns what the list returns, at every point. -/
theorem refines_history (a : DynArray) (h : Inv a) (hd : ∀ d, a.dropAt = some d → 0 < d)
    (ops : List Op) (hops : ∀ op ∈ ops, op.NonDegenerate a.dropAt)
    (l : List Row) (hrun : runList a.dropAt a.abs ops = some l) :
    ∃ a', runModel a ops = .ok a' ∧ a'.abs = l ∧ Inv a' := by
  induction ops generalizing a with
  | nil => simp only [runList, Option.some.injEq] at hrun; exact ⟨a, rfl, hrun, h⟩
  | cons op rest ih =>
    have hs := refines_step a h hd op (hops op (by simp))
    simp only [runList] at hrun
    cases hl : stepList a.dropAt a.abs op with
    | none => rw [hl] at hrun; cases hrun
    | some l' =>
      rw [hl] at hrun hs
      obtain ⟨a', h1, h2, h3, h4⟩ := hs
      obtain ⟨a'', g1, g2, g3⟩ := ih a' h3 (by rw [h4]; exact hd)
        (by intro o ho; rw [h4]; exact hops o (by simp [ho])) (by rw [h2, h4]; exact hrun)
      exact ⟨a'', by simp only [runModel, h1]; exact g1, g2, g3⟩

theorem refines_history_from_new (b w : Nat) (d : Option Nat) (hb : 0 < b) (hdp : ∀ x, d = some x → 0 < x)
    (ops : List Op) (hops : ∀ op ∈ ops, op.NonDegenerate d) (l : List Row)
    (hrun : runList d [] ops = some l) :
    ∃ a', runModel (DynArray.new b w d) ops = .ok a' ∧ a'.abs = l ∧ Inv a' := by
  obtain ⟨hi, ha⟩ := inv_new b w d hb
  exact refines_history _ hi hdp ops hops l (by rw [ha]; exact hrun)

/-- non-vacuity: the sequence that crashed the unrepaired class (bucket 3: append×5, delete×2,
    append×2) is valid on the list and now runs to the list's result -/
example : (match runModel (DynArray.new 3 1 none)
      [.append [1], .append [2], .append [3], .append [4], .append [5], .delete 0, .delete 0,
       .append [6], .append [7]] with
    | .ok a => decide (a.abs = [[3], [4], [5], [6], [7]]) | _ => false) = true := by decide +kernel

end C18
