/-
  Proofs/C02.lean — resting orders fill exactly when and where the price reaches them
  (theorems over the matching part of the engine model: candidate selection, the path-order sort,
  the `while True` matching loop of both simulators, the MARKET-order queue).
  PROPERTY THEOREMS ONLY (helper lemmas: Proofs/Lemmas/Sort.lean, Proofs/Lemmas/Match.lean).
-/
import Proofs.Lemmas.Compose
import Proofs.C07

namespace C02
open Jesse Jesse.Eng Jesse.Gen MatchLemmas ComposeLemmas

variable {M : Type} [Inhabited M] (u : UserStrategy M)

/- the candidate selection of the normal simulator (`_get_executing_orders` + `_sort_execution_orders` when more
   than one) is `ComposeLemmas.sel` -/

/-- NO MISSED FILL, normal simulator: when the matching loop of a minute returns without an error,
    NO active order of the symbol has its price inside what remains of the minute's candle — every
    order the remaining price path could still reach has been executed (for every strategy: the hooks
    that run on each fill may submit, cancel and replace orders arbitrarily). -/
theorem minute_no_resting_hit (fuel : Nat) (e : Engine M) (sym : Nat) (real : Candle) :
    let r := matchLoop u fuel e sym real (sel sym e real) (sel sym) false
    r.1.err = none → executingOrders r.1 sym r.2 = [] := by
  intro r herr
  have h := matchLoop_returns u fuel e sym real (sel sym e real) (sel sym) false herr
  have key : ∀ (e' : Engine M) (c : Candle), matchLoop.firstHit e' c (sel sym e' c) = none → executingOrders e' sym c = [] := by
    intro e' c hn
    apply List.eq_nil_iff_forall_not_mem.mpr
    intro id hid
    have hmem : id ∈ sel sym e' c := by
      unfold sel
      simp only []
      split
      · exact mem_sort_single e' _ c id (fun z hz => (mem_executingOrders e' sym c z).mp hz |>.2.2) hid
      · exact hid
    obtain ⟨_, hact, hinc⟩ := (mem_executingOrders e' sym c id).mp hid
    exact firstHit_none_not_mem e' c _ hn id hmem hact hinc
  rcases h with ⟨h1, h2, h3⟩ | h
  · rw [h1, h2]; rw [h1, h2] at h3; exact key _ _ h3
  · exact key _ _ h

/-- NO ORDER RESTING SINCE BEFORE THE MINUTE IS LEFT BEHIND (normal simulator, every strategy): when the matching
    loop of a minute with a valid candle `real` returns without an error, every order that existed when the
    minute started and is still active (and registered for the symbol) has its price OUTSIDE the minute's
    range — whatever the hooks fired by the fills did in between (submit, cancel, replace, modify).
    Composition of `minute_no_resting_hit`, `sorted_head_first_on_path`, the validity of the split parts (C08) and
    the frame facts (an existing order keeps its price, never becomes active again, never re-enters the registry). -/
theorem resting_order_never_left_in_range (fuel : Nat) (e : Engine M) (sym : Nat) (real : Candle) (hv : real.Valid) :
    let r := matchLoop u fuel e sym real (sel sym e real) (sel sym) false
    r.1.err = none →
      ∀ id, id < e.w.orders.length → (orderOf r.1 id).status = .active → id ∈ Acc.getD r.1.w.active sym →
        ¬ candleIncludesPrice real (orderOf e id).price := by
  intro r herr id hid hact hreg hreal
  obtain ⟨hext, hkeep⟩ := loop_keeps u e sym real fuel e real hv (FrameLemmas.EExt.refl e) (fun _ _ _ _ h => h) herr
  have hempty := minute_no_resting_hit u fuel e sym real herr
  have hcur := hkeep id hid hact hreg hreal
  have hp : (orderOf r.1 id).price = (orderOf e id).price := price_of_ext hext id hid
  have : id ∈ executingOrders r.1 sym r.2 :=
    (mem_executingOrders r.1 sym r.2 id).mpr ⟨hreg, hact, by rw [hp]; exact hcur⟩
  rw [hempty] at this
  cases this

/-- FIRST ON THE PATH: with several candidates inside a (valid) candle, the order the sort puts first is
    the one the O-L-H-C / O-H-L-C price path reaches first: after the candle is split at its price, the
    price of EVERY other candidate still lies inside the remaining part — no candidate is jumped over. -/
theorem sorted_head_first_on_path (e : Engine M) (os : List Nat) (c a b : Candle) (id0 : Nat) (rest : List Nat)
    (hv : c.Valid) (hall : ∀ id ∈ os, candleIncludesPrice c (orderOf e id).price)
    (hsort : sortExecutionOrders e os [c] = id0 :: rest)
    (hsplit : splitCandle c (orderOf e id0).price = some (a, b)) :
    ∀ id ∈ os, candleIncludesPrice b (orderOf e id).price :=
  head_first_on_path e os c a b id0 rest hv hall hsort hsplit

/-- NO MISSED FILL, fast simulator: inside a chunk, when the matching loop of one minute returns
    without an error, either nothing was executed and none of the carried candidates is active with its
    price inside that minute's (gap-extended) candle, or no active order whose price lies in the chunk's
    aggregate candle has its price inside what remains of that minute. -/
theorem chunk_minute_no_resting_hit (fuel : Nat) (e : Engine M) (sym : Nat) (real cur : Candle) (cands : List Nat) :
    let resel := fun (e : Engine M) (_ : Candle) => executingOrders e sym real
    let r := matchLoop u fuel e sym cur cands resel true
    r.1.err = none →
      (r.1 = e ∧ r.2 = cur ∧ ∀ id ∈ cands, (orderOf e id).status = .active → ¬ candleIncludesPrice cur (orderOf e id).price)
      ∨ (∀ id ∈ executingOrders r.1 sym real, ¬ candleIncludesPrice r.2 (orderOf r.1 id).price) := by
  intro resel r herr
  have h := matchLoop_returns u fuel e sym cur cands resel true herr
  rcases h with ⟨h1, h2, h3⟩ | h
  · left
    refine ⟨h1, h2, ?_⟩
    intro id hid hact hinc
    rw [h1, h2] at h3
    exact firstHit_none_not_mem e cur cands h3 id hid hact hinc
  · right
    intro id hid hinc
    obtain ⟨_, hact, _⟩ := (mem_executingOrders r.1 sym real id).mp hid
    exact firstHit_none_not_mem r.1 r.2 _ h id hid hact hinc

/-- NEVER AFTER CANCELLATION / NEVER TWICE: executing an order that is not active (cancelled, already
    executed, unknown) changes nothing at all — no fill event, no account change, no hook. -/
theorem inactive_order_never_fills (e : Engine M) (id : Nat) (h : (orderOf e id).status ≠ .active) :
    executeOrder u e id = e := by
  unfold executeOrder
  by_cases he : e.err.isSome
  · simp [he]
  · simp [he, h]

/-- MARKET ORDERS ARE FILLED AT ONCE: when the strategy step's market-order pass returns without an
    error, the queue of submitted-but-unfilled MARKET orders is empty — none waits for a later candle. -/
theorem market_queue_drained (fuel : Nat) (e : Engine M) (h : (executePendingMarketOrders u fuel e).err = none) :
    (executePendingMarketOrders u fuel e).toExecute = [] := by
  unfold executePendingMarketOrders at *
  by_cases h0 : e.toExecute.isEmpty
  · have hnil : e.toExecute = [] := by simpa using h0
    simp only [h0, if_true]
    exact hnil
  · simp only [h0] at *
    exact market_go_drained u fuel e 0 h

/-! ### the minute candle handed to the matching loop IS valid (normal simulator, whole runs)

`resting_order_never_left_in_range` and `sorted_head_first_on_path` assume a valid minute candle.  The simulator does
not hand the input row to the loop but the row after `_get_fixed_jumped_candle`, written back into the input array.
For input arrays of valid candles that row is valid at every minute of every run, whatever the strategies do. -/

def AllValid (ins : List (List Candle)) : Prop := ∀ cs ∈ ins, ∀ k ∈ cs, k.Valid

theorem getD_valid (ins : List (List Candle)) (hv : AllValid ins) (sym : Nat) : ∀ k ∈ ins.getD sym [], k.Valid := by
  intro k hk
  rw [List.getD_eq_getElem?_getD] at hk
  cases h : ins[sym]? with
  | none => rw [h] at hk; simp at hk
  | some cs => rw [h] at hk; exact hv cs (List.mem_of_getElem? h) k hk

theorem fixedRow_valid (cs : List Candle) (i : Nat) (c : Candle) (hv : ∀ k ∈ cs, k.Valid) (h : fixedRow cs i = some c) :
    c.Valid := by
  unfold fixedRow at h
  cases hi : cs[i]? with
  | none => rw [hi] at h; simp at h
  | some x =>
    have hx : x.Valid := hv x (List.mem_of_getElem? hi)
    rw [hi] at h
    simp only at h
    by_cases h0 : i = 0
    · rw [if_pos h0] at h; injection h with h; rw [← h]; exact hx
    · rw [if_neg h0] at h
      cases hp : cs[i - 1]? with
      | none => rw [hp] at h; injection h with h; rw [← h]; exact hx
      | some p => rw [hp] at h; injection h with h; rw [← h]; exact (C07.fix_jump_bounds p x hx).1

theorem set_valid (ins : List (List Candle)) (hv : AllValid ins) (sym : Nat) (cs' : List Candle)
    (h' : ∀ k ∈ cs', k.Valid) : AllValid (ins.set sym cs') := by
  intro cs hcs k hk
  rcases List.mem_or_eq_of_mem_set hcs with h | h
  · exact hv cs h k hk
  · rw [h] at hk; exact h' k hk

theorem symStep_keeps_valid (fuel i : Nat) (acc : Engine M × List (List Candle)) (sym : Nat) (hv : AllValid acc.2) :
    AllValid (symStep u fuel i acc sym).2 := by
  unfold symStep
  split
  · exact hv
  · split
    · exact hv
    · rename_i c hc
      apply set_valid _ hv
      intro k hk
      rcases List.mem_or_eq_of_mem_set hk with h | h
      · exact getD_valid _ hv sym k h
      · rw [h]; exact fixedRow_valid _ i c (getD_valid _ hv sym) hc

/-- the candle `symStep` hands to `simulateMinute` (and so to the matching loop) is valid -/
theorem minute_candle_valid (i : Nat) (ins : List (List Candle)) (sym : Nat) (c : Candle) (hv : AllValid ins)
    (h : fixedRow (ins.getD sym []) i = some c) : c.Valid :=
  fixedRow_valid _ i c (getD_valid _ hv sym) h

theorem fold_symStep_keeps_valid (fuel i : Nat) (syms : List Nat) (acc : Engine M × List (List Candle)) (hv : AllValid acc.2) :
    AllValid (syms.foldl (symStep u fuel i) acc).2 := by
  induction syms generalizing acc with
  | nil => exact hv
  | cons s ss ih => exact ih _ (symStep_keeps_valid u fuel i acc s hv)

theorem stepAt_keeps_valid (fuel : Nat) (ins : List (List Candle)) (e : Engine M) (i : Nat) (hv : AllValid ins) :
    AllValid (stepAt u fuel ins e i).2 := by
  unfold stepAt
  split
  · exact hv
  · exact fold_symStep_keeps_valid u fuel i _ _ hv

/-- VALID INPUT STAYS VALID over any number of iterations of the normal simulator: every minute candle of the run is
    valid, so the hypotheses of the matching theorems hold at every minute -/
theorem runStepN_keeps_valid (fuel : Nat) (ins : List (List Candle)) (e : Engine M) (n : Nat) (hv : AllValid ins) :
    AllValid (runStepN u fuel ins e n).2 := by
  unfold runStepN
  induction n with
  | zero => simpa using hv
  | succ n ih =>
    rw [List.range_succ, List.foldl_append]
    exact stepAt_keeps_valid u fuel _ _ n ih

theorem fixedFirst_valid (cs : List Candle) (i : Nat) (hv : ∀ k ∈ cs, k.Valid) : ∀ k ∈ fixedFirst cs i, k.Valid := by
  unfold fixedFirst
  split
  · cases h : fixedRow cs i with
    | none => simpa using hv
    | some c =>
      intro k hk
      simp only at hk
      rcases List.mem_or_eq_of_mem_set hk with h1 | h1
      · exact hv k h1
      · rw [h1]; exact fixedRow_valid cs i c hv h
  · exact hv

theorem symSkip_keeps_valid (fuel i step : Nat) (acc : Engine M × List (List Candle)) (sym : Nat) (hv : AllValid acc.2) :
    AllValid (symSkip u fuel i step acc sym).2 := by
  unfold symSkip
  split
  · exact hv
  · exact set_valid _ hv sym _ (fixedFirst_valid _ i (getD_valid _ hv sym))

theorem fold_symSkip_keeps_valid (fuel i step : Nat) (syms : List Nat) (acc : Engine M × List (List Candle)) (hv : AllValid acc.2) :
    AllValid (syms.foldl (symSkip u fuel i step) acc).2 := by
  induction syms generalizing acc with
  | nil => exact hv
  | cons s ss ih => exact ih _ (symSkip_keeps_valid u fuel i step acc s hv)

theorem skipAt_keeps_valid (fuel : Nat) (ins : List (List Candle)) (e : Engine M) (i step : Nat) (hv : AllValid ins) :
    AllValid (skipAt u fuel ins e i step).2 := by
  unfold skipAt
  split
  · exact hv
  · exact fold_symSkip_keeps_valid u fuel i step _ _ hv

/-- … and over any number of chunks of the fast simulator: the chunk handed to `simulateChunk` is a slice of valid rows
    (its first row jump-fixed), and each minute the chunk loop works on — `fixJump` of a valid row — is valid -/
theorem runSkipN_keeps_valid (fuel : Nat) (ins : List (List Candle)) (e : Engine M) (step k : Nat) (hv : AllValid ins) :
    AllValid (runSkipN u fuel ins e step k).2 := by
  unfold runSkipN
  induction k with
  | zero => simpa using hv
  | succ k ih =>
    rw [List.range_succ, List.foldl_append]
    exact skipAt_keeps_valid u fuel _ _ _ _ ih

/-- the minutes the fast simulator SORTS a chunk along (`path_candles`, model `fixChunk`) are as many as the chunk's and
    all valid — so `sorted_head_first_on_path` applies to them as it does to the single minute of the normal simulator -/
theorem fixChunk_valid (cs : List Candle) : ∀ (prev : Option Candle), (∀ k ∈ cs, k.Valid) →
    (fixChunk prev cs).length = cs.length ∧ ∀ k ∈ fixChunk prev cs, k.Valid := by
  induction cs with
  | nil => intro prev _; cases prev <;> simp [fixChunk]
  | cons c cs ih =>
    intro prev hv
    have hc : c.Valid := hv c List.mem_cons_self
    have hr := ih (some c) (fun k hk => hv k (List.mem_cons_of_mem _ hk))
    cases prev with
    | none =>
      simp only [fixChunk, List.length_cons, hr.1, true_and]
      intro k hk
      rcases List.mem_cons.mp hk with h | h
      · rw [h]; exact hc
      · exact hr.2 k h
    | some p =>
      simp only [fixChunk, List.length_cons, hr.1, true_and]
      intro k hk
      rcases List.mem_cons.mp hk with h | h
      · rw [h]; exact (C07.fix_jump_bounds p c hc).1
      · exact hr.2 k h

theorem chunk_minute_valid (prev : Option Candle) (c : Candle) (hc : c.Valid) :
    (match prev with | some p => fixJump p c | none => c).Valid := by
  cases prev with
  | none => exact hc
  | some p => exact (C07.fix_jump_bounds p c hc).1

end C02

namespace C02
open Jesse Jesse.Eng Jesse.Gen Jesse.Acc ComposeLemmas

/-! ### non-vacuity: a concrete minute with two resting buys on both sides of the open -/

/-- a strategy that never does anything -/
def idle : UserStrategy Unit :=
  { before := fun _ _ m => m, after := fun _ _ m => m, shouldLong := fun _ _ _ => false,
    shouldShort := fun _ _ _ => false, shouldCancelEntry := fun _ _ _ => false,
    goLong := fun _ _ m d => (m, d), goShort := fun _ _ m d => (m, d), updatePosition := fun _ _ m d => (m, d),
    onOpen := fun _ _ _ m d => (m, d), onIncreased := fun _ _ _ m d => (m, d), onReduced := fun _ _ _ m d => (m, d),
    onClose := fun _ _ _ m d => (m, d), beforeTerminate := fun _ _ m d => (m, d) }

/-- futures, one 1m route, a LIMIT buy at 97 and a STOP buy at 103 resting -/
def demoEngine : Engine Unit :=
  let e0 : Engine Unit := initEngine { routes := [⟨0, 1⟩], dataRoutes := [], nsym := 1, isolated := false } .futures 10000 0 1 ()
  let w1 := match Acc.submit e0.w 0 .buy .limit 1 97 false with | .ok w => w | .error (_, w) => w
  let w2 := match Acc.submit w1 0 .buy .stop 1 103 false with | .ok w => w | .error (_, w) => w
  { e0 with w := w2, via := [none, none], storage := [[0, 1]],
            strat := [{ mem := (), decl := { buy := some [(1, 97), (1, 103)] }, shadow := { buy := some [(1, 97), (1, 103)] } }] }

/-- the flat-bodied candle o = c = 100, h = 105, l = 95 (treated as rising: low first) -/
def demoCandle : Candle := ⟨60000, 100, 100, 105, 95, 1⟩

/-- both orders are inside the candle, the sort puts the LIMIT buy below the open first (rising path:
    low first), the matching loop ends without error, both orders are executed in that order and
    nothing is left inside the remaining candle -/
example : executingOrders demoEngine 0 demoCandle = [0, 1] := by decide +kernel
example : sortExecutionOrders demoEngine [0, 1] [demoCandle] = [0, 1] := by decide +kernel
example : (matchLoop idle 50 demoEngine 0 demoCandle (sel 0 demoEngine demoCandle) (sel 0) false).1.err = none := by
  decide +kernel
example : (matchLoop idle 50 demoEngine 0 demoCandle (sel 0 demoEngine demoCandle) (sel 0) false).1.w.orders.map (·.status)
    = [.executed, .executed] := by decide +kernel
example : (demoCandle.Valid) := by decide +kernel

/-! ### the former known finding C02-F5 (repaired in /repo by the `fix:` commit that hands the sort the jump-fixed minutes)

Before the repair the fast simulator sorted the candidates of a chunk along the RAW minutes and matched them on the
jump-fixed ones.  The witness: a 3m chunk whose second minute opens at 100.125 after a close of 100.375 and rises to
100.75; a buy LIMIT at 100.125 and a buy STOP at 100.5 rest.  The raw path of that minute starts AT the LIMIT's price,
so the old sort put the LIMIT first and the STOP — which the fixed path (from 100.375 up to 100.75, then down) reaches
first — was jumped over and left active inside the minute's range.  With the sort on the jump-fixed minutes
(`fixChunk`) both are filled. -/

/-- futures, one 3m route, a LIMIT buy at 100.125 and a STOP buy at 100.5 resting -/
def f5Engine : Engine Unit :=
  let e0 : Engine Unit := initEngine { routes := [⟨0, 3⟩], dataRoutes := [], nsym := 1, isolated := false } .futures 10000 0 1 ()
  let w1 := match Acc.submit e0.w 0 .buy .limit 1 (801/8) false with | .ok w => w | .error (_, w) => w
  let w2 := match Acc.submit w1 0 .buy .stop 1 (201/2) false with | .ok w => w | .error (_, w) => w
  { e0 with w := w2, via := [none, none], storage := [[0, 1]],
            strat := [{ mem := (), decl := { buy := some [(1, 801/8), (1, 201/2)] }, shadow := { buy := some [(1, 801/8), (1, 201/2)] } }] }

/-- minutes 18–20 of the witness session (o, c, h, l as the input gives them) -/
def f5Chunk : List Candle :=
  [⟨1080000, 803/8, 803/8, 803/8, 803/8, 1⟩, ⟨1140000, 801/8, 100, 403/4, 399/4, 1⟩, ⟨1200000, 100, 799/8, 100, 797/8, 1⟩]

/-- the second minute after the jump fix contains the STOP's price … -/
example : candleIncludesPrice (fixJump ⟨1080000, 803/8, 803/8, 803/8, 803/8, 1⟩ ⟨1140000, 801/8, 100, 403/4, 399/4, 1⟩) (201/2) := by
  decide +kernel

/-- … and the chunk now ends, without an error, with BOTH orders executed (regression witness of C02-F5) -/
theorem fast_chunk_fills_both_regression :
    (simulateChunk idle 50 f5Engine 0 f5Chunk).err = none ∧
    (simulateChunk idle 50 f5Engine 0 f5Chunk).w.orders.map (·.status) = [.executed, .executed] := by
  decide +kernel

end C02
