/-
  Proofs/C02.lean — resting orders fill exactly when and where the price reaches them
  (theorems over the matching part of the engine model).
-/
import Jesse.Engine

namespace C02
open Jesse Jesse.Eng

/-- placeholder (matching theorems follow) -/
theorem insertBy_nil (key : Nat → Rat) (d : Bool) (x : Nat) : insertBy key d x [] = [x] := rfl

end C02
