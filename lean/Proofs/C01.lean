/-
  Proofs/C01.lean — backtest decisions never depend on future candles (no look-ahead).
  Theorems over the engine model (Jesse/Engine.lean, tied to the real engine by whole-session trace
  correspondence).  The user strategy `u` is an ARBITRARY record of functions of the engine state, so
  "for every strategy" is a real universal quantifier; the engine state contains the complete trace
  (`log`), the candle store, the accounts and the strategies' memories, so equality of states is
  equality of everything observable.  PROPERTY THEOREMS ONLY (helpers in Proofs/Lemmas/Prefix.lean).
-/
import Proofs.Lemmas.Prefix

namespace C01
open Jesse Jesse.Eng PrefixLemmas

variable {M : Type} [Inhabited M] (u : UserStrategy M)

/-- per symbol: iteration `i` only reads rows `i-1` and `i` and the window ending at `i` -/
theorem symStep_prefix (fuel i n : Nat) (hi : i < n) (e : Engine M) (a b : List (List Candle)) (hab : Agree n a b)
    (sym : Nat) :
    (symStep u fuel i (e, a) sym).1 = (symStep u fuel i (e, b) sym).1 ∧
    Agree n (symStep u fuel i (e, a) sym).2 (symStep u fuel i (e, b) sym).2 := by
  unfold symStep
  by_cases herr : e.err.isSome
  · simp only [herr, if_true]; exact ⟨trivial, hab⟩
  · simp only [herr, Bool.false_eq_true, if_false]
    have hs := hab.2 sym
    rw [fixedRow_agree hs hi]
    cases hf : fixedRow (b.getD sym []) i with
    | none => exact ⟨rfl, hab⟩
    | some c =>
      simp only []
      have hset := set_take_agree (i := i) c hs
      refine ⟨?_, agree_set n a b sym _ _ hab hset⟩
      -- the generated windows: their bounds lie in [0, i+1]
      have hwin : ∀ tf : Nat, (i + 1) % tf = 0 →
          Py.slice ((a.getD sym []).set i c) (some ((i : Int) - ((tf : Int) - 1))) (some ((i : Int) + 1)) =
          Py.slice ((b.getD sym []).set i c) (some ((i : Int) - ((tf : Int) - 1))) (some ((i : Int) + 1)) := by
        intro tf htf
        have htf0 : tf ≠ 0 := by
          intro h0; subst h0; simp at htf
        have hle : tf ≤ i + 1 := Nat.le_of_dvd (by omega) (Nat.dvd_of_mod_eq_zero htf)
        have e1 : (i : Int) - ((tf : Int) - 1) = ((i + 1 - tf : Nat) : Int) := by omega
        have e2 : (i : Int) + 1 = ((i + 1 : Nat) : Int) := by omega
        rw [e1, e2]
        exact slice_agree _ _ (by omega) hset
      congr 1
      funext eacc tf
      by_cases htf : (i + 1) % tf = 0
      · simp only [htf, if_true]; rw [hwin tf htf]
      · simp only [htf, if_false]

theorem fold_symStep_prefix (fuel i n : Nat) (hi : i < n) (syms : List Nat) (e : Engine M) (a b : List (List Candle))
    (hab : Agree n a b) :
    (syms.foldl (symStep u fuel i) (e, a)).1 = (syms.foldl (symStep u fuel i) (e, b)).1 ∧
    Agree n (syms.foldl (symStep u fuel i) (e, a)).2 (syms.foldl (symStep u fuel i) (e, b)).2 := by
  induction syms generalizing e a b with
  | nil => exact ⟨rfl, hab⟩
  | cons s rest ih =>
    simp only [List.foldl_cons]
    obtain ⟨h1, h2⟩ := symStep_prefix u fuel i n hi e a b hab s
    have : symStep u fuel i (e, a) s = ((symStep u fuel i (e, b) s).1, (symStep u fuel i (e, a) s).2) := by
      rw [← h1]
    rw [this]
    exact ih _ _ _ h2

/-- ONE ITERATION of the normal simulator: if two inputs agree on their first `n` rows and `i < n`, iteration
    `i` produces the same engine state — same hook calls, submissions, cancels, fills, candle store,
    positions and balances — and the (in-place jump-fixed) inputs still agree on their first `n` rows. -/
theorem stepAt_prefix (fuel i n : Nat) (hi : i < n) (e : Engine M) (a b : List (List Candle)) (hab : Agree n a b) :
    (stepAt u fuel a e i).1 = (stepAt u fuel b e i).1 ∧ Agree n (stepAt u fuel a e i).2 (stepAt u fuel b e i).2 := by
  unfold stepAt
  by_cases herr : e.err.isSome
  · simp only [herr, if_true]; exact ⟨trivial, hab⟩
  · simp only [herr, Bool.false_eq_true, if_false]
    have hts : ((a.getD 0 [])[i]?) = ((b.getD 0 [])[i]?) := getElem?_of_take_eq (hab.2 0) hi
    rw [hts]
    obtain ⟨h1, h2⟩ := fold_symStep_prefix u fuel i n hi (List.range e.cfg.nsym)
      { e with time := ((((b.getD 0 [])[i]?).map (·.ts)).getD 0) + 60000 } a b hab
    exact ⟨by rw [h1], h2⟩

/-- NO LOOK-AHEAD, normal simulator: for every strategy, configuration and route set, if two candle inputs
    agree on the rows before the cut `n` (for every symbol), then after the first `n` iterations the two
    runs are in the same state: identical traces up to simulated time t, whatever follows the cut
    (other candles, a different number of candles). -/
theorem step_prefix (fuel n : Nat) (hn : 0 < n) (e : Engine M) (a b : List (List Candle)) (hab : Agree n a b) :
    (runStepN u fuel a e n).1 = (runStepN u fuel b e n).1 := by
  unfold runStepN
  have h0 : ((a.getD 0 [])[0]?) = ((b.getD 0 [])[0]?) := getElem?_of_take_eq (hab.2 0) hn
  rw [h0]
  -- iterate: the invariant is "same engine, inputs agree on the first n rows"
  have key : ∀ (k : Nat), k ≤ n → ∀ (e0 : Engine M) (x y : List (List Candle)), Agree n x y →
      ((List.range k).foldl (fun (acc : Engine M × List (List Candle)) i => stepAt u fuel acc.2 acc.1 i) (e0, x)).1 =
      ((List.range k).foldl (fun (acc : Engine M × List (List Candle)) i => stepAt u fuel acc.2 acc.1 i) (e0, y)).1 ∧
      Agree n ((List.range k).foldl (fun (acc : Engine M × List (List Candle)) i => stepAt u fuel acc.2 acc.1 i) (e0, x)).2
              ((List.range k).foldl (fun (acc : Engine M × List (List Candle)) i => stepAt u fuel acc.2 acc.1 i) (e0, y)).2 := by
    intro k
    induction k with
    | zero => intro _ e0 x y hxy; exact ⟨rfl, hxy⟩
    | succ k ih =>
      intro hk e0 x y hxy
      obtain ⟨h1, h2⟩ := ih (by omega) e0 x y hxy
      rw [List.range_succ, List.foldl_append, List.foldl_append]
      simp only [List.foldl_cons, List.foldl_nil]
      obtain ⟨g1, g2⟩ := stepAt_prefix u fuel k n (by omega)
        ((List.range k).foldl (fun (acc : Engine M × List (List Candle)) i => stepAt u fuel acc.2 acc.1 i) (e0, y)).1 _ _ h2
      rw [h1]
      exact ⟨g1, g2⟩
  exact (key n (Nat.le_refl n) _ a b hab).1

/-- the trace (log of every hook call, submission, cancellation, fill, equity sample) is part of the
    state, so in particular the two runs produced the same events so far -/
theorem step_prefix_trace (fuel n : Nat) (hn : 0 < n) (e : Engine M) (a b : List (List Candle)) (hab : Agree n a b) :
    (runStepN u fuel a e n).1.log = (runStepN u fuel b e n).1.log := by
  rw [step_prefix u fuel n hn e a b hab]

/-! ### the fast simulator -/

/-- per symbol: the chunk `[i, i+step)` only reads rows `i-1 … i+step-1` and windows ending at `i+step` -/
theorem symSkip_prefix (fuel i step n : Nat) (hi : i + step ≤ n) (hstep : 0 < step) (e : Engine M)
    (a b : List (List Candle)) (hab : Agree n a b) (sym : Nat) :
    (symSkip u fuel i step (e, a) sym).1 = (symSkip u fuel i step (e, b) sym).1 ∧
    Agree n (symSkip u fuel i step (e, a) sym).2 (symSkip u fuel i step (e, b) sym).2 := by
  unfold symSkip
  by_cases herr : e.err.isSome
  · simp only [herr, if_true]; exact ⟨trivial, hab⟩
  · simp only [herr, Bool.false_eq_true, if_false]
    have hs := hab.2 sym
    have hi' : i < n := by omega
    -- the jump-fixed arrays agree on the first n rows
    have hcs : (fixedFirst (a.getD sym []) i).take n = (fixedFirst (b.getD sym []) i).take n := by
      unfold fixedFirst
      by_cases h0 : i ≠ 0
      · rw [if_pos h0, if_pos h0, fixedRow_agree hs hi']
        cases fixedRow (b.getD sym []) i with
        | none => exact hs
        | some c => exact set_take_agree c hs
      · rw [if_neg h0, if_neg h0]; exact hs
    refine ⟨?_, agree_set n a b sym _ _ hab hcs⟩
    have e1 : (i : Int) + (step : Int) = ((i + step : Nat) : Int) := by omega
    have hchunk := slice_agree i (i + step) hi hcs
    rw [e1, hchunk]
    congr 1
    funext eacc tf
    by_cases htf : (i + step) % tf = 0
    · simp only [htf, if_true]
      have htf0 : tf ≠ 0 := by
        intro h0; subst h0; simp at htf; omega
      have hle : tf ≤ i + step := Nat.le_of_dvd (by omega) (Nat.dvd_of_mod_eq_zero htf)
      have e2 : (i : Int) - (tf : Int) + (step : Int) = ((i + step - tf : Nat) : Int) := by omega
      rw [e2, slice_agree (i + step - tf) (i + step) hi hcs]
    · simp only [htf, if_false]

theorem fold_symSkip_prefix (fuel i step n : Nat) (hi : i + step ≤ n) (hstep : 0 < step) (syms : List Nat)
    (e : Engine M) (a b : List (List Candle)) (hab : Agree n a b) :
    (syms.foldl (symSkip u fuel i step) (e, a)).1 = (syms.foldl (symSkip u fuel i step) (e, b)).1 ∧
    Agree n (syms.foldl (symSkip u fuel i step) (e, a)).2 (syms.foldl (symSkip u fuel i step) (e, b)).2 := by
  induction syms generalizing e a b with
  | nil => exact ⟨rfl, hab⟩
  | cons s rest ih =>
    simp only [List.foldl_cons]
    obtain ⟨h1, h2⟩ := symSkip_prefix u fuel i step n hi hstep e a b hab s
    have : symSkip u fuel i step (e, a) s = ((symSkip u fuel i step (e, b) s).1, (symSkip u fuel i step (e, a) s).2) := by
      rw [← h1]
    rw [this]
    exact ih _ _ _ h2

theorem skipAt_prefix (fuel i step n : Nat) (hi : i + step ≤ n) (hstep : 0 < step) (e : Engine M)
    (a b : List (List Candle)) (hab : Agree n a b) :
    (skipAt u fuel a e i step).1 = (skipAt u fuel b e i step).1 ∧
    Agree n (skipAt u fuel a e i step).2 (skipAt u fuel b e i step).2 := by
  unfold skipAt
  by_cases herr : e.err.isSome
  · simp only [herr, if_true]; exact ⟨trivial, hab⟩
  · simp only [herr, Bool.false_eq_true, if_false]
    obtain ⟨h1, h2⟩ := fold_symSkip_prefix u fuel i step n hi hstep (List.range e.cfg.nsym) e a b hab
    exact ⟨by rw [h1], h2⟩

/-- NO LOOK-AHEAD, fast simulator: if two inputs agree on the rows before the cut `n`, the cut lies on a
    chunk boundary (`n = k·step`; the chunk is the gcd of the route timeframes, so every trading-candle
    boundary is one) and both inputs have at least `n` rows, then after the first `k` chunks the two runs
    are in the same state (identical traces up to simulated time t). -/
theorem fast_prefix (fuel step k : Nat) (hstep : 0 < step) (hk : 0 < k) (e : Engine M) (a b : List (List Candle))
    (hab : Agree (k * step) a b)
    (hla : k * step ≤ (a.getD 0 []).length) (hlb : k * step ≤ (b.getD 0 []).length) :
    (runSkipN u fuel a e step k).1 = (runSkipN u fuel b e step k).1 := by
  unfold runSkipN
  have hn : 0 < k * step := Nat.mul_pos hk hstep
  have h0 : ((a.getD 0 [])[0]?) = ((b.getD 0 [])[0]?) := getElem?_of_take_eq (hab.2 0) hn
  rw [h0]
  have key : ∀ (m : Nat), m ≤ k → ∀ (e0 : Engine M) (x y : List (List Candle)), Agree (k * step) x y →
      ((List.range m).foldl (fun (acc : Engine M × List (List Candle)) j =>
          skipAt u fuel acc.2 acc.1 (j * step) (min step ((a.getD 0 []).length - j * step))) (e0, x)).1 =
      ((List.range m).foldl (fun (acc : Engine M × List (List Candle)) j =>
          skipAt u fuel acc.2 acc.1 (j * step) (min step ((b.getD 0 []).length - j * step))) (e0, y)).1 ∧
      Agree (k * step)
        ((List.range m).foldl (fun (acc : Engine M × List (List Candle)) j =>
          skipAt u fuel acc.2 acc.1 (j * step) (min step ((a.getD 0 []).length - j * step))) (e0, x)).2
        ((List.range m).foldl (fun (acc : Engine M × List (List Candle)) j =>
          skipAt u fuel acc.2 acc.1 (j * step) (min step ((b.getD 0 []).length - j * step))) (e0, y)).2 := by
    intro m
    induction m with
    | zero => intro _ e0 x y hxy; exact ⟨rfl, hxy⟩
    | succ m ih =>
      intro hm e0 x y hxy
      obtain ⟨h1, h2⟩ := ih (by omega) e0 x y hxy
      rw [List.range_succ, List.foldl_append, List.foldl_append]
      simp only [List.foldl_cons, List.foldl_nil]
      -- a complete chunk before the cut: both lengths allow the full step
      have hfull : (m + 1) * step ≤ k * step := Nat.mul_le_mul_right step hm
      have hms : m * step + step = (m + 1) * step := by rw [Nat.add_mul]; simp
      have ea : min step ((a.getD 0 []).length - m * step) = step := by omega
      have eb : min step ((b.getD 0 []).length - m * step) = step := by omega
      rw [ea, eb]
      obtain ⟨g1, g2⟩ := skipAt_prefix u fuel (m * step) step (k * step) (by omega) hstep
        ((List.range m).foldl (fun (acc : Engine M × List (List Candle)) j =>
          skipAt u fuel acc.2 acc.1 (j * step) (min step ((b.getD 0 []).length - j * step))) (e0, y)).1 _ _ h2
      rw [h1]
      exact ⟨g1, g2⟩
  exact (key k (Nat.le_refl k) _ a b hab).1

/-- non-vacuity of the hypotheses: two different inputs that agree on their first two rows -/
example : Agree 2 [[⟨0, 1, 1, 1, 1, 1⟩, ⟨60000, 1, 2, 2, 1, 1⟩, ⟨120000, 2, 3, 3, 2, 1⟩]]
                  [[⟨0, 1, 1, 1, 1, 1⟩, ⟨60000, 1, 2, 2, 1, 1⟩, ⟨120000, 9, 9, 9, 9, 9⟩, ⟨180000, 9, 9, 9, 9, 9⟩]] := by
  refine ⟨rfl, fun s => ?_⟩
  cases s with
  | zero => rfl
  | succ k => simp [List.getD]

end C01
