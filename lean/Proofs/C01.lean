/-
  Proofs/C01.lean — no look-ahead (theorems over the engine model; see below).
-/
import Jesse.Engine

namespace C01
open Jesse Jesse.Eng

/-- placeholder (the prefix theorems follow) -/
theorem gcdList_nil : gcdList [] = 0 := rfl

end C01
