/-
  Proofs/C08.lean — property theorems for C08 (pure part): `split_candle` as generated from the
  source is the cut of the continuous price path, hence valid, O/H/L/C-preserving and meeting at the
  split price.  PROPERTY THEOREMS ONLY.
-/
import Jesse.Gen.CandleSvc
import Spec.PathSplit

namespace C08
open Jesse Jesse.Gen Spec

/-- Full functional specification: for every valid candle and every price inside its range other
    than the open, the code's `split_candle` is exactly the cut of the canonical path. -/
theorem split_is_path_split (k : Candle) (p : Rat) (hv : k.Valid) (hl : k.l ≤ p) (hh : p ≤ k.h)
    (hne : p ≠ k.o) : splitCandle k p = some (pathSplit k p) := by
  obtain ⟨h1, h2, h3, h4⟩ := hv
  unfold splitCandle
  repeat' (refine ite_elim (fun r => r = some (pathSplit k p)) _ _ _ (fun hc => ?_) (fun hc => ?_))
  all_goals (simp only [isBullish, isBearish, pathSplit] at *; grind)

/-- At the open the candle is not split (both parts are the candle itself). -/
theorem split_at_open (k : Candle) : splitCandle k k.o = some (k, k) := by
  unfold splitCandle
  simp only [isBullish, isBearish]
  grind

/-- The clauses of C08 for the pure split: the result exists, both parts are valid candles, the
    original open/close/high/low are kept and — for any price other than the open — the parts meet
    at the split price. -/
theorem split_valid (k : Candle) (p : Rat) (hv : k.Valid) (hl : k.l ≤ p) (hh : p ≤ k.h) :
    ∃ a b, splitCandle k p = some (a, b) ∧ SplitOK k p a b := by
  by_cases hne : p = k.o
  · subst hne
    refine ⟨k, k, split_at_open k, ?_⟩
    obtain ⟨h1, h2, h3, h4⟩ := hv
    constructor <;> simp_all [Candle.Valid]
  · refine ⟨(pathSplit k p).1, (pathSplit k p).2, split_is_path_split k p hv hl hh hne, ?_⟩
    obtain ⟨h1, h2, h3, h4⟩ := hv
    unfold pathSplit
    constructor <;> (try simp only [Candle.Valid]) <;> grind

/-- `split_candle` is total on its domain: it returns `None` only outside the candle's range. -/
theorem split_total_iff (k : Candle) (p : Rat) (hv : k.Valid) :
    (splitCandle k p).isSome ↔ (candleIncludesPrice k p ∨ p = k.o) := by
  obtain ⟨h1, h2, h3, h4⟩ := hv
  unfold splitCandle candleIncludesPrice
  repeat' (refine ite_elim (fun r => (Option.isSome r = true) ↔ _) _ _ _ (fun hc => ?_) (fun hc => ?_))
  all_goals (simp only [isBullish, isBearish] at *; grind)

/-- non-vacuity: a concrete rising candle split strictly inside its body -/
example : splitCandle ⟨0, 10, 12, 13, 9, 5⟩ 11 = some (⟨0, 10, 11, 11, 9, 5⟩, ⟨0, 11, 12, 13, 11, 5⟩) := by
  decide +kernel

example : (⟨0, 10, 12, 13, 9, 5⟩ : Candle).Valid ∧ (9:Rat) ≤ 11 ∧ (11:Rat) ≤ 13 ∧ (11:Rat) ≠ 10 := by
  decide +kernel

end C08
