/-
  Proofs/C16.lean — reported metrics are consistent with the trades and the equity series.
  Theorems over the model of `metrics.trades`, of the daily-return helpers and of the equity sampling
  (Jesse/Metrics.lean, tied to the real code by correspondence on every run), for ALL trade lists /
  balance series / session lengths.  PROPERTY THEOREMS ONLY (helpers in Proofs/Lemmas/Metrics.lean).

  Where the unchanged code does not satisfy a clause (now only the sample count of the fast
  simulator with multi-day chunks), the full statement is kept in the doc comment, the `…_partial`
  version carries the exact extra hypothesis, another one states what the code computes instead, and
  `…_fails` proves the negation on a concrete witness (`decide +kernel`).  The drawdown, Calmar,
  Sortino and spot-sample clauses hold at full strength since the repairs 5df2a81f, 8600f13b, 34cd8255
  (their former counter-witnesses are kept as regression `example`s).
-/
import Proofs.Lemmas.Metrics

namespace C16
open Jesse Jesse.Metrics Spec.Metrics

/-! ## counts -/

/-- total = winners + losers + break-even trades -/
theorem total_partition (sb : Rat) (ts : List Trade) :
    (report sb ts).total = (report sb ts).totalWinning + (report sb ts).totalLosing + (breakEven ts).length :=
  count_partition ts

/-- win rate = winners / (winners + losers) whenever there is a decided trade … -/
theorem win_rate (sb : Rat) (ts : List Trade) (_h : totalWinning ts + totalLosing ts ≠ 0) :
    (report sb ts).winRate = (totalWinning ts : Rat) / ((totalWinning ts : Rat) + (totalLosing ts : Rat)) := by
  show winRate ts = _
  unfold winRate totalWinning totalLosing at *
  split
  · rename_i h0; rw [h0]; simp
  · rw [add_comm]
example : ∃ ts, totalWinning ts + totalLosing ts ≠ 0 := ⟨[⟨1, .long, 0, 0⟩], by decide +kernel⟩

/-- … and 0 (the code's guard) when every trade broke even -/
theorem win_rate_guard (sb : Rat) (ts : List Trade) (h : totalWinning ts + totalLosing ts = 0) :
    (report sb ts).winRate = 0 := by
  show winRate ts = 0
  unfold winRate; unfold totalWinning at h
  rw [if_pos (by omega)]
example : ∃ ts : List Trade, ts ≠ [] ∧ totalWinning ts + totalLosing ts = 0 :=
  ⟨[⟨0, .long, 0, 0⟩], by simp, by decide +kernel⟩

/-- long and short counts sum to the total -/
theorem long_short_sum (sb : Rat) (ts : List Trade) :
    (report sb ts).longsCount + (report sb ts).shortsCount = (report sb ts).total :=
  (longs_shorts_partition ts).symm

/-- the two percentages are the shares of the total and sum to 100 -/
theorem percentages_sum_100 (sb : Rat) (ts : List Trade) (h : ts ≠ []) :
    (report sb ts).longsPercentage + (report sb ts).shortsPercentage = 100
    ∧ (report sb ts).longsPercentage = (longsCount ts : Rat) / (total ts : Rat) * 100
    ∧ (report sb ts).shortsPercentage = (shortsCount ts : Rat) / (total ts : Rat) * 100 := by
  show longsPercentage ts + shortsPercentage ts = 100 ∧ longsPercentage ts = _ ∧ shortsPercentage ts = _
  have hp := longs_shorts_partition ts
  have ht : (total ts : Rat) = (longsCount ts : Rat) + (shortsCount ts : Rat) := by
    unfold total longsCount shortsCount; exact_mod_cast hp
  have hpos : (0 : Rat) < (total ts : Rat) := by
    have : 0 < ts.length := List.length_pos_iff.mpr h
    unfold total; exact_mod_cast this
  unfold shortsPercentage longsPercentage
  rw [← ht]
  refine ⟨by ring, rfl, ?_⟩
  have hs : (shortsCount ts : Rat) = (total ts : Rat) - (longsCount ts : Rat) := by rw [ht]; ring
  rw [hs]
  field_simp
example : ∃ ts : List Trade, ts ≠ [] := ⟨[⟨1, .long, 0, 0⟩], by simp⟩

/-! ## sums -/

/-- net profit = Σ trade PnL = gross profit + gross loss -/
theorem net_is_sum_is_gross (sb : Rat) (ts : List Trade) :
    (report sb ts).netProfit = Spec.Metrics.sum (pnls ts)
    ∧ (report sb ts).netProfit = (report sb ts).grossProfit + (report sb ts).grossLoss :=
  ⟨sumR_eq_spec _, sum_split ts⟩

/-- net profit percentage = net profit / starting balance × 100 -/
theorem net_percentage (sb : Rat) (ts : List Trade) :
    (report sb ts).netProfitPercentage = (report sb ts).netProfit / sb * 100 := rfl

/-- fee = Σ trade fees -/
theorem fee_sum (sb : Rat) (ts : List Trade) : (report sb ts).fee = Spec.Metrics.sum (fees ts) :=
  sumR_eq_spec _

/-! ## largest / average win and loss, expectancy -/

/-- largest winning trade = the greatest PnL among the winners (0 without winners);
    largest losing trade = the least PnL among the losers (0 without losers) -/
theorem largest_win_loss (sb : Rat) (ts : List Trade) :
    (totalWinning ts ≠ 0 → IsGreatest (report sb ts).largestWinningTrade (pnls (winners ts)))
    ∧ (totalWinning ts = 0 → (report sb ts).largestWinningTrade = 0)
    ∧ (totalLosing ts ≠ 0 → IsLeast (report sb ts).largestLosingTrade (pnls (losers ts)))
    ∧ (totalLosing ts = 0 → (report sb ts).largestLosingTrade = 0) := by
  show (_ → IsGreatest (largestWinningTrade ts) _) ∧ (_ → largestWinningTrade ts = 0)
    ∧ (_ → IsLeast (largestLosingTrade ts) _) ∧ (_ → largestLosingTrade ts = 0)
  refine ⟨?_, ?_, ?_, ?_⟩
  · intro h
    have hne : pnls (winners ts) ≠ [] := by
      intro h0; apply h; unfold totalWinning; rw [← pnls_length, h0]; rfl
    obtain ⟨v, hv, hg⟩ := colMax_isGreatest _ hne
    unfold largestWinningTrade; rw [if_neg h, hv]; exact hg
  · intro h; unfold largestWinningTrade; rw [if_pos h]
  · intro h
    have hne : pnls (losers ts) ≠ [] := by
      intro h0; apply h; unfold totalLosing; rw [← pnls_length, h0]; rfl
    obtain ⟨v, hv, hg⟩ := colMin_isLeast _ hne
    unfold largestLosingTrade; rw [if_neg h, hv]; exact hg
  · intro h; unfold largestLosingTrade; rw [if_pos h]

/-- average win = gross profit / winners, average loss = |gross loss| / losers (NaN without any) -/
theorem average_win_loss (sb : Rat) (ts : List Trade) :
    (report sb ts).averageWin
      = (if totalWinning ts = 0 then none else some ((report sb ts).grossProfit / (totalWinning ts : Rat)))
    ∧ (report sb ts).averageLoss
      = (if totalLosing ts = 0 then none else some (-(report sb ts).grossLoss / (totalLosing ts : Rat))) := by
  show averageWin ts = _ ∧ averageLoss ts = _
  unfold totalWinning totalLosing
  constructor
  · split
    · exact averageWin_none ts ‹_›
    · exact averageWin_eq ts ‹_›
  · split
    · exact averageLoss_none ts ‹_›
    · exact averageLoss_eq ts ‹_›

/-- expectancy = average win × win rate − average loss × (1 − win rate) (absent averages read as 0),
    and expectancy × (winners + losers) = net profit: it is the mean PnL of the decided trades -/
theorem expectancy_identity (sb : Rat) (ts : List Trade) :
    (report sb ts).expectancy
      = ((report sb ts).averageWin).getD 0 * (report sb ts).winRate
        - ((report sb ts).averageLoss).getD 0 * (1 - (report sb ts).winRate)
    ∧ (report sb ts).expectancy * ((totalWinning ts : Rat) + (totalLosing ts : Rat)) = (report sb ts).netProfit
    ∧ (report sb ts).expectancyPercentage = (report sb ts).expectancy / sb * 100 := by
  refine ⟨rfl, ?_, rfl⟩
  show expectancy ts * _ = netProfit ts
  unfold netProfit
  rw [sum_split ts]
  exact expectancy_mul ts

/-- the three clauses together, as one statement (largest and average win/loss and expectancy follow
    from the PnL sequence) -/
theorem largest_avg_expectancy (sb : Rat) (ts : List Trade) :
    ((totalWinning ts ≠ 0 → IsGreatest (report sb ts).largestWinningTrade (pnls (winners ts)))
      ∧ (totalWinning ts = 0 → (report sb ts).largestWinningTrade = 0)
      ∧ (totalLosing ts ≠ 0 → IsLeast (report sb ts).largestLosingTrade (pnls (losers ts)))
      ∧ (totalLosing ts = 0 → (report sb ts).largestLosingTrade = 0))
    ∧ ((report sb ts).averageWin
        = (if totalWinning ts = 0 then none else some ((report sb ts).grossProfit / (totalWinning ts : Rat)))
      ∧ (report sb ts).averageLoss
        = (if totalLosing ts = 0 then none else some (-(report sb ts).grossLoss / (totalLosing ts : Rat))))
    ∧ (report sb ts).expectancy * ((totalWinning ts : Rat) + (totalLosing ts : Rat)) = (report sb ts).netProfit :=
  ⟨largest_win_loss sb ts, average_win_loss sb ts, (expectancy_identity sb ts).2.1⟩

/-- average holding period = Σ holding periods / total -/
theorem average_holding (sb : Rat) (ts : List Trade) (h : ts ≠ []) :
    (report sb ts).averageHoldingPeriod = some (Spec.Metrics.sum (holdings ts) / (total ts : Rat)) := by
  show averageHoldingPeriod ts = _
  unfold averageHoldingPeriod total
  have hne : holdings ts ≠ [] := by unfold holdings; simpa using h
  rw [meanR_of_ne_nil _ hne, sumR_eq_spec]
  simp [holdings]
example : ∃ ts : List Trade, ts ≠ [] := ⟨[⟨1, .long, 0, 60⟩], by simp⟩

/-! ## streaks -/

/-- the vectorised NumPy formula (clip / astype(bool) / cumsum / maximum.accumulate / where) gives
    the longest run of wins, the longest run of losses and the signed current run of the PnL
    sequence, zero-PnL trades breaking runs — for every trade list -/
theorem streaks_are_run_lengths (sb : Rat) (ts : List Trade) :
    (report sb ts).winningStreak = (longestWinRun (pnls ts) : Int)
    ∧ (report sb ts).losingStreak = (longestLoseRun (pnls ts) : Int)
    ∧ (report sb ts).currentStreak = signedCurrentRun (pnls ts) := by
  show winningStreak (pnls ts) = _ ∧ losingStreak (pnls ts) = _ ∧ currentStreak (pnls ts) = _
  unfold winningStreak losingStreak currentStreak longestWinRun longestLoseRun
  rw [currentStreakArr_eq_runs]
  exact ⟨winning_eq _, losing_eq _, current_eq _⟩

/-! ## maximum drawdown -/

/-- for every series of positive daily balances with at least two entries, `max_drawdown` is the
    standard maximum drawdown of the series, the starting balance being its first point
    (`min_t equity_t / max_{s ≤ t} equity_s − 1`, in percent) -/
theorem max_drawdown_is_standard (b0 b1 : Rat) (bs : List Rat)
    (h0 : 0 < b0) (h1 : 0 < b1) (hs : ∀ x ∈ bs, 0 < x) :
    maxDrawdownPct (b0 :: b1 :: bs) = (Spec.Metrics.maxDrawdown (b0 :: b1 :: bs)).map (· * 100) := by
  unfold maxDrawdownPct
  rw [if_neg (by simp)]
  rw [maxDrawdown_pctChange b0 (b1 :: bs) h0 (by
    intro x hx; rcases List.mem_cons.mp hx with hx | hx
    · rw [hx]; exact ne_of_gt h1
    · exact ne_of_gt (hs x hx))]
example : (0:Rat) < 100 ∧ (0:Rat) < 90 ∧ (∀ x ∈ [(95:Rat)], 0 < x) := by
  refine ⟨by decide +kernel, by decide +kernel, ?_⟩
  intro x hx; simp at hx; rw [hx]; decide +kernel
/-- regression witness of the repaired defect: balances 100, 90, 95 report −10 % -/
example : decide (maxDrawdownPct [100, 90, 95] = some (-10)) = true := by decide +kernel

/-- the drawdown in the denominator of `calmar_ratio` is the absolute value of the same standard
    drawdown (as a fraction) -/
theorem calmar_drawdown_is_standard (b0 : Rat) (bs : List Rat) (h0 : 0 < b0) (hs : ∀ x ∈ bs, 0 < x) :
    calmarDrawdown (pctChange (b0 :: bs)) = (Spec.Metrics.maxDrawdown (b0 :: bs)).map absR :=
  calmarDrawdown_pctChange b0 bs h0 (fun x hx => ne_of_gt (hs x hx))
example : (0:Rat) < 100 ∧ (∀ x ∈ [(90:Rat)], 0 < x) := by
  refine ⟨by decide +kernel, ?_⟩
  intro x hx; simp at hx; rw [hx]; decide +kernel

/-- maximum drawdown is never positive (positive equity) -/
theorem max_drawdown_nonpositive (b0 b1 : Rat) (bs : List Rat)
    (h0 : 0 < b0) (h1 : 0 < b1) (hs : ∀ x ∈ bs, 0 < x) :
    ∃ d, maxDrawdownPct (b0 :: b1 :: bs) = some d ∧ d ≤ 0 := by
  rw [max_drawdown_is_standard b0 b1 bs h0 h1 hs]
  obtain ⟨d, hd, hle⟩ := spec_maxDrawdown_nonpos b0 (b1 :: bs) (ne_of_gt h0)
  rw [hd]
  exact ⟨d * 100, rfl, by linarith⟩
example : (0:Rat) < 100 ∧ (0:Rat) < 90 ∧ (∀ x ∈ [(95:Rat)], 0 < x) := by
  refine ⟨by decide +kernel, by decide +kernel, ?_⟩
  intro x hx; simp at hx; rw [hx]; decide +kernel

/-! ## the ratio helpers on the daily equity returns -/

/-- the non-NaN rows of `pct_change` are the simple daily returns; mean and sample variance (Sharpe),
    gains over losses (Omega), the growth factor and the year fraction (annual return, Calmar) are the
    standard ones: `N` returns of `N + 1` balances span `N / 365` years -/
theorem ratios_match_spec (b0 b1 : Rat) (bs : List Rat) (h0 : b0 ≠ 0) (h1 : b1 ≠ 0) (hs : ∀ x ∈ bs, x ≠ 0) :
    validReturns (pctChange (b0 :: b1 :: bs)) = Spec.Metrics.returns (b0 :: b1 :: bs)
    ∧ retMean (pctChange (b0 :: b1 :: bs)) = some (Spec.Metrics.mean (Spec.Metrics.returns (b0 :: b1 :: bs)))
    ∧ (bs ≠ [] → retVar (pctChange (b0 :: b1 :: bs))
          = some (Spec.Metrics.variance (Spec.Metrics.returns (b0 :: b1 :: bs))))
    ∧ Jesse.Metrics.omega (pctChange (b0 :: b1 :: bs)) = Spec.Metrics.omega (Spec.Metrics.returns (b0 :: b1 :: bs))
    ∧ growth (pctChange (b0 :: b1 :: bs)) = (b1 :: bs).getLastD b0 / b0
    ∧ years (pctChange (b0 :: b1 :: bs)) = ((Spec.Metrics.returns (b0 :: b1 :: bs)).length : Rat) / 365 := by
  have hv := validReturns_pctChange (b0 :: b1 :: bs)
  have hlen : (Spec.Metrics.returns (b0 :: b1 :: bs)).length = bs.length + 1 := by
    rw [returns_length]; rfl
  have hne : Spec.Metrics.returns (b0 :: b1 :: bs) ≠ [] := by
    intro h; rw [h] at hlen; simp at hlen
  refine ⟨hv, ?_, ?_, ?_, ?_, ?_⟩
  · unfold retMean; rw [hv, meanR_of_ne_nil _ hne, sumR_eq_spec]; rfl
  · intro hb
    have : ¬ (Spec.Metrics.returns (b0 :: b1 :: bs)).length < 2 := by
      rw [hlen]; have := List.length_pos_iff.mpr hb; omega
    unfold retVar; rw [hv, if_neg this, sqDevSum_eq, sumR_eq_spec]; rfl
  · unfold Jesse.Metrics.omega Spec.Metrics.omega; rw [hv, negSum_eq, posSum_eq]
  · unfold growth; rw [hv]
    exact prodPlusOne_returns (b1 :: bs) b0 h0 (by
      intro x hx; rcases List.mem_cons.mp hx with hx | hx
      · rw [hx]; exact h1
      · exact hs x hx)
  · unfold years; rw [pctChange_length, hlen]; simp
example : (100:Rat) ≠ 0 ∧ (90:Rat) ≠ 0 ∧ (∀ x ∈ [(95:Rat)], x ≠ 0) ∧ [(95:Rat)] ≠ [] := by
  refine ⟨by decide +kernel, by decide +kernel, ?_, by simp⟩
  intro x hx; simp at hx; rw [hx]; decide +kernel

/-- the downside deviation of Sortino is the root of the downside mean square over the `N` daily
    returns (target 0): `Σ_{r<0} r² / N` — for every balance series -/
theorem sortino_downside (bal : List Rat) :
    downsideSq (pctChange bal) = Spec.Metrics.downsideMeanSq (Spec.Metrics.returns bal) := by
  unfold downsideSq Spec.Metrics.downsideMeanSq
  rw [validReturns_pctChange, negSqSum_eq]
/-- regression witness of the repaired defect: balances 100, 90, 95 give 1/200 (not 1/300) -/
example : decide (downsideSq (pctChange [100, 90, 95]) = 1 / 200) = true := by decide +kernel

/-! ## the equity series: how many samples -/

/-- step simulator: one sample per simulated day plus the final one, for every session length -/
theorem equity_sample_count (n : Nat) : stepSampleCount n = expectedSamples n := by
  unfold stepSampleCount expectedSamples
  rw [stepSampleIdx_length]

/-- FULL STATEMENT (not satisfied by the unchanged code): the fast simulator records the same number
    of samples for every chunk size `c > 0`: `fastSampleCount n c = expectedSamples n`.
    The loop variable advances by `c` and a sample needs `i % 1440 == 0`.
    Exact extra hypothesis among the chunk sizes the code can produce: the chunk divides a day
    (every gcd of route timeframes that contains one of 1m … 1D). -/
theorem equity_sample_count_fast_partial (n c : Nat) (hc : c ∣ 1440) :
    fastSampleCount n c = expectedSamples n := by
  unfold fastSampleCount expectedSamples
  rw [fastSampleIdx_length_of_dvd n c hc]
example : (5 : Nat) ∣ 1440 := by decide

/-- what the code computes when every route is 3D / 1W / 1M (the chunk is a whole number of days):
    one sample per CHUNK plus the final one -/
theorem equity_sample_count_fast_multiday (n c : Nat) (hc0 : 0 < c) (hc : 1440 ∣ c) :
    fastSampleCount n c = 1 + (n - 1) / c + 1 := by
  unfold fastSampleCount
  rw [fastSampleIdx_length_of_mul n c hc0 hc]
example : 0 < 4320 ∧ 1440 ∣ 4320 := by decide

/-- every chunk the code can produce (the gcd of the timeframes of a non-empty route list) falls in
    one of the two cases above: the count is the expected one exactly when the chunk divides a day,
    and one per chunk otherwise -/
theorem equity_sample_count_fast_all_routes (n : Nat) (tfs : List Timeframe) (h : tfs ≠ []) :
    fastSampleCount n (chunkOf tfs)
      = if chunkOf tfs ∣ 1440 then expectedSamples n else 1 + (n - 1) / chunkOf tfs + 1 := by
  obtain ⟨hpos, hd | hd⟩ := chunkOf_day tfs h
  · rw [if_pos hd]; exact equity_sample_count_fast_partial n _ hd
  · by_cases h2 : chunkOf tfs ∣ 1440
    · rw [if_pos h2]; exact equity_sample_count_fast_partial n _ h2
    · rw [if_neg h2]; exact equity_sample_count_fast_multiday n _ hpos hd
example : ([Timeframe.m5, Timeframe.h1] : List Timeframe) ≠ [] := by simp

/-- the negation of the full statement on a witness: a six-day session in 3D chunks records 3 samples,
    the step simulator 7 -/
theorem equity_sample_count_fast_fails :
    decide (fastSampleCount 8640 4320 = 3 ∧ expectedSamples 8640 = 7 ∧ stepSampleCount 8640 = 7) = true := by
  decide +kernel

/-! ## the equity series: what one sample records -/

/-- futures: a sample is the wallet balance plus the unrealised PnL of every open position, for any
    number and order of routes -/
theorem equity_sample_value_futures (wallet : Rat) (ps : List FutPos) :
    futuresSample wallet ps = futuresEquity wallet ((ps.filter (·.isOpen)).map (·.pnl)) := by
  unfold futuresEquity
  exact futuresSample_eq ps wallet

/-- spot: a sample is free quote + quote reserved by the resting buy orders + market value of the
    held base over ALL routes, whatever their number -/
theorem equity_sample_value_spot (free : Rat) (routes : List SpotRoute) (h : routes ≠ []) :
    spotSample free routes
      = spotEquity free (routes.map (·.reservedQuote)) (routes.map (·.positionValue)) := by
  cases routes with
  | nil => exact absurd rfl h
  | cons r rest =>
    show (reservedTotal (r :: rest) + positionsValue (r :: rest)) * 1 + free = _
    unfold spotEquity
    rw [positionsValue_eq, reservedTotal_eq]
    ring
example : ([⟨281/2, 0⟩, ⟨1605/4, 0⟩] : List SpotRoute) ≠ [] := by simp
/-- regression witness of the repaired defect: two routes with resting buys of 140.5 and 401.25 quote
    and 9458.25 free quote sample 10000 -/
example : decide (spotSample (37833/4) [⟨281/2, 0⟩, ⟨1605/4, 0⟩] = 10000) = true := by decide +kernel

/-- … and whatever their order: a sample is invariant under every permutation of the routes
    (spot) / of the positions (futures) -/
theorem equity_sample_order_independent (balance : Rat) :
    (∀ r₁ r₂ : List SpotRoute, r₁.Perm r₂ → spotSample balance r₁ = spotSample balance r₂)
    ∧ (∀ p₁ p₂ : List FutPos, p₁.Perm p₂ → futuresSample balance p₁ = futuresSample balance p₂) := by
  constructor
  · intro r₁ r₂ hp
    cases r₁ with
    | nil =>
      have : r₂ = [] := List.length_eq_zero_iff.mp (by rw [← hp.length_eq]; rfl)
      rw [this]
    | cons a as =>
      have hne : r₂ ≠ [] := by
        intro h0; have := hp.length_eq; rw [h0] at this; simp at this
      rw [equity_sample_value_spot balance (a :: as) (by simp), equity_sample_value_spot balance r₂ hne]
      unfold spotEquity
      rw [sum_perm (hp.map (·.reservedQuote)), sum_perm (hp.map (·.positionValue))]
  · intro p₁ p₂ hp
    rw [futuresSample_eq, futuresSample_eq]
    rw [sum_perm ((hp.filter (·.isOpen)).map (·.pnl))]
example : ([⟨1, 2⟩, ⟨3, 4⟩] : List SpotRoute).Perm [⟨3, 4⟩, ⟨1, 2⟩] := List.Perm.swap _ _ _

/-- the series starts at the starting balance and ends at the final portfolio value: with every
    position closed and nothing reserved (a fresh account; an account after `_terminate`) a sample is
    exactly the wallet / free quote balance -/
theorem equity_endpoints (balance : Rat) :
    (∀ ps : List FutPos, (∀ p ∈ ps, p.isOpen = false) → futuresSample balance ps = balance)
    ∧ (∀ (r : SpotRoute) (rest : List SpotRoute),
        (∀ x ∈ r :: rest, x.reservedQuote = 0 ∧ x.positionValue = 0) → spotSample balance (r :: rest) = balance) := by
  constructor
  · intro ps h
    rw [futuresSample_eq]
    have : ps.filter (·.isOpen) = [] := by
      rw [List.filter_eq_nil_iff]; intro p hp; simp [h p hp]
    rw [this]; simp [Spec.Metrics.sum]
  · intro r rest h
    have zero : ∀ (f : SpotRoute → Rat) (l : List SpotRoute), (∀ x ∈ l, f x = 0) →
        Spec.Metrics.sum (l.map f) = 0 := by
      intro f l hl
      induction l with
      | nil => rfl
      | cons y ys ih =>
        simp only [List.map_cons, Spec.Metrics.sum, hl y List.mem_cons_self,
          ih (fun x hx => hl x (List.mem_cons_of_mem _ hx))]; ring
    rw [equity_sample_value_spot balance (r :: rest) (by simp)]
    unfold spotEquity
    rw [zero (·.reservedQuote) _ (fun x hx => (h x hx).1), zero (·.positionValue) _ (fun x hx => (h x hx).2)]
    ring

end C16
