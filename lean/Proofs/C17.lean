/-
  Proofs/C17.lean — sizing and numeric helpers never overspend, over-risk or round up.
  All statements are about the definitions GENERATED from jesse/utils.py and jesse/helpers.py,
  over exact rationals.  PROPERTY THEOREMS ONLY (helpers in Proofs/Lemmas/Num.lean).
-/
import Jesse.Gen.Utils
import Jesse.Gen.Helpers
import Jesse.Gen.Tables
import Proofs.Lemmas.Num

namespace C17
open Jesse Jesse.Gen

/-- the size after the code's fee haircut (3 × fee_rate), as `size_to_qty` applies it -/
def haircut (size fee : Rat) : Rat := if fee ≠ 0 then size * (1 - fee * 3) else size

/-- Full functional specification of `size_to_qty`: never raises (on numbers) and returns the
    floor, at `precision` decimals, of the haircut size divided by the price. -/
theorem size_to_qty_spec (size price fee : Rat) (p : Int) :
    sizeToQty size price p fee = .ok (floorR (haircut size fee / price * pow10 p) / pow10 p) := by
  unfold sizeToQty floorWithPrecision haircut
  rfl

/-- A quantity from `size_to_qty` never costs more than the capital, fees included. -/
theorem size_to_qty_cost_le_capital (size price fee : Rat) (p : Int)
    (hs : 0 ≤ size) (hp : 0 < price) (hf0 : 0 ≤ fee) :
    ∃ q, sizeToQty size price p fee = .ok q ∧ q * price * (1 + fee) ≤ size := by
  refine ⟨_, size_to_qty_spec size price fee p, ?_⟩
  have hq : floorR (haircut size fee / price * pow10 p) / pow10 p ≤ haircut size fee / price :=
    floor_scaled_le _ _ (pow10_pos p)
  have hqp : floorR (haircut size fee / price * pow10 p) / pow10 p * price ≤ haircut size fee := by
    have := mul_le_mul_of_nonneg_right hq (le_of_lt hp)
    rwa [div_mul_cancel₀ _ (ne_of_gt hp)] at this
  have h1f : 0 ≤ 1 + fee := by linarith
  have hh : haircut size fee * (1 + fee) ≤ size := by
    unfold haircut
    split
    · have : size * (1 - fee * 3) * (1 + fee) = size - size * (2 * fee + 3 * fee * fee) := by ring
      rw [this]
      have : 0 ≤ size * (2 * fee + 3 * fee * fee) := by positivity
      linarith
    · have hz : fee = 0 := by simpa using ‹¬ fee ≠ 0›
      rw [hz]; linarith
  calc _ = (floorR (haircut size fee / price * pow10 p) / pow10 p * price) * (1 + fee) := by ring
    _ ≤ haircut size fee * (1 + fee) := mul_le_mul_of_nonneg_right hqp h1f
    _ ≤ size := hh

/-- … and it is at most one precision step below the exact quotient (after the haircut). -/
theorem size_to_qty_within_one_step (size price fee : Rat) (p : Int) :
    ∃ q, sizeToQty size price p fee = .ok q ∧
      haircut size fee / price - 1 / pow10 p < q ∧ q ≤ haircut size fee / price :=
  ⟨_, size_to_qty_spec size price fee p, lt_floor_scaled_add _ _ (pow10_pos p), floor_scaled_le _ _ (pow10_pos p)⟩

/-- `risk_to_size` never exceeds the capital and, for a positive risk per unit, never sizes a
    position whose loss at the stop exceeds the requested percentage of capital. -/
theorem risk_to_size_spec (capital riskPct riskPerQty entry : Rat) (hr : riskPerQty ≠ 0) :
    riskToSize capital riskPct riskPerQty entry =
      .ok (minR (riskPct / 100 * capital / riskPerQty * entry) capital) := by
  unfold riskToSize
  simp [hr]

/-- `risk_to_qty`: the quantity, bought at `entry` and stopped out at `stop`, loses at most
    `riskPct` percent of the capital, and costs no more than the capital (fees included). -/
theorem risk_to_qty_risk_le (capital riskPct entry stop fee : Rat) (p : Int)
    (hc : 0 ≤ capital) (hrp : 0 ≤ riskPct) (he : 0 < entry) (hne : entry ≠ stop)
    (hf0 : 0 ≤ fee) (hf1 : fee ≤ 1 / 3) :
    ∃ q, riskToQty capital riskPct entry stop p fee = .ok q ∧
      q * |entry - stop| ≤ riskPct / 100 * capital ∧ q * entry * (1 + fee) ≤ capital := by
  have hd : absR (entry - stop) ≠ 0 := by
    rw [absR_eq_abs]; exact abs_ne_zero.mpr (sub_ne_zero.mpr hne)
  have hdpos : 0 < |entry - stop| := abs_pos.mpr (sub_ne_zero.mpr hne)
  unfold riskToQty
  rw [risk_to_size_spec _ _ _ _ hd]
  simp only []
  set sz := minR (riskPct / 100 * capital / absR (entry - stop) * entry) capital with hsz
  have hsz0 : 0 ≤ sz := by
    rw [hsz, minR_eq_min, absR_eq_abs]
    apply le_min
    · positivity
    · exact hc
  -- the size handed to size_to_qty (second haircut when fee ≠ 0)
  set sz' := (if fee ≠ 0 then sz * (1 - fee * 3) else sz) with hsz'
  have h13 : 0 ≤ 1 - fee * 3 := by linarith
  have hsz'0 : 0 ≤ sz' := by
    rw [hsz']; split
    · exact mul_nonneg hsz0 h13
    · exact hsz0
  have hsz'le : sz' ≤ sz := by
    rw [hsz']; split
    · have : sz * (1 - fee * 3) = sz - sz * (fee * 3) := by ring
      rw [this]; have : 0 ≤ sz * (fee * 3) := by positivity
      linarith
    · exact le_refl _
  obtain ⟨q, hq, hcost⟩ := size_to_qty_cost_le_capital sz' entry fee p hsz'0 he hf0
  obtain ⟨q2, hq2, _, hle⟩ := size_to_qty_within_one_step sz' entry fee p
  rw [hq] at hq2
  have hqq : q = q2 := by injection hq2
  subst hqq
  refine ⟨q, by rw [hq], ?_, ?_⟩
  · -- q ≤ haircut sz' / entry ≤ sz / entry ≤ (risk·capital/|d|)
    have hh : haircut sz' fee ≤ sz' := by
      unfold haircut; split
      · have : sz' * (1 - fee * 3) = sz' - sz' * (fee * 3) := by ring
        rw [this]; have : 0 ≤ sz' * (fee * 3) := by positivity
        linarith
      · exact le_refl _
    have h1 : q ≤ sz / entry := by
      calc q ≤ haircut sz' fee / entry := hle
        _ ≤ sz / entry := by
          apply div_le_div_of_nonneg_right _ (le_of_lt he)
          linarith
    have h2 : sz ≤ riskPct / 100 * capital / |entry - stop| * entry := by
      rw [hsz, minR_eq_min, absR_eq_abs]; exact min_le_left _ _
    have h3 : sz / entry ≤ riskPct / 100 * capital / |entry - stop| := by
      rw [div_le_iff₀ he]; exact h2
    have h4 : q ≤ riskPct / 100 * capital / |entry - stop| := le_trans h1 h3
    calc q * |entry - stop| ≤ riskPct / 100 * capital / |entry - stop| * |entry - stop| :=
          mul_le_mul_of_nonneg_right h4 (le_of_lt hdpos)
      _ = riskPct / 100 * capital := div_mul_cancel₀ _ (ne_of_gt hdpos)
  · have : sz ≤ capital := by rw [hsz, minR_eq_min]; exact min_le_right _ _
    linarith

/-- `floor_with_precision` / `round_decimals_down` never round up. -/
theorem floor_with_precision_le (x : Rat) (p : Int) : floorWithPrecision x p ≤ x := by
  unfold floorWithPrecision; exact floor_scaled_le _ _ (pow10_pos p)

theorem round_decimals_down_le (x : Rat) (d : Int) :
    ∃ r, roundDecimalsDown x d = .ok r ∧ r ≤ x := by
  unfold roundDecimalsDown
  rcases lt_trichotomy d 0 with h | h | h
  · have h1 : ¬ d = 0 := ne_of_lt h
    have h2 : ¬ d > 0 := not_lt.mpr (le_of_lt h)
    simp only [h1, h2, h, if_true, if_false]
    refine ⟨_, rfl, ?_⟩
    have hp := pow10_pos (d * -(1 : Int))
    have := floorR_le (x / pow10 (d * -(1 : Int)))
    calc floorR (x / pow10 (d * -1)) * pow10 (d * -1) ≤ x / pow10 (d * -1) * pow10 (d * -1) :=
          mul_le_mul_of_nonneg_right this (le_of_lt hp)
      _ = x := div_mul_cancel₀ _ (ne_of_gt hp)
  · subst h
    simp only [if_true]
    exact ⟨_, rfl, floorR_le x⟩
  · have h1 : ¬ d = 0 := ne_of_gt h
    simp only [h1, h, if_true, if_false]
    exact ⟨_, rfl, floor_scaled_le _ _ (pow10_pos d)⟩

/-- Stop-loss limiting never widens the risk: the limited stop is on the same side as requested
    and at most as far from the entry as the original stop. -/
theorem limit_stop_loss_never_widens (entry stop maxRisk : Rat) (t : PosType) :
    |entry - limitStopLoss entry stop t maxRisk| ≤ |entry - stop| ∨ entry * (maxRisk / 100) < 0 := by
  by_cases hneg : entry * (maxRisk / 100) < 0
  · exact Or.inr hneg
  · left
    have hnn : 0 ≤ entry * (maxRisk / 100) := not_lt.mp hneg
    unfold limitStopLoss
    have hm : 0 ≤ minR (absR (entry - stop)) (entry * (maxRisk / 100)) := by
      rw [minR_eq_min]; exact le_min (absR_nonneg _) hnn
    have hle : minR (absR (entry - stop)) (entry * (maxRisk / 100)) ≤ |entry - stop| := by
      rw [← absR_eq_abs]; exact minR_le_left _ _
    split
    · rw [sub_sub_cancel, abs_of_nonneg hm]; exact hle
    · have : entry - (entry + minR (absR (entry - stop)) (entry * (maxRisk / 100)))
          = -(minR (absR (entry - stop)) (entry * (maxRisk / 100))) := by ring
      rw [this, abs_neg, abs_of_nonneg hm]; exact hle

/-- The limited stop of a long is below the entry, of a short above (same side as a stop). -/
theorem limit_stop_loss_side (entry stop maxRisk : Rat) (h : 0 ≤ entry * (maxRisk / 100)) :
    limitStopLoss entry stop .long maxRisk ≤ entry ∧ entry ≤ limitStopLoss entry stop .short maxRisk := by
  have hm : 0 ≤ minR (absR (entry - stop)) (entry * (maxRisk / 100)) := by
    rw [minR_eq_min]; exact le_min (absR_nonneg _) h
  unfold limitStopLoss
  simp only [if_true]
  constructor
  · linarith
  · have : (PosType.short = PosType.long) = False := by simp
    simp only [this, if_false]; linarith

/-! ### timeframe tables -/

/-- minutes of a timeframe according to the (generated) `timeframe_to_one_minutes` table -/
def minutes (t : Timeframe) : Nat := (tfMinutesTable.lookup t).getD 0

/-- The table has exactly one entry for each member of the `timeframes` enum, in enum order. -/
theorem table_covers_enum : tfMinutesTable.map (·.1) = enumTimeframes ∧ enumTimeframes = Timeframe.all := by
  decide +kernel

/-- Every timeframe's length is what its name says. -/
theorem table_values :
    tfMinutesTable.map (·.2) =
      [1, 3, 5, 15, 30, 45, 60, 120, 180, 240, 360, 480, 720, 1440, 4320, 10080, 43200] := by
  decide +kernel

/-- The simulator's own copy of the table (jesse/modes/backtest_mode.py) agrees with it entry by entry. -/
theorem tables_agree : btTfMinutesTable = tfMinutesTable := by decide +kernel

/-- The anchor timeframe is strictly longer than, and a whole multiple of, the timeframe. -/
theorem anchor_is_longer_multiple :
    ∀ e ∈ anchorTable, minutes e.1 < minutes e.2 ∧ minutes e.2 % minutes e.1 = 0 := by
  decide +kernel

/-- the longest member of a list of timeframes (reference definition) -/
def longest (tfs : List Timeframe) : Timeframe :=
  tfs.foldl (fun a b => if minutes a < minutes b then b else a) .m1

/-- `max_timeframe` returns a timeframe at least as long as every member of the list — for every
    list over all seventeen timeframes.  (False before the `fix:` commit ba7437ff, which added the
    3D / 1W / 1M tests: `max_timeframe(['1m','1h','3D','1W'])` was `'1h'`.) -/
theorem max_timeframe_is_longest (tfs : List Timeframe) :
    ∀ t ∈ tfs, minutes t ≤ minutes (maxTimeframe tfs) := by
  intro t ht
  unfold maxTimeframe
  repeat' (refine ite_elim (fun r => minutes t ≤ minutes r) _ _ _ (fun hc => ?_) (fun hc => ?_))
  all_goals (cases t <;> first | (revert ht; simp_all) | decide +kernel)

/-- … and the result is a member of the list (or `1m` for a list without any known member). -/
theorem max_timeframe_mem (tfs : List Timeframe) (hne : tfs ≠ []) : maxTimeframe tfs ∈ tfs := by
  unfold maxTimeframe
  repeat' (refine ite_elim (fun r => r ∈ tfs) _ _ _ (fun hc => ?_) (fun hc => ?_))
  all_goals (first | assumption | skip)
  -- none of the sixteen longer timeframes is in the list, so every member is 1m
  cases tfs with
  | nil => exact absurd rfl hne
  | cons a r =>
    cases a <;> simp_all

/-- non-vacuity / regression witness of the repaired defect -/
example : maxTimeframe [.m1, .h1, .d3, .w1] = .w1 := by decide +kernel

end C17
