/-
  Proofs/C03.lean — the futures account always equals an average-cost margin account.
  Statements over the accounts model (Jesse/Accounts.lean; `estimate_PNL` and `estimate_average_price`
  inside it are GENERATED from the source; the model is tied to the real classes by step-by-step
  correspondence).  PROPERTY THEOREMS ONLY.
-/
import Jesse.Accounts
import Spec.MarginAccount
import Proofs.Lemmas.Num

namespace C03
open Jesse Jesse.Acc Spec

/-- REJECTION: a non-reduce-only order is rejected with InsufficientMargin exactly when its notional
    divided by the leverage exceeds the available margin — and then the account is left unchanged;
    a reduce-only order is never rejected. -/
theorem rejection_iff (w : World) (hk : w.kind = .futures) (sym : Nat) (side : Side) (type : OrderType)
    (q p : Rat) (ro : Bool) :
    (submit w sym side type q p ro = .error (.InsufficientMargin, w) ↔
      (ro = false ∧ absR (q * p) / w.leverage > availableMargin w)) ∧
    (∀ e w', submit w sym side type q p ro = .error (e, w') → e = .InsufficientMargin ∧ w' = w) := by
  have hqp : ∀ s : Side, absR ((if s = Side.sell then -(absR q) else absR q) * p) = absR (q * p) := by
    intro s
    by_cases hs : s = .sell
    · simp only [hs, if_true, absR_eq_abs, neg_mul, abs_neg, abs_mul, abs_abs]
    · simp only [hs, if_false, absR_eq_abs, abs_mul, abs_abs]
  simp only [submit, hk, hqp]
  constructor
  · constructor
    · intro h
      split at h
      · rename_i hc; exact ⟨by simpa using hc.1, hc.2⟩
      · cases h
    · rintro ⟨h1, h2⟩
      have : (¬ (ro = true)) ∧ absR (q * p) / w.leverage > availableMargin w := ⟨by simp [h1], h2⟩
      rw [if_pos this]
  · intro e w' h
    split at h
    · injection h with h; injection h with h1 h2; exact ⟨h1.symm, h2.symm⟩
    · cases h

/-- FEE ON EVERY FILL: executing any active order first debits fee × |qty × price| from the wallet. -/
theorem fee_on_every_fill (w : World) (hk : w.kind = .futures) (o : Order) :
    (chargeFee w o).wallet = w.wallet - absR (o.qty * o.price) * w.fee ∧ (chargeFee w o).pos = w.pos := by
  simp [chargeFee, hk]

/-! ### one fill on a one-symbol futures world = one fill of the reference account -/

def maOf (w : World) : MA := ⟨w.wallet, (getD w.pos 0).qty, (getD w.pos 0).entry⟩

theorem getD_single {α} [Inhabited α] (x : α) : getD [x] 0 = x := rfl
theorem absR_absR (x : Rat) : absR (absR x) = absR x := by rw [absR_eq_abs, absR_eq_abs, abs_abs]

theorem closeTrade_core (w : World) (s : Nat) : (closeTrade w s).wallet = w.wallet ∧ (closeTrade w s).pos = w.pos ∧
    (closeTrade w s).kind = w.kind ∧ (closeTrade w s).fee = w.fee := by
  unfold closeTrade; dsimp only; split <;> exact ⟨rfl, rfl, rfl, rfl⟩

/-- the position/wallet effect of `Position._on_executed_order` (after the fee) on a world whose only
    position is `p`, described directly -/
theorem core_effect (w : World) (hk : w.kind = .futures) (p : Pos) (hp : w.pos = [p]) (o : Order) (hs : o.sym = 0)
    (hent : p.qty ≠ 0 → ∃ e, p.entry = some e) (hflat : p.qty = 0 → p.entry = none)
    (hro : o.reduceOnly = true → p.qty ≠ 0) (hq : o.qty ≠ 0) :
    maOf (onExecutedCore w o) =
      MA.fill 0 ⟨w.wallet, p.qty, p.entry⟩ o.qty o.price o.reduceOnly := by
  have hg : getD w.pos 0 = p := by rw [hp]; rfl
  by_cases h0 : p.qty = 0
  · -- open
    have he := hflat h0
    have hnro : o.reduceOnly = false := by
      cases hr : o.reduceOnly
      · rfl
      · exact absurd h0 (hro hr)
    simp only [onExecutedCore, hs, hg, h0, if_true, maOf, MA.fill, he, mutOpen, updateQty, openTrade, hk, hp,
      upd, getD, zero_mul, absR]
    simp
  · obtain ⟨e, he⟩ := hent h0
    have c1 : ∀ (w' : World) (s : Nat), (closeTrade w' s).pos = w'.pos := fun w' s => (closeTrade_core w' s).2.1
    have c2 : ∀ (w' : World) (s : Nat), (closeTrade w' s).wallet = w'.wallet := fun w' s => (closeTrade_core w' s).1
    have c3 : ∀ (w' : World) (s : Nat), (closeTrade w' s).kind = w'.kind := fun w' s => (closeTrade_core w' s).2.2.1
    simp only [onExecutedCore, hs, hg, h0, if_false]
    -- sign bookkeeping: in every branch the signs of p.qty and o.qty are known
    have signs : ∀ (x : Rat), x < 0 → (¬ (x > 0)) ∧ absR x = -x ∧ absR (-x) = -x := fun x hx =>
      ⟨not_lt.mpr (le_of_lt hx), by simp [absR, hx], by rw [absR_eq_abs, abs_neg, abs_of_neg hx]⟩
    have signs' : ∀ (x : Rat), x > 0 → (¬ (x < 0)) ∧ absR x = x ∧ absR (-x) = x := fun x hx =>
      ⟨not_lt.mpr (le_of_lt hx), by simp [absR, not_lt.mpr (le_of_lt hx)], by rw [absR_eq_abs, abs_neg, abs_of_pos hx]⟩
    by_cases hc1 : p.qty + o.qty = 0
    · simp only [hc1, if_true]
      have hoe : o.qty = -p.qty := by linarith
      have hc2 : ¬ p.qty * o.qty > 0 := by rw [hoe]; nlinarith [sq_pos_of_ne_zero h0]
      have hc4 : ¬ absR o.qty > absR p.qty := by rw [hoe, absR_eq_abs, absR_eq_abs, abs_neg]; exact lt_irrefl _
      simp only [maOf, MA.fill, he, mutClose, updateQty, addRealized, hk, hp, hg, upd, getD_single,
        Jesse.Gen.estimatePNL, c1, c2, c3, zero_mul, mul_zero, sub_zero, hc2, if_false, hc4, and_false, hc1, if_true]
      rcases lt_or_gt_of_ne h0 with hn | hp'
      · obtain ⟨n1, n2, n3⟩ := signs _ hn
        have hoq : o.qty > 0 := by linarith
        obtain ⟨m1, m2, m3⟩ := signs' _ hoq
        simp only [Pos.type, dir, n1, hn, n2, n3, m2, m3, if_true, if_false, absR_absR, MA.mk.injEq, and_true]
        first | done | (rw [hoe]; done) | (rw [hoe]; ring)
      · obtain ⟨n1, n2, n3⟩ := signs' _ hp'
        have hoq : o.qty < 0 := by linarith
        obtain ⟨m1, m2, m3⟩ := signs _ hoq
        simp only [Pos.type, dir, hp', n1, n2, n3, m2, m3, if_true, if_false, absR_absR, reduceCtorEq, MA.mk.injEq, and_true]
        first | done | (rw [hoe]; done) | (rw [hoe]; ring)
    · simp only [hc1, if_false]
      by_cases hc2 : p.qty * o.qty > 0
      · simp only [hc2, if_true]
        cases hr : o.reduceOnly
        · simp only [Bool.false_eq_true, if_false]
          simp only [maOf, MA.fill, he, mutIncrease, updateQty, hk, hp, hg, upd, getD_single,
            Jesse.Gen.estimateAveragePrice, zero_mul, mul_zero, sub_zero, hc2, if_true, hr,
            Bool.false_eq_true, if_false]
          rcases lt_or_gt_of_ne h0 with hn | hp'
          · obtain ⟨n1, n2, n3⟩ := signs _ hn
            have hoq : o.qty < 0 := by nlinarith
            obtain ⟨m1, m2, m3⟩ := signs _ hoq
            simp only [Pos.type, n1, hn, n2, n3, m2, m3, if_true, if_false, absR_absR, reduceCtorEq, getD_single,
              absR_eq_abs, abs_zero, MA.mk.injEq, true_and, abs_neg, abs_of_neg hoq]
            first | done | exact ⟨by ring, trivial⟩ | exact ⟨by ring, rfl⟩ | (constructor <;> first | rfl | ring)
          · obtain ⟨n1, n2, n3⟩ := signs' _ hp'
            have hoq : o.qty > 0 := by nlinarith
            obtain ⟨m1, m2, m3⟩ := signs' _ hoq
            simp only [Pos.type, hp', n1, n2, n3, m2, m3, if_true, if_false, absR_absR, getD_single,
              absR_eq_abs, abs_zero, MA.mk.injEq, true_and, abs_of_pos hoq]
            first | done | exact ⟨trivial, rfl⟩ | (constructor <;> first | rfl | ring)
        · simp only [if_true, maOf, MA.fill, he, hg, hc2, hr, zero_mul, absR_eq_abs, abs_zero, mul_zero, sub_zero]
      · simp only [hc2, if_false]
        have hc3 : p.qty * o.qty < 0 := by
          rcases lt_trichotomy (p.qty * o.qty) 0 with h | h | h
          · exact h
          · exfalso; rcases mul_eq_zero.mp h with h | h
            · exact h0 h
            · exact hq h
          · exact absurd h hc2
        simp only [hc3, if_true]
        by_cases hc4 : absR o.qty > absR p.qty
        · simp only [hc4, if_true]
          cases hr : o.reduceOnly
          · simp only [Bool.false_eq_true, if_false]
            have e1 : ((mutClose w 0 o.price).pos) = [{ p with prevQty := p.qty, qty := 0, entry := none }] := by
              simp only [mutClose, hk, hp, getD_single, he, addRealized, updateQty, c1, upd]
            have e2 : (mutClose w 0 o.price).wallet = w.wallet + Jesse.Gen.estimatePNL (absR p.qty) e o.price p.type 0 := by
              simp only [mutClose, hk, hp, getD_single, he, addRealized, updateQty, c2]
            have e3 : (mutClose w 0 o.price).kind = .futures := by
              simp only [mutClose, hk, hp, getD_single, he, addRealized, updateQty, c3]
            simp only [maOf, MA.fill, he, mutOpen, updateQty, openTrade, e1, e2, e3, upd, getD_single, hc2, if_false, hr,
              Bool.false_eq_true, false_and, hc4, if_true, Jesse.Gen.estimatePNL, zero_mul, mul_zero, sub_zero]
            rcases lt_or_gt_of_ne h0 with hn | hp'
            · obtain ⟨n1, n2, n3⟩ := signs _ hn
              simp only [Pos.type, dir, n1, hn, n2, n3, if_true, if_false, absR_absR, MA.mk.injEq, and_true]
              first | done | ring
            · obtain ⟨n1, n2, n3⟩ := signs' _ hp'
              simp only [Pos.type, dir, hp', n1, n2, n3, if_true, if_false, absR_absR, reduceCtorEq, MA.mk.injEq, and_true]
              first | done | ring
          · simp only [if_true]
            have hle : ¬ absR (-p.qty) > absR p.qty := by rw [absR_eq_abs, absR_eq_abs, abs_neg]; exact lt_irrefl _
            simp only [maOf, MA.fill, he, mutClose, updateQty, addRealized, hk, hp, hg, upd, getD_single,
              Jesse.Gen.estimatePNL, c1, c2, c3, zero_mul, mul_zero, sub_zero, hc2, if_false, hr, hc4,
              and_self, if_true, hle, add_neg_cancel]
            rcases lt_or_gt_of_ne h0 with hn | hp'
            · obtain ⟨n1, n2, n3⟩ := signs _ hn
              simp only [Pos.type, dir, n1, hn, n2, n3, if_true, if_false, absR_absR, absR_eq_abs, abs_neg, abs_of_neg hn,
                MA.mk.injEq, and_true]
              first | done | ring
            · obtain ⟨n1, n2, n3⟩ := signs' _ hp'
              simp only [Pos.type, dir, hp', n1, n2, n3, if_true, if_false, absR_absR, absR_eq_abs, abs_neg, abs_of_pos hp',
                reduceCtorEq, MA.mk.injEq, and_true]
              first | done | ring
        · simp only [hc4, if_false]
          simp only [maOf, MA.fill, he, mutReduce, updateQty, addRealized, hk, hp, hg, upd, getD_single,
            Jesse.Gen.estimatePNL, zero_mul, mul_zero, sub_zero, hc2, if_false, hc4, and_false, hc1]
          rcases lt_or_gt_of_ne h0 with hn | hp'
          · obtain ⟨n1, n2, n3⟩ := signs _ hn
            have hoq : o.qty > 0 := by nlinarith
            obtain ⟨m1, m2, m3⟩ := signs' _ hoq
            simp only [Pos.type, dir, n1, hn, n2, n3, m2, m3, if_true, if_false, absR_absR, reduceCtorEq, getD_single,
              MA.mk.injEq, and_true]
            first | done | exact ⟨by ring, by ring⟩ | ring | (constructor <;> first | rfl | ring)
          · obtain ⟨n1, n2, n3⟩ := signs' _ hp'
            have hoq : o.qty < 0 := by nlinarith
            obtain ⟨m1, m2, m3⟩ := signs _ hoq
            simp only [Pos.type, dir, hp', n1, n2, n3, m2, m3, if_true, if_false, absR_absR, reduceCtorEq, getD_single,
              MA.mk.injEq, and_true]
            first | done | exact ⟨by ring, by ring⟩ | ring | (constructor <;> first | rfl | ring)

/-- the fee factors out of the reference fill -/
theorem fill_fee_factor (fee : Rat) (m : MA) (q p : Rat) (ro : Bool) :
    MA.fill fee m q p ro = MA.fill 0 { m with wallet := m.wallet - fee * absR (q * p) } q p ro := by
  unfold MA.fill
  cases m.entry <;> simp

/-- REFINEMENT (one symbol): executing an order on the model — fee, then `_on_executed_order` — changes
    wallet, position size and average entry exactly as one fill of the reference average-cost margin
    account: fee on the notional, PnL realised on reductions / closes / flips, average cost on
    increases, reduce-only fills clipped.  Legality as in the property: a reduce-only order only
    against an open position; a non-zero quantity. -/
theorem fill_refines (w : World) (hk : w.kind = .futures) (p : Pos) (hp : w.pos = [p]) (o : Order) (hs : o.sym = 0)
    (hent : p.qty ≠ 0 → ∃ e, p.entry = some e) (hflat : p.qty = 0 → p.entry = none)
    (hro : o.reduceOnly = true → p.qty ≠ 0) (hq : o.qty ≠ 0) :
    maOf (onExecuted w o) = MA.fill w.fee ⟨w.wallet, p.qty, p.entry⟩ o.qty o.price o.reduceOnly := by
  obtain ⟨f1, f2⟩ := fee_on_every_fill w hk o
  have hk' : (chargeFee w o).kind = .futures := by simp [chargeFee, hk]
  unfold onExecuted
  rw [core_effect (chargeFee w o) hk' p (by rw [f2]; exact hp) o hs hent hflat hro hq,
    fill_fee_factor w.fee ⟨w.wallet, p.qty, p.entry⟩, f1]
  have : w.wallet - absR (o.qty * o.price) * w.fee = w.wallet - w.fee * absR (o.qty * o.price) := by ring
  rw [this]

/-- REDUCE-ONLY fills never increase or flip a position (reference account; by `fill_refines` the
    same holds for the model). -/
theorem reduce_only_never_increases_or_flips (fee : Rat) (m : MA) (e q p : Rat) (he : m.entry = some e)
    (h0 : m.qty ≠ 0) :
    let m' := MA.fill fee m q p true
    |m'.qty| ≤ |m.qty| ∧ 0 ≤ m'.qty * m.qty := by
  simp only [MA.fill, he]
  by_cases h1 : m.qty * q > 0
  · simp only [h1, if_true]
    exact ⟨le_refl _, mul_self_nonneg _⟩
  · simp only [h1, if_false, true_and]
    by_cases h2 : absR q > absR m.qty
    · have hle : ¬ absR (-m.qty) > absR m.qty := by rw [absR_eq_abs, absR_eq_abs, abs_neg]; exact lt_irrefl _
      simp only [h2, if_true, hle, if_false, add_neg_cancel]
      simp
    · simp only [h2, if_false]
      have hq : m.qty * q ≤ 0 := not_lt.mp h1
      have h2' : |q| ≤ |m.qty| := by rw [← absR_eq_abs, ← absR_eq_abs]; exact not_lt.mp h2
      by_cases h3 : m.qty + q = 0
      · simp [h3]
      · simp only [h3, if_false]
        rcases lt_or_gt_of_ne h0 with hn | hpos
        · have hq0 : 0 ≤ q := by nlinarith
          rw [abs_of_neg hn, abs_of_nonneg hq0] at h2'
          constructor
          · rw [abs_of_neg hn, abs_of_nonpos (by linarith)]; linarith
          · nlinarith
        · have hq0 : q ≤ 0 := by nlinarith
          rw [abs_of_pos hpos, abs_of_nonpos hq0] at h2'
          constructor
          · rw [abs_of_pos hpos, abs_of_nonneg (by linarith)]; linarith
          · nlinarith

/-! ### submitting then cancelling an order restores the available margin exactly -/

theorem rowsSum_foldl (rows : List (Rat × Rat)) (acc : Rat) :
    rows.foldl (fun a r => a + r.1 * r.2) acc = acc + rowsSum rows := by
  induction rows generalizing acc with
  | nil => simp [rowsSum]
  | cons x xs ih =>
    simp only [List.foldl_cons, rowsSum]
    rw [ih, ih (0 + x.1 * x.2)]; ring

theorem rowsSum_cons (x : Rat × Rat) (xs : List (Rat × Rat)) : rowsSum (x :: xs) = x.1 * x.2 + rowsSum xs := by
  simp only [rowsSum, List.foldl_cons]; rw [rowsSum_foldl]; simp only [rowsSum]; ring

theorem rowsSum_erase (rows : List (Rat × Rat)) (x : Rat × Rat) (h : x ∈ rows) :
    rowsSum (rows.erase x) = rowsSum rows - x.1 * x.2 := by
  induction rows with
  | nil => cases h
  | cons y ys ih =>
    by_cases hxy : y = x
    · subst hxy; simp [rowsSum_cons]
    · have : x ∈ ys := by
        rcases List.mem_cons.mp h with h1 | h1
        · exact absurd h1.symm hxy
        · exact h1
      rw [List.erase_cons_tail (by simpa using hxy), rowsSum_cons, rowsSum_cons, ih this]; ring

/-- appending a row and then erasing the first row equal to it leaves the rows' weighted sum
    unchanged — also when an identical (qty, price) row was already resting -/
theorem rowsSum_append_erase (rows : List (Rat × Rat)) (x : Rat × Rat) :
    rowsSum ((rows ++ [x]).erase x) = rowsSum rows := by
  have hm : x ∈ rows ++ [x] := by simp
  rw [rowsSum_erase _ _ hm]
  have : rowsSum (rows ++ [x]) = rowsSum rows + x.1 * x.2 := by
    unfold rowsSum; rw [List.foldl_append]; simp
  rw [this]; ring

theorem getD_upd_same {α} [Inhabited α] (l : List α) (i : Nat) (f : α → α) (h : i < l.length) :
    getD (upd l i f) i = f (getD l i) := by
  induction l generalizing i with
  | nil => simp at h
  | cons x xs ih =>
    cases i with
    | zero => rfl
    | succ k => simp only [upd, getD]; exact ih k (by simpa using h)

theorem getD_upd_other {α} [Inhabited α] (l : List α) (i j : Nat) (f : α → α) (h : i ≠ j) :
    getD (upd l i f) j = getD l j := by
  induction l generalizing i j with
  | nil => rfl
  | cons x xs ih =>
    cases i with
    | zero =>
      cases j with
      | zero => exact absurd rfl h
      | succ k => rfl
    | succ i' =>
      cases j with
      | zero => rfl
      | succ k => simp only [upd, getD]; exact ih i' k (by omega)

theorem upd_upd {α} (l : List α) (i : Nat) (f g : α → α) : upd (upd l i f) i g = upd l i (g ∘ f) := by
  induction l generalizing i with
  | nil => rfl
  | cons x xs ih =>
    cases i with
    | zero => rfl
    | succ k => simp only [upd]; rw [ih]

/-- the available margin depends on the order tables only through their weighted sums -/
theorem availableMargin_congr (w w' : World) (h1 : w'.wallet = w.wallet) (h2 : w'.pos = w.pos)
    (h3 : w'.leverage = w.leverage)
    (hb : ∀ i, rowsSum (getD w'.buyRows i) = rowsSum (getD w.buyRows i))
    (hs : ∀ i, rowsSum (getD w'.sellRows i) = rowsSum (getD w.sellRows i)) :
    availableMargin w' = availableMargin w := by
  unfold availableMargin
  simp only [h1, h2, h3, hb, hs]

/-- SUBMIT THEN CANCEL restores the available margin exactly — for every symbol, side and type, also
    when other resting orders carry the same (qty, price). -/
theorem submit_cancel_restores_margin (w w' : World) (hk : w.kind = .futures) (sym : Nat) (side : Side)
    (type : OrderType) (q p : Rat) (hsym : sym < w.buyRows.length ∧ sym < w.sellRows.length)
    (h : submit w sym side type q p false = .ok w') :
    availableMargin (cancel w' w.orders.length) = availableMargin w := by
  cases side
  · -- buy
    simp only [submit, hk, Bool.false_eq_true, not_false_eq_true, true_and, if_false, reduceCtorEq, if_true] at h
    split at h
    · cases h
    · injection h with h
      rw [← h]
      have hget : (w.orders ++ [Order.mk w.orders.length sym Side.buy type (absR q) p false .active])[w.orders.length]?
          = some (Order.mk w.orders.length sym Side.buy type (absR q) p false .active) := by simp
      simp only [cancel, hget, ne_eq, not_true_eq_false, if_false, Bool.false_eq_true, if_true, setStatus]
      refine availableMargin_congr _ _ ?_ ?_ ?_ (fun i => ?_) (fun i => ?_)
      · rfl
      · rfl
      · rfl
      · simp only [upd_upd]
        by_cases hi : sym = i
        · subst hi
          rw [getD_upd_same _ _ _ hsym.1]
          exact rowsSum_append_erase _ _
        · rw [getD_upd_other _ _ _ _ hi]
      · rfl
  · -- sell
    simp only [submit, hk, Bool.false_eq_true, not_false_eq_true, true_and, if_false, reduceCtorEq, if_true] at h
    split at h
    · cases h
    · injection h with h
      rw [← h]
      have hget : (w.orders ++ [Order.mk w.orders.length sym Side.sell type (-(absR q)) p false .active])[w.orders.length]?
          = some (Order.mk w.orders.length sym Side.sell type (-(absR q)) p false .active) := by simp
      simp only [cancel, hget, ne_eq, not_true_eq_false, if_false, Bool.false_eq_true, reduceCtorEq, setStatus]
      refine availableMargin_congr _ _ ?_ ?_ ?_ (fun i => ?_) (fun i => ?_)
      · rfl
      · rfl
      · rfl
      · rfl
      · simp only [upd_upd]
        by_cases hi : sym = i
        · subst hi
          rw [getD_upd_same _ _ _ hsym.2]
          exact rowsSum_append_erase _ _
        · rw [getD_upd_other _ _ _ _ hi]

/-! ### several symbols sharing one wallet

`fill_refines` is stated for a world with one position.  A fill on symbol `s` of a world with ANY number of symbols
is simulated by the one-symbol world that keeps only `s`'s position (`Sim`): every function of
`Position._on_executed_order` reads and writes the position of its own symbol and the shared wallet only.  So the
refinement holds for every symbol of every world, and the positions of all other symbols are left untouched. -/

/-- the margin account symbol `s` sees: the shared wallet and its own position -/
def maAt (w : World) (s : Nat) : MA := ⟨w.wallet, (getD w.pos s).qty, (getD w.pos s).entry⟩

structure Sim (s : Nat) (w w1 : World) : Prop where
  kind : w1.kind = w.kind
  fee : w1.fee = w.fee
  wallet : w1.wallet = w.wallet
  pos : getD w1.pos 0 = getD w.pos s
  hs : s < w.pos.length
  h1 : 0 < w1.pos.length

theorem upd_len {α} (l : List α) (i : Nat) (f : α → α) : (upd l i f).length = l.length := by
  induction l generalizing i with
  | nil => rfl
  | cons x xs ih => cases i <;> simp [upd, ih]

theorem sim_updPos {s : Nat} {w w1 : World} (h : Sim s w w1) (f f1 : Pos → Pos) (hf : f1 (getD w1.pos 0) = f (getD w.pos s)) :
    Sim s { w with pos := upd w.pos s f } { w1 with pos := upd w1.pos 0 f1 } :=
  ⟨h.kind, h.fee, h.wallet, by
    show getD (upd w1.pos 0 f1) 0 = getD (upd w.pos s f) s
    rw [getD_upd_same _ _ _ h.h1, getD_upd_same _ _ _ h.hs, hf],
   by show s < (upd w.pos s f).length; rw [upd_len]; exact h.hs,
   by show 0 < (upd w1.pos 0 f1).length; rw [upd_len]; exact h.h1⟩

theorem sim_updateQty {s : Nat} {w w1 : World} (h : Sim s w w1) (q : Rat) (op : Nat) :
    Sim s (updateQty w s q op) (updateQty w1 0 q op) := by
  unfold updateQty
  apply sim_updPos h
  rw [h.pos, h.kind, h.fee]

theorem sim_addRealized {s : Nat} {w w1 : World} (h : Sim s w w1) (x : Rat) : Sim s (addRealized w x) (addRealized w1 x) :=
  ⟨h.kind, h.fee, by show w1.wallet + x = w.wallet + x; rw [h.wallet], h.pos, h.hs, h.h1⟩

theorem sim_openTrade {s : Nat} {w w1 : World} (h : Sim s w w1) (a b : Nat) : Sim s (openTrade w a) (openTrade w1 b) :=
  ⟨h.kind, h.fee, h.wallet, h.pos, h.hs, h.h1⟩

theorem sim_closeTrade {s : Nat} {w w1 : World} (h : Sim s w w1) (a b : Nat) : Sim s (closeTrade w a) (closeTrade w1 b) := by
  obtain ⟨a1, a2, a3⟩ := closeTrade_core w a
  obtain ⟨b1, b2, b3⟩ := closeTrade_core w1 b
  have ak : (closeTrade w a).kind = w.kind ∧ (closeTrade w a).fee = w.fee := by unfold closeTrade; dsimp only; split <;> exact ⟨rfl, rfl⟩
  have bk : (closeTrade w1 b).kind = w1.kind ∧ (closeTrade w1 b).fee = w1.fee := by unfold closeTrade; dsimp only; split <;> exact ⟨rfl, rfl⟩
  exact ⟨by rw [ak.1, bk.1, h.kind], by rw [ak.2, bk.2, h.fee], by rw [a1, b1, h.wallet], by rw [a2, b2, h.pos],
    by rw [a2]; exact h.hs, by rw [b2]; exact h.h1⟩

/-- the "realise the PnL when futures and an entry price is known" step, on both worlds -/
def realize (w : World) (k : Kind) (en : Option Rat) (g : Rat → Rat) : World :=
  match k, en with
  | .futures, some e => addRealized w (g e)
  | _, _ => w

theorem sim_realize {s : Nat} {w w1 : World} (h : Sim s w w1) (k : Kind) (en : Option Rat) (g : Rat → Rat) :
    Sim s (realize w k en g) (realize w1 k en g) := by
  unfold realize
  split
  · exact sim_addRealized h _
  · exact h

theorem mutClose_eq (w : World) (sym : Nat) (price : Rat) :
    mutClose w sym price = closeTrade
      (let w2 := updateQty (realize w w.kind (getD w.pos sym).entry
          (fun e => Jesse.Gen.estimatePNL (absR (getD w.pos sym).qty) e price (getD w.pos sym).type 0)) sym 0 0
       { w2 with pos := upd w2.pos sym (fun p => { p with entry := none }) }) sym := by
  unfold mutClose realize
  dsimp only
  cases w.kind <;> cases (getD w.pos sym).entry <;> rfl

theorem mutReduce_eq (w : World) (sym : Nat) (qty price : Rat) :
    mutReduce w sym qty price =
      (let w1 := realize w w.kind (getD w.pos sym).entry
          (fun e => Jesse.Gen.estimatePNL (absR qty) e price (getD w.pos sym).type 0)
       if (getD w.pos sym).type = .long then updateQty w1 sym (absR qty) 2
       else if (getD w.pos sym).type = .short then updateQty w1 sym (absR qty) 1
       else w1) := by
  unfold mutReduce realize
  dsimp only
  cases w.kind <;> cases (getD w.pos sym).entry <;> rfl

theorem sim_mutOpen {s : Nat} {w w1 : World} (h : Sim s w w1) (q price : Rat) : Sim s (mutOpen w s q price) (mutOpen w1 0 q price) := by
  unfold mutOpen
  exact sim_openTrade (sim_updateQty (sim_updPos h _ _ (by rw [h.pos])) q 0) s 0

theorem sim_mutClose {s : Nat} {w w1 : World} (h : Sim s w w1) (price : Rat) : Sim s (mutClose w s price) (mutClose w1 0 price) := by
  rw [mutClose_eq, mutClose_eq, h.pos, h.kind]
  dsimp only
  apply sim_closeTrade
  apply sim_updPos
  · exact sim_updateQty (sim_realize h _ _ _) 0 0
  · have := (sim_updateQty (sim_realize h w.kind (getD w.pos s).entry
        (fun e => Jesse.Gen.estimatePNL (absR (getD w.pos s).qty) e price (getD w.pos s).type 0)) 0 0).pos
    rw [this]

theorem sim_mutReduce {s : Nat} {w w1 : World} (h : Sim s w w1) (q price : Rat) : Sim s (mutReduce w s q price) (mutReduce w1 0 q price) := by
  rw [mutReduce_eq, mutReduce_eq, h.pos, h.kind]
  dsimp only
  split
  · exact sim_updateQty (sim_realize h _ _ _) _ 2
  · split
    · exact sim_updateQty (sim_realize h _ _ _) _ 1
    · exact sim_realize h _ _ _

theorem sim_mutIncrease {s : Nat} {w w1 : World} (h : Sim s w w1) (q price : Rat) :
    Sim s (mutIncrease w s q price) (mutIncrease w1 0 q price) := by
  unfold mutIncrease
  dsimp only
  rw [h.pos]
  split
  · exact sim_updateQty (sim_updPos h _ _ (by rw [h.pos])) _ 1
  · split
    · exact sim_updateQty (sim_updPos h _ _ (by rw [h.pos])) _ 2
    · exact sim_updPos h _ _ (by rw [h.pos])

theorem sim_onExecutedCore {s : Nat} {w w1 : World} (h : Sim s w w1) (o o1 : Order) (hs : o.sym = s) (h0 : o1.sym = 0)
    (hq : o1.qty = o.qty) (hp : o1.price = o.price) (hr : o1.reduceOnly = o.reduceOnly) :
    Sim s (onExecutedCore w o) (onExecutedCore w1 o1) := by
  unfold onExecutedCore
  rw [h0, hs, hq, hp, hr, h.pos]
  split
  · exact sim_mutOpen h _ _
  · split
    · exact sim_mutClose h _
    · split
      · split
        · exact h
        · exact sim_mutIncrease h _ _
      · split
        · split
          · split
            · exact sim_mutClose h _
            · exact sim_mutOpen (sim_mutClose h _) _ _
          · exact sim_mutReduce h _ _
        · exact h

theorem chargeFee_proj (w : World) (o : Order) :
    (chargeFee w o).kind = w.kind ∧ (chargeFee w o).fee = w.fee ∧ (chargeFee w o).pos = w.pos ∧
    (chargeFee w o).wallet = (match w.kind with | .futures => w.wallet - absR (o.qty * o.price) * w.fee | .spot => w.wallet) := by
  cases hk : w.kind <;> simp [chargeFee, hk]

theorem sim_chargeFee {s : Nat} {w w1 : World} (h : Sim s w w1) (o o1 : Order) (hq : o1.qty = o.qty) (hp : o1.price = o.price) :
    Sim s (chargeFee w o) (chargeFee w1 o1) := by
  obtain ⟨a1, a2, a3, a4⟩ := chargeFee_proj w o
  obtain ⟨b1, b2, b3, b4⟩ := chargeFee_proj w1 o1
  exact ⟨by rw [a1, b1, h.kind], by rw [a2, b2, h.fee], by rw [a4, b4, h.kind, h.wallet, h.fee, hq, hp],
    by rw [a3, b3, h.pos], by rw [a3]; exact h.hs, by rw [b3]; exact h.h1⟩

/-- REFINEMENT, ANY NUMBER OF SYMBOLS: executing an order of symbol `s` changes the shared wallet and `s`'s position
    exactly as one fill of the reference margin account that holds `s`'s position — whatever the other symbols hold -/
theorem fill_refines_any_symbol (w : World) (hk : w.kind = .futures) (o : Order) (hs : o.sym < w.pos.length)
    (hent : (getD w.pos o.sym).qty ≠ 0 → ∃ e, (getD w.pos o.sym).entry = some e)
    (hflat : (getD w.pos o.sym).qty = 0 → (getD w.pos o.sym).entry = none)
    (hro : o.reduceOnly = true → (getD w.pos o.sym).qty ≠ 0) (hq : o.qty ≠ 0) :
    maAt (onExecuted w o) o.sym = MA.fill w.fee (maAt w o.sym) o.qty o.price o.reduceOnly := by
  let w1 : World := { w with pos := [getD w.pos o.sym] }
  let o1 : Order := { o with sym := 0 }
  have h : Sim o.sym w w1 := ⟨rfl, rfl, rfl, rfl, hs, by show 0 < [getD w.pos o.sym].length; simp⟩
  have hsim := sim_onExecutedCore (sim_chargeFee h o o1 rfl rfl) o o1 rfl rfl rfl rfl rfl
  have href := fill_refines w1 hk (getD w.pos o.sym) rfl o1 rfl hent hflat hro hq
  have e1 : maAt (onExecuted w o) o.sym = maOf (onExecuted w1 o1) := by
    unfold maAt maOf onExecuted
    rw [hsim.wallet, hsim.pos]
  rw [e1, href]
  rfl

theorem upd_other_getD {α} [Inhabited α] (l : List α) (i j : Nat) (f : α → α) (h : i ≠ j) : getD (upd l i f) j = getD l j :=
  getD_upd_other l i j f h

/-- … and the positions of all OTHER symbols are left exactly as they were -/
theorem fill_leaves_other_symbols (w : World) (o : Order) (s' : Nat) (hne : o.sym ≠ s') :
    getD (onExecuted w o).pos s' = getD w.pos s' := by
  have hcf : (chargeFee w o).pos = w.pos := by unfold chargeFee; split <;> rfl
  have huq : ∀ (w : World) q op, getD (updateQty w o.sym q op).pos s' = getD w.pos s' := by
    intro w q op; unfold updateQty; exact getD_upd_other _ _ _ _ hne
  have hup : ∀ (w : World) (f : Pos → Pos), getD ({ w with pos := upd w.pos o.sym f } : World).pos s' = getD w.pos s' := by
    intro w f; exact getD_upd_other _ _ _ _ hne
  have hct : ∀ (w : World) a, (closeTrade w a).pos = w.pos := fun w a => (closeTrade_core w a).2.1
  have hot : ∀ (w : World) a, (openTrade w a).pos = w.pos := fun _ _ => rfl
  have hre : ∀ (w : World) k en g, (realize w k en g).pos = w.pos := by
    intro w k en g; unfold realize; split <;> rfl
  have hopen : ∀ (w : World) q price, getD (mutOpen w o.sym q price).pos s' = getD w.pos s' := by
    intro w q price; unfold mutOpen; rw [hot, huq, hup]
  have hclose : ∀ (w : World) price, getD (mutClose w o.sym price).pos s' = getD w.pos s' := by
    intro w price; rw [mutClose_eq]; dsimp only; rw [hct, hup, huq, hre]
  have hred : ∀ (w : World) q price, getD (mutReduce w o.sym q price).pos s' = getD w.pos s' := by
    intro w q price; rw [mutReduce_eq]; dsimp only
    split
    · rw [huq, hre]
    · split
      · rw [huq, hre]
      · rw [hre]
  have hinc : ∀ (w : World) q price, getD (mutIncrease w o.sym q price).pos s' = getD w.pos s' := by
    intro w q price; unfold mutIncrease; dsimp only
    split
    · rw [huq, hup]
    · split
      · rw [huq, hup]
      · rw [hup]
  unfold onExecuted onExecutedCore
  rw [← hcf]
  split
  · exact hopen _ _ _
  · split
    · exact hclose _ _
    · split
      · split
        · rfl
        · exact hinc _ _ _
      · split
        · split
          · split
            · exact hclose _ _
            · rw [hopen, hclose]
          · exact hred _ _ _
        · rfl

/-- non-vacuity: two symbols; a fill on the second one flips its short of 2 at 50 into a long of 1 at 40 and books
    +20 minus the fee 0.12, while the first symbol's long stays as it was -/
example : (let w : World := { (init .futures 1000 (1/1000) 10 2) with pos := [{ qty := 3, entry := some 100 }, { qty := -2, entry := some 50 }] }
    let o : Order := ⟨0, 1, .buy, .market, 3, 40, false, .active⟩
    decide (maAt (onExecuted w o) 1 = ⟨1000 - 12/100 + 20, 1, some 40⟩ ∧ getD (onExecuted w o).pos 0 = { qty := 3, entry := some 100 })) = true := by
  decide +kernel

end C03
