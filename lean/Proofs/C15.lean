/-
  Proofs/C15.lean — indicators match their definitions, ranges and orderings.
  Kernels: Jesse/Ind/*.lean (tied to the real indicators by correspondence); textbook definitions:
  Spec/Ind.lean.  All statements are for ALL inputs (exact rational arithmetic).
  PROPERTY THEOREMS ONLY (helpers in Proofs/Lemmas/IndSpec.lean).
-/
import Proofs.Lemmas.IndSpec
import Jesse.Gen.IndWrappers

namespace C15
open Jesse Jesse.Ind Spec.Ind Jesse.Gen

/-! ### values that are functions of a trailing window: exact equality with the definition -/

/-- SMA = mean of the trailing window (the code computes it as a convolution with `p` weights `1/p`) -/
theorem sma_is_window_mean (p : Nat) (xs : List Rat) (i : Nat) (hp : 0 < p) (hi : i < xs.length) :
    (sma p xs)[i]? = some (smaAt p xs i) := by
  unfold sma smaAt
  rw [trailing_getElem? _ _ _ _ hi]
  by_cases h : i + 1 < p
  · simp [h]
  · simp only [h, if_false]
    have hl := length_window p i xs hi (by omega)
    rw [dot_replicate _ _ _ (by omega)]
    unfold mean
    rw [hl]
    congr 2
    have : (p : Rat) ≠ 0 := by exact_mod_cast (by omega : p ≠ 0)
    field_simp

example : (sma 2 [1, 2, 4])[2]? = some (some 3) := by decide +kernel

/-- WMA = linearly weighted mean (weights 1 … p, newest heaviest) of the trailing window -/
theorem wma_is_weighted_mean (p : Nat) (xs : List Rat) (i : Nat) (hi : i < xs.length) :
    (wma p xs)[i]? = some (wmaAt p xs i) := by
  unfold wma wmaAt
  rw [trailing_getElem? _ _ _ _ hi]
  by_cases h : i + 1 < p
  · simp [h]
  · simp only [h, if_false]
    have hl := length_window p i xs hi (by omega)
    have h1 : arange1 p = (List.range p).map (fun i => ((i + 1 : Nat) : Rat)) := rfl
    rw [h1, dot_arangeFrom _ 1 p (by omega), ← h1, sum_arange1]
    unfold wmean
    rw [hl]

example : (wma 2 [1, 2, 4])[2]? = some (some (10 / 3)) := by decide +kernel

/-- rate of change: `(x[i]/x[i-p] - 1)*100` from row `p` on (NaN where the old price is 0) -/
theorem roc_def (p : Nat) (xs : List Rat) (i : Nat) (cur old : Rat) (hpi : p ≤ i)
    (hc : xs[i]? = some cur) (ho : xs[i - p]? = some old) (hne : old ≠ 0) :
    (roc p xs)[i]? = some (some (rocOf cur old)) := by
  have hi : i < xs.length := by
    by_contra hcn
    rw [List.getElem?_eq_none (by omega)] at hc; cases hc
  unfold roc
  rw [pmap_getElem? _ _ _ hi]
  have h1 : (xs.take (i + 1)).length = i + 1 := by rw [List.length_take]; omega
  have hb0 : back 0 (xs.take (i + 1)) = some cur := by
    unfold back; rw [h1, if_pos (by omega), List.getElem?_take, if_pos (by omega)]
    simpa using hc
  have hbp : back p (xs.take (i + 1)) = some old := by
    unfold back; rw [h1, if_pos (by omega), List.getElem?_take, if_pos (by omega)]
    have : i + 1 - 1 - p = i - p := by omega
    rw [this]; exact ho
  rw [h1, if_neg (by omega), hb0, hbp]
  simp [odiv, hne, rocOf]

/-- momentum: `x[i] - x[i-p]` from row `p` on -/
theorem mom_def (p : Nat) (xs : List Rat) (i : Nat) (cur old : Rat) (hpi : p ≤ i)
    (hc : xs[i]? = some cur) (ho : xs[i - p]? = some old) :
    (mom p xs)[i]? = some (some (cur - old)) := by
  have hi : i < xs.length := by
    by_contra hcn
    rw [List.getElem?_eq_none (by omega)] at hc; cases hc
  unfold mom
  rw [pmap_getElem? _ _ _ hi]
  have h1 : (xs.take (i + 1)).length = i + 1 := by rw [List.length_take]; omega
  have hb0 : back 0 (xs.take (i + 1)) = some cur := by
    unfold back; rw [h1, if_pos (by omega), List.getElem?_take, if_pos (by omega)]
    simpa using hc
  have hbp : back p (xs.take (i + 1)) = some old := by
    unfold back; rw [h1, if_pos (by omega), List.getElem?_take, if_pos (by omega)]
    have : i + 1 - 1 - p = i - p := by omega
    rw [this]; exact ho
  rw [h1, if_neg (by omega), hb0, hbp]
  simp [osub]

/-- roc and mom are undefined (NaN) before row `p` -/
theorem roc_mom_warmup (p : Nat) (xs : List Rat) (i : Nat) (hi : i < xs.length) (h : i < p) :
    (roc p xs)[i]? = some none ∧ (mom p xs)[i]? = some none := by
  have h1 : (xs.take (i + 1)).length = i + 1 := by rw [List.length_take]; omega
  constructor
  · unfold roc; rw [pmap_getElem? _ _ _ hi, h1, if_pos (by omega)]
  · unfold mom; rw [pmap_getElem? _ _ _ hi, h1, if_pos (by omega)]

/-- the price transforms are the textbook pointwise formulas -/
theorem transforms_def (cs : List Candle) :
    typprice cs = cs.map (fun k => some (typ k)) ∧ medprice cs = cs.map (fun k => some (med k))
    ∧ avgprice cs = cs.map (fun k => some (avg k)) ∧ wclprice cs = cs.map (fun k => some (wcl k)) := by
  refine ⟨?_, ?_, ?_, ?_⟩
  · unfold typprice typ; congr 1; funext k; congr 2; ring
  · rfl
  · rfl
  · rfl

/-! ### Donchian channel, Williams %R -/

/-- Donchian: from row `p-1` on the upper band IS the maximum high and the lower band IS the minimum
    low of the trailing window, the middle band is their average; on valid candles (low ≤ high)
    the bands are ordered and the channel encloses every candle of the window -/
theorem donchian_def_ordered (p : Nat) (cs : List Candle) (i : Nat) (hp : 0 < p) (hpi : p ≤ i + 1) (hi : i < cs.length)
    (hv : ∀ k ∈ cs, k.l ≤ k.h) :
    ∃ u m l, (donchianUpper p cs)[i]? = some (some u) ∧ (donchianMiddle p cs)[i]? = some (some m)
      ∧ (donchianLower p cs)[i]? = some (some l)
      ∧ IsMax u (highs (window p i cs)) ∧ IsMin l (lows (window p i cs)) ∧ m = (u + l) / 2
      ∧ l ≤ m ∧ m ≤ u ∧ ∀ k ∈ window p i cs, l ≤ k.l ∧ k.h ≤ u := by
  have hne := window_ne_nil p i cs hi hp hpi
  have hh : highs (window p i cs) ≠ [] := by simpa [highs] using hne
  have hl : lows (window p i cs) ≠ [] := by simpa [lows] using hne
  refine ⟨maxL (highs (window p i cs)), (maxL (highs (window p i cs)) + minL (lows (window p i cs))) / 2,
    minL (lows (window p i cs)), ?_, ?_, ?_, isMax_maxL _ hh, isMin_minL _ hl, rfl, ?_⟩
  · unfold donchianUpper; rw [trailing_getElem? _ _ _ _ hi, if_neg (by omega)]
  · unfold donchianMiddle; rw [trailing_getElem? _ _ _ _ hi, if_neg (by omega)]
  · unfold donchianLower; rw [trailing_getElem? _ _ _ _ hi, if_neg (by omega)]
  · have hencl : ∀ k ∈ window p i cs, minL (lows (window p i cs)) ≤ k.l ∧ k.h ≤ maxL (highs (window p i cs)) := by
      intro k hk
      exact ⟨minL_le _ _ (by simp [lows]; exact ⟨k, hk, rfl⟩), le_maxL _ _ (by simp [highs]; exact ⟨k, hk, rfl⟩)⟩
    obtain ⟨k, hk⟩ := List.exists_mem_of_ne_nil _ hne
    have h1 := hencl k hk
    have h2 := hv k (mem_of_mem_window _ _ _ _ hk)
    have hlu : minL (lows (window p i cs)) ≤ maxL (highs (window p i cs)) := le_trans h1.1 (le_trans h2 h1.2)
    refine ⟨by linarith, by linarith, hencl⟩

/-- Williams %R stays in [-100, 0] on valid candles (low ≤ close ≤ high), and is the textbook
    `-100·(HH - C)/(HH - LL)` whenever the window is not flat -/
theorem willr_range (p : Nat) (cs : List Candle) (i : Nat) (hp : 0 < p) (hpi : p ≤ i + 1) (hi : i < cs.length)
    (hv : ∀ k ∈ cs, k.l ≤ k.c ∧ k.c ≤ k.h) :
    ∃ r, (willr p cs)[i]? = some (some r) ∧ -100 ≤ r ∧ r ≤ 0
      ∧ ∀ k, (window p i cs).getLast? = some k →
          maxL (highs (window p i cs)) - minL (lows (window p i cs)) ≠ 0 →
          r = willrOf (maxL (highs (window p i cs))) (minL (lows (window p i cs))) k.c := by
  have hne := window_ne_nil p i cs hi hp hpi
  unfold willr
  rw [trailing_getElem? _ _ _ _ hi, if_neg (by omega)]
  obtain ⟨k, hk⟩ : ∃ k, (window p i cs).getLast? = some k := by
    cases h : (window p i cs).getLast? with
    | none => exact absurd (List.getLast?_eq_none_iff.mp h) hne
    | some k => exact ⟨k, rfl⟩
  have hkm : k ∈ window p i cs := List.mem_of_getLast? hk
  have hkv := hv k (mem_of_mem_window _ _ _ _ hkm)
  have hmax : k.h ≤ maxL (highs (window p i cs)) := le_maxL _ _ (by simp [highs]; exact ⟨k, hkm, rfl⟩)
  have hmin : minL (lows (window p i cs)) ≤ k.l := minL_le _ _ (by simp [lows]; exact ⟨k, hkm, rfl⟩)
  unfold willrWin
  rw [hk]
  by_cases hz : maxL (highs (window p i cs)) - minL (lows (window p i cs)) = 0
  · refine ⟨0, by simp [hz], by norm_num, le_refl _, ?_⟩
    intro _ _ hne0; exact absurd hz hne0
  · obtain ⟨M, hM⟩ : ∃ M, maxL (highs (window p i cs)) = M := ⟨_, rfl⟩
    obtain ⟨m, hm⟩ : ∃ m, minL (lows (window p i cs)) = m := ⟨_, rfl⟩
    rw [hM] at hz hmax ⊢
    rw [hm] at hz hmin ⊢
    have hD : 0 < M - m := lt_of_le_of_ne (by linarith [hkv.1, hkv.2]) (Ne.symm hz)
    refine ⟨(M - k.c) / (M - m) * (-100), by simp [hz], ?_, ?_, ?_⟩
    · have : (M - k.c) / (M - m) ≤ 1 := by rw [div_le_one hD]; linarith [hkv.1]
      linarith
    · have : 0 ≤ (M - k.c) / (M - m) := div_nonneg (by linarith [hkv.2]) (le_of_lt hD)
      linarith
    · intro k' hk' _
      have : k' = k := (Option.some.inj hk').symm
      rw [this]; unfold willrOf; ring

/-! ### on-balance volume -/

/-- OBV is the textbook signed running sum of the volume -/
theorem obv_is_spec (cs : List Candle) (i : Nat) (hi : i < cs.length) :
    (obv cs)[i]? = some (some (obvAt cs i)) := by
  have key : ∀ (j : Nat), j < cs.length → ∃ k, cs[j]? = some k ∧
      stateAfter obvStep none (cs.take (j + 1)) = some (k.c, obvAt cs j) ∧ (obv cs)[j]? = some (some (obvAt cs j)) := by
    intro j
    induction j with
    | zero =>
      intro h0
      obtain ⟨k, hk⟩ : ∃ k, cs[0]? = some k := ⟨cs[0], by simp [h0]⟩
      refine ⟨k, hk, ?_, ?_⟩
      · rw [stateAfter_take_succ _ _ _ _ k hk]; simp [stateAfter, obvStep, obvAt, hk]
      · unfold obv; rw [scanState_getElem?, hk]; simp [stateAfter, obvStep, obvAt, hk]
    | succ j ih =>
      intro hj
      obtain ⟨a, ha, hst, _⟩ := ih (by omega)
      obtain ⟨b, hb⟩ : ∃ b, cs[j + 1]? = some b := ⟨cs[j + 1], by simp [hj]⟩
      have hv : obvAt cs (j + 1) = obvAt cs j + (if b.c > a.c then b.v else if b.c < a.c then -b.v else 0) := by
        simp [obvAt, ha, hb]
      refine ⟨b, hb, ?_, ?_⟩
      · rw [stateAfter_take_succ _ _ _ _ b hb, hst, hv]; rfl
      · unfold obv; rw [scanState_getElem?, hb, hst, hv]; rfl
  obtain ⟨_, _, _, h⟩ := key i hi
  exact h

/-! ### recursive smoothers: seed, recurrence step, seed independence -/

/-- EMA: NaN before row `p-1`; the seed at row `p-1` is the mean of the first `p` values -/
theorem ema_seed (p : Nat) (xs : List Rat) (hp : 0 < p) (h : p ≤ xs.length) :
    (∀ i, i + 1 < p → (ema p xs)[i]? = some none) ∧ (ema p xs)[p - 1]? = some (some (seedOf p xs)) :=
  ⟨fun i hi => seeded_none p _ xs i (by omega) hi, seeded_seed p _ xs hp h⟩

/-- EMA recurrence step: `out[i] = α·x[i] + (1-α)·out[i-1]` with `α = 2/(p+1)`, for every row after the seed -/
theorem ema_step (p : Nat) (xs : List Rat) (i : Nat) (prev x : Rat) (hp : 0 < p) (hpi : p ≤ i)
    (hprev : (ema p xs)[i - 1]? = some (some prev)) (hx : xs[i]? = some x) :
    (ema p xs)[i]? = some (some (expStep (alpha p) prev x)) :=
  seeded_step p _ xs i prev x hp hpi hprev hx

example : (ema 2 [1, 3, 5])[2]? = some (some (expStep (alpha 2) 2 5)) := by decide +kernel

/-- ATR: mean of the first `p` true ranges at row `p-1`, then Wilder's step `(prev·(p-1) + tr)/p`,
    i.e. the exponential recurrence with `α = 1/p` -/
theorem atr_seed_step (p : Nat) (cs : List Candle) (hp : 0 < p) :
    (p ≤ cs.length → (atr p cs)[p - 1]? = some (some (seedOf p (trR cs))))
    ∧ ∀ i prev t, p ≤ i → (atr p cs)[i - 1]? = some (some prev) → (trR cs)[i]? = some t →
        (atr p cs)[i]? = some (some (expStep (1 / (p : Rat)) prev t)) := by
  refine ⟨fun h => seeded_seed p _ (trR cs) hp (by simpa [trR, length_scanState] using h), ?_⟩
  intro i prev t hpi hprev ht
  have := seeded_step p (wilderUpd p) (trR cs) i prev t hp hpi hprev ht
  unfold atr
  rw [this]
  congr 2
  unfold wilderUpd expStep
  have : (p : Rat) ≠ 0 := by exact_mod_cast (by omega : p ≠ 0)
  field_simp
  ring

/-- Wilder's smoothing (`wilders`): `out[i+1] = (out[i]·(p-1) + x[i+1])/p`, i.e. the exponential recurrence with
    `α = 1/p`, from the first row on (its seed is `x[0]`) -/
theorem wilders_step (p : Nat) (hp : 0 < p) (xs : List Rat) (i : Nat) (y x : Rat)
    (hy : (wilders p xs)[i]? = some (some y)) (hx : xs[i + 1]? = some x) :
    (wilders p xs)[i + 1]? = some (some (expStep (1 / (p : Rat)) y x)) := by
  rw [wilders_step_lemma p xs i y x hy hx]
  congr 2
  unfold wilderUpd expStep
  have : (p : Rat) ≠ 0 := by exact_mod_cast (by omega : p ≠ 0)
  field_simp
  ring

/-- `rma`: `out[i+1] = α·x[i+1] + (1-α)·out[i]` with `α = 1/length` for every row (only its seed is wrong, C13) -/
theorem rma_step (p : Nat) (xs : List Rat) (i : Nat) (y x : Rat)
    (hy : (rmaR p xs)[i]? = some y) (hx : xs[i + 1]? = some x) :
    (rmaR p xs)[i + 1]? = some (expStep (1 / (p : Rat)) y x) := by
  unfold rmaR at hy ⊢
  rw [rmaStep_eq] at hy ⊢
  exact smooth_step _ _ xs i y x hy hx

/-- MACD: the histogram is the MACD line minus the signal line, the signal line is the exponential
    recurrence (`α = 2/(signal+1)`) over the MACD line, the MACD line is fast EMA minus slow EMA -/
theorem macd_def (f s g : Nat) (xs : List Rat) :
    macdHist f s g xs = List.zipWith (fun a b => a - b) (macdLine f s xs) (macdSignal f s g xs)
    ∧ macdSignal f s g xs = ema0 (alpha g) (macdLine f s xs)
    ∧ macdLine f s xs = List.zipWith (fun a b => a - b) (ema0 (alpha f) xs) (ema0 (alpha s) xs) :=
  ⟨rfl, rfl, rfl⟩

/-- DEMA = 2·EMA − EMA(EMA), TEMA = 3·EMA − 3·EMA(EMA) + EMA(EMA(EMA)) (EMAs started at the first value) -/
theorem dema_tema_def (p : Nat) (xs : List Rat) :
    demaR p xs = List.zipWith (fun e1 e2 => 2 * e1 - e2) (ema0 (alpha p) xs) (ema0 (alpha p) (ema0 (alpha p) xs))
    ∧ temaR p xs = List.zipWith (fun e12 e3 => e12 + e3)
        (List.zipWith (fun e1 e2 => 3 * e1 - 3 * e2) (ema0 (alpha p) xs) (ema0 (alpha p) (ema0 (alpha p) xs)))
        (ema0 (alpha p) (ema0 (alpha p) (ema0 (alpha p) xs))) :=
  ⟨rfl, rfl⟩

/-- seed independence, algebraically: two runs of the exponential recurrence `α·x + (1-α)·prev`
    that differ only in their seed differ at row `i` by exactly `(1-α)^(i+1)` times the seed
    difference — so the influence of ANY start-up seed decays geometrically -/
theorem smoother_seed_independence (a s1 s2 : Rat) (xs : List Rat) (i : Nat) (hi : i < xs.length) :
    ∃ y1 y2, (scanState (smoothStep a) s1 xs)[i]? = some y1 ∧ (scanState (smoothStep a) s2 xs)[i]? = some y2
      ∧ y1 - y2 = (1 - a) ^ (i + 1) * (s1 - s2) := smooth_seed_diff a s1 s2 xs i hi

/-- for `rma` (whose seed is, wrongly, the LAST input value — C13): at row `i` it differs from the same
    recurrence started from any other seed `s` by `(1-1/p)^(i+1)·(x_last - s)` -/
theorem rma_seed_decay (p : Nat) (xs : List Rat) (s : Rat) (i : Nat) (hi : i < xs.length) :
    ∃ y1 y2, (rmaR p xs)[i]? = some y1 ∧ (scanState (rmaStep p) s xs)[i]? = some y2
      ∧ y1 - y2 = (1 - 1 / (p : Rat)) ^ (i + 1) * (rmaSeed xs - s) := by
  unfold rmaR
  rw [rmaStep_eq]
  exact smooth_seed_diff _ _ _ xs i hi

/-! ### non-negativity -/

/-- the true range is non-negative on valid candles (low ≤ high) -/
theorem tr_nonneg (cs : List Candle) (hv : ∀ k ∈ cs, k.l ≤ k.h) : ∀ t ∈ trR cs, 0 ≤ t := by
  unfold trR
  apply scanState_forall trStep (fun _ => True) (fun k => k.l ≤ k.h) (fun t => 0 ≤ t) _ none trivial cs hv
  intro s k _ hk
  refine ⟨trivial, ?_⟩
  unfold trStep trOf
  cases s with
  | none => simp; linarith
  | some c =>
    simp only
    rw [maxR_eq_max, maxR_eq_max]
    exact le_trans (absR_nonneg (k.l - c)) (le_max_right _ _)

/-- ATR is non-negative on valid candles -/
theorem atr_nonneg (p : Nat) (cs : List Candle) (hp : 0 < p) (hv : ∀ k ∈ cs, k.l ≤ k.h) :
    ∀ a ∈ atr p cs, ∀ v, a = some v → 0 ≤ v := by
  have hpR : (0 : Rat) < (p : Rat) := by exact_mod_cast hp
  unfold atr seeded
  apply scanState_forall (seededStep p (wilderUpd p)) (fun s => 0 ≤ s.2) (fun t => 0 ≤ t)
    (fun a => ∀ v, a = some v → 0 ≤ v) _ (0, 0) (le_refl _) (trR cs) (tr_nonneg cs hv)
  intro s t hs ht
  unfold seededStep
  split
  · exact ⟨by simp; linarith, by intro v h; cases h⟩
  · split
    · have : 0 ≤ (s.2 + t) / (p : Rat) := div_nonneg (by linarith) (le_of_lt hpR)
      exact ⟨this, by intro v h; cases h; exact this⟩
    · have : 0 ≤ wilderUpd p s.2 t := by
        unfold wilderUpd
        apply div_nonneg _ (le_of_lt hpR)
        have : (1 : Rat) ≤ (p : Rat) := by exact_mod_cast hp
        nlinarith
      exact ⟨this, by intro v h; cases h; exact this⟩

/-! ### bounded oscillators -/

/-- RSI stays in [0, 100] for every input and every period ≥ 1 -/
theorem rsi_range (p : Nat) (hp : 0 < p) (xs : List Rat) :
    ∀ y ∈ rsi p xs, ∀ v, y = some v → 0 ≤ v ∧ v ≤ 100 := by
  have hpR : (0 : Rat) < (p : Rat) := by exact_mod_cast hp
  unfold rsi
  apply scanState_forall (rsiStep p) (fun s => 0 ≤ s.g ∧ 0 ≤ s.l) (fun _ => True)
    (fun y => ∀ v, y = some v → 0 ≤ v ∧ v ≤ 100) _ _ ⟨le_refl _, le_refl _⟩ xs (fun _ _ => trivial)
  intro s x ⟨hg, hl⟩ _
  have g0 := gainOf_nonneg (x - s.prev)
  have l0 := lossOf_nonneg (x - s.prev)
  unfold rsiStep
  split
  · exact ⟨⟨le_refl _, le_refl _⟩, by intro v h; cases h⟩
  · split
    · exact ⟨⟨by simp; linarith, by simp; linarith⟩, by intro v h; cases h⟩
    · split
      · have h1 : 0 ≤ (s.g + gainOf (x - s.prev)) / (p : Rat) := div_nonneg (by linarith) (le_of_lt hpR)
        have h2 : 0 ≤ (s.l + lossOf (x - s.prev)) / (p : Rat) := div_nonneg (by linarith) (le_of_lt hpR)
        exact ⟨⟨h1, h2⟩, by intro v h; cases h; exact rsiVal_range _ _ h1 h2⟩
      · have h1 := wilderUpd_nonneg p hp s.g _ hg g0
        have h2 := wilderUpd_nonneg p hp s.l _ hl l0
        exact ⟨⟨h1, h2⟩, by intro v h; cases h; exact rsiVal_range _ _ h1 h2⟩

example : (rsi 2 [1, 2, 3, 2])[3]? = some (some (100 - 100 / (1 + (1 / 2) / (1 / 2)))) := by decide +kernel

/-- the money flow index stays in [0, 100] for non-negative prices and volumes -/
theorem mfi_range (p : Nat) (cs : List Candle) (hv : ∀ k ∈ cs, 0 ≤ tpOf k ∧ 0 ≤ k.v) :
    ∀ y ∈ mfi p cs, ∀ v, y = some v → 0 ≤ v ∧ v ≤ 100 := by
  intro y hy v hyv
  unfold mfi trailing at hy
  obtain ⟨i, hi, rfl⟩ := mem_pmap _ _ _ hy
  split at hyv
  · cases hyv
  · have hflows : ∀ f ∈ mfiFlows cs, 0 ≤ f.1 ∧ 0 ≤ f.2 := by
      intro f hf
      unfold mfiFlows at hf
      obtain ⟨j, hj, rfl⟩ := mem_pmap _ _ _ hf
      exact mfiFlow_nonneg _ (fun k hk => hv k (List.mem_of_mem_take hk))
    have hw : ∀ f ∈ lastN p ((mfiFlows cs).take (i + 1)), 0 ≤ f.1 ∧ 0 ≤ f.2 := by
      intro f hf
      exact hflows f (List.mem_of_mem_take (List.mem_of_mem_drop hf))
    have := Option.some.inj hyv
    rw [← this]
    apply mfiVal_range
    · apply sum_nonneg_of; intro x hx
      obtain ⟨f, hf, rfl⟩ := List.mem_map.mp hx
      exact (hw f hf).1
    · apply sum_nonneg_of; intro x hx
      obtain ⟨f, hf, rfl⟩ := List.mem_map.mp hx
      exact (hw f hf).2

/-- stochastic %K of a window lies in [0, 100] on valid candles (low ≤ close ≤ high); it is the textbook
    `100·(C - LL)/(HH - LL)` and undefined (NaN) exactly when the window is flat -/
theorem percentK_range (w : List Candle) (hv : ∀ k ∈ w, k.l ≤ k.c ∧ k.c ≤ k.h) :
    ∀ r, percentKWin w = some r → 0 ≤ r ∧ r ≤ 100
      ∧ ∀ k, w.getLast? = some k → r = percentK (maxL (highs w)) (minL (lows w)) k.c := by
  intro r hr
  unfold percentKWin at hr
  cases hk : w.getLast? with
  | none => rw [hk] at hr; cases hr
  | some k =>
    rw [hk] at hr
    have hkm : k ∈ w := List.mem_of_getLast? hk
    have hkv := hv k hkm
    have hmax : k.h ≤ maxL (highs w) := le_maxL _ _ (by simp [highs]; exact ⟨k, hkm, rfl⟩)
    have hmin : minL (lows w) ≤ k.l := minL_le _ _ (by simp [lows]; exact ⟨k, hkm, rfl⟩)
    obtain ⟨M, hM⟩ : ∃ M, maxL (highs w) = M := ⟨_, rfl⟩
    obtain ⟨m, hm⟩ : ∃ m, minL (lows w) = m := ⟨_, rfl⟩
    rw [hM] at hr hmax ⊢
    rw [hm] at hr hmin ⊢
    simp only [odiv, Option.bind_eq_bind, Option.bind_some, Option.pure_def] at hr
    by_cases hz : M - m = 0
    · simp [hz] at hr
    · simp only [hz, if_false] at hr
      have hD : 0 < M - m := lt_of_le_of_ne (by linarith [hkv.1, hkv.2]) (Ne.symm hz)
      have hr' : r = 100 * (k.c - m) / (M - m) := (Option.some.inj hr).symm
      rw [hr']
      refine ⟨div_nonneg (by nlinarith [hkv.1]) (le_of_lt hD), ?_, ?_⟩
      · rw [div_le_iff₀ hD]; nlinarith [hkv.2]
      · intro k' hk'; cases hk'; rfl

/-- hence the fast stochastic %K series stays in [0, 100] wherever it is defined -/
theorem stochf_k_range (p : Nat) (cs : List Candle) (hv : ∀ k ∈ cs, k.l ≤ k.c ∧ k.c ≤ k.h) (i : Nat) (r : Rat)
    (h : (stochfK p cs)[i]? = some (some r)) : 0 ≤ r ∧ r ≤ 100 := by
  have hi : i < cs.length := by
    by_contra hc
    have : (stochfK p cs).length = cs.length := length_pmap _ _
    rw [List.getElem?_eq_none (by omega)] at h; cases h
  unfold stochfK at h
  rw [pmap_getElem? _ _ _ hi] at h
  have hw : ∀ k ∈ lastN p (cs.take (i + 1)), k.l ≤ k.c ∧ k.c ≤ k.h := by
    intro k hk
    exact hv k (List.mem_of_mem_take (List.mem_of_mem_drop hk))
  have := percentK_range _ hw r (Option.some.inj h)
  exact ⟨this.1, this.2.1⟩

/-! ### band orderings for every non-negative `sqrt` -/

/-- Bollinger bands are ordered upper ≥ middle ≥ lower wherever all three are defined, for non-negative
    deviations multipliers and every function used as `sqrt` that is non-negative -/
theorem bollinger_ordered (sqrt : Rat → Rat) (hs : ∀ x, 0 ≤ sqrt x) (p : Nat) (du dd : Rat) (hdu : 0 ≤ du) (hdd : 0 ≤ dd)
    (xs : List Rat) (i : Nat) (u m l : Rat)
    (hu : (bbUpper sqrt p du xs)[i]? = some (some u)) (hm : (bbMiddle p xs)[i]? = some (some m))
    (hl : (bbLower sqrt p dd xs)[i]? = some (some l)) : l ≤ m ∧ m ≤ u := by
  have hi : i < xs.length := by
    by_contra hc
    have : (bbMiddle p xs).length = xs.length := by simp [bbMiddle, sma, trailing, length_pmap]
    rw [List.getElem?_eq_none (by omega)] at hm; cases hm
  unfold bbMiddle at hm
  have hd : (bbDev sqrt p xs)[i]? = some (if i + 1 < p then none else
      some (sqrt (maxR (Jesse.Ind.sum ((window p i xs).map (fun x => x * x)) / (p : Rat)
        - meanOf p (window p i xs) * meanOf p (window p i xs)) 0))) := by
    unfold bbDev; rw [trailing_getElem? _ _ _ _ hi]
  by_cases hp : i + 1 < p
  · rw [if_pos hp] at hd
    unfold bbUpper at hu
    rw [List.getElem?_zipWith, hm, List.getElem?_map, hd] at hu
    simp [oadd, oscale] at hu
  · rw [if_neg hp] at hd
    obtain ⟨d, hdv⟩ : ∃ d, sqrt (maxR (Jesse.Ind.sum ((window p i xs).map (fun x => x * x)) / (p : Rat)
        - meanOf p (window p i xs) * meanOf p (window p i xs)) 0) = d := ⟨_, rfl⟩
    have hd0 : 0 ≤ d := by rw [← hdv]; exact hs _
    rw [hdv] at hd
    unfold bbUpper at hu
    unfold bbLower at hl
    rw [List.getElem?_zipWith, hm, List.getElem?_map, hd] at hu hl
    simp [oadd, osub, oscale] at hu hl
    constructor
    · rw [← hl]; nlinarith
    · rw [← hu]; nlinarith

/-- Keltner channel: upper ≥ middle ≥ lower wherever defined, on valid candles, for a non-negative multiplier -/
theorem keltner_ordered (p : Nat) (hp : 0 < p) (mult : Rat) (hmu : 0 ≤ mult) (s : Source) (cs : List Candle)
    (hv : ∀ k ∈ cs, k.l ≤ k.h) (i : Nat) (u m l : Rat)
    (hu : (keltnerUpper p mult s cs)[i]? = some (some u)) (hm : (keltnerMiddle p s cs)[i]? = some (some m))
    (hl : (keltnerLower p mult s cs)[i]? = some (some l)) : l ≤ m ∧ m ≤ u := by
  unfold keltnerMiddle at hm
  unfold keltnerUpper at hu
  unfold keltnerLower at hl
  rw [List.getElem?_zipWith, hm, List.getElem?_map] at hu hl
  cases ha : (atr p cs)[i]? with
  | none => rw [ha] at hu; simp at hu
  | some a =>
    rw [ha] at hu hl
    cases a with
    | none => simp [oadd, oscale] at hu
    | some av =>
      have h0 : 0 ≤ av := atr_nonneg p cs hp hv (some av) (List.mem_of_getElem? ha) av rfl
      simp [oadd, osub, oscale] at hu hl
      constructor
      · rw [← hl]; nlinarith
      · rw [← hu]; nlinarith

/-- the standard deviation is non-negative for every non-negative `sqrt` and multiplier -/
theorem stddev_nonneg (sqrt : Rat → Rat) (hs : ∀ x, 0 ≤ sqrt x) (p : Nat) (nb : Rat) (hnb : 0 ≤ nb) (xs : List Rat)
    (i : Nat) (v : Rat) (h : (stddev sqrt p nb xs)[i]? = some (some v)) : 0 ≤ v := by
  have hi : i < xs.length := by
    by_contra hc
    have : (stddev sqrt p nb xs).length = xs.length := by simp [stddev, trailing, length_pmap]
    rw [List.getElem?_eq_none (by omega)] at h; cases h
  unfold stddev at h
  rw [trailing_getElem? _ _ _ _ hi] at h
  by_cases hp : i + 1 < p
  · simp [hp] at h
  · simp only [hp, if_false] at h
    have : v = sqrt (popVar p (window p i xs)) * nb := (Option.some.inj (Option.some.inj h)).symm
    rw [this]; exact mul_nonneg (hs _) hnb

/-- Σ (x − μ)² = Σ x² − 2 μ Σ x + n μ², for every μ -/
theorem sum_sq_dev (w : List Rat) (mu : Rat) :
    sum (w.map (fun x => (x - mu) * (x - mu))) = sum (w.map (fun x => x * x)) - 2 * mu * sum w + (w.length : Rat) * mu * mu := by
  induction w with
  | nil => simp [sum]
  | cons x xs ih =>
    have e1 : sum ((x :: xs).map (fun x => (x - mu) * (x - mu))) = (x - mu) * (x - mu) + sum (xs.map (fun x => (x - mu) * (x - mu))) := rfl
    have e2 : sum ((x :: xs).map (fun x => x * x)) = x * x + sum (xs.map (fun x => x * x)) := rfl
    have e3 : sum (x :: xs) = x + sum xs := rfl
    rw [e1, e2, e3, ih, List.length_cons]
    push_cast; ring

/-- the shortcut `mean(x²) − mean(x)²` that var.py computes IS the population variance `mean((x − mean)²)` of the window -/
theorem shortcut_is_popVar (p : Nat) (hp : 0 < p) (w : List Rat) (hw : w.length = p) :
    meanOf p (w.map (fun x => x * x)) - meanOf p w * meanOf p w = popVar p w := by
  have hp' : (p : Rat) ≠ 0 := by exact_mod_cast (Nat.pos_iff_ne_zero.mp hp)
  unfold popVar
  rw [sum_sq_dev w (meanOf p w), hw]
  unfold meanOf
  field_simp
  ring

theorem sum_sq_nonneg (w : List Rat) (mu : Rat) : 0 ≤ sum (w.map (fun x => (x - mu) * (x - mu))) := by
  induction w with
  | nil => simp [sum]
  | cons x xs ih =>
    have e1 : sum ((x :: xs).map (fun x => (x - mu) * (x - mu))) = (x - mu) * (x - mu) + sum (xs.map (fun x => (x - mu) * (x - mu))) := rfl
    rw [e1]; nlinarith [mul_self_nonneg (x - mu)]

/-- VAR: every defined value is the population variance of its trailing window times `nbdev` — and therefore never
    negative for a non-negative multiplier (in exact arithmetic; the float shortcut can dip below zero by rounding,
    which is what the oracle's tolerance is for) -/
theorem var_is_population_variance (p : Nat) (hp : 0 < p) (nb : Rat) (xs : List Rat) (i : Nat) (v : Rat)
    (h : (var p nb xs)[i]? = some (some v)) :
    i < xs.length ∧ p ≤ i + 1 ∧ v = popVar p (window p i xs) * nb := by
  have hi : i < xs.length := by
    by_contra hc
    have : (var p nb xs).length = xs.length := by simp [var, trailing, length_pmap]
    rw [List.getElem?_eq_none (by omega)] at h; cases h
  unfold var at h
  rw [trailing_getElem? _ _ _ _ hi] at h
  by_cases hpi : i + 1 < p
  · simp [hpi] at h
  · simp only [hpi, if_false] at h
    have hv : v = (meanOf p ((window p i xs).map (fun x => x * x)) - meanOf p (window p i xs) * meanOf p (window p i xs)) * nb :=
      (Option.some.inj (Option.some.inj h)).symm
    refine ⟨hi, by omega, ?_⟩
    rw [hv, shortcut_is_popVar p hp _ (length_window p i xs hi (by omega))]

theorem var_nonneg (p : Nat) (hp : 0 < p) (nb : Rat) (hnb : 0 ≤ nb) (xs : List Rat) (i : Nat) (v : Rat)
    (h : (var p nb xs)[i]? = some (some v)) : 0 ≤ v := by
  obtain ⟨_, _, hv⟩ := var_is_population_variance p hp nb xs i v h
  rw [hv]
  apply mul_nonneg _ hnb
  unfold popVar
  apply div_nonneg (sum_sq_nonneg _ _)
  exact_mod_cast Nat.zero_le p

/-- BOLLINGER deviation: the numba kernel's `sqrt(max(sum_sq/p − mean², 0))` is `sqrt` of the population variance of
    the window — the clamp at zero never acts in exact arithmetic -/
theorem bollinger_dev_is_std (sqrt : Rat → Rat) (p : Nat) (hp : 0 < p) (xs : List Rat) (i : Nat) (v : Rat)
    (h : (bbDev sqrt p xs)[i]? = some (some v)) :
    i < xs.length ∧ p ≤ i + 1 ∧ v = sqrt (popVar p (window p i xs)) := by
  have hi : i < xs.length := by
    by_contra hc
    have : (bbDev sqrt p xs).length = xs.length := by simp [bbDev, trailing, length_pmap]
    rw [List.getElem?_eq_none (by omega)] at h; cases h
  unfold bbDev at h
  rw [trailing_getElem? _ _ _ _ hi] at h
  by_cases hpi : i + 1 < p
  · simp [hpi] at h
  · simp only [hpi, if_false] at h
    have hv := (Option.some.inj (Option.some.inj h)).symm
    refine ⟨hi, by omega, ?_⟩
    have hsc := shortcut_is_popVar p hp (window p i xs) (length_window p i xs hi (by omega))
    have hnn : 0 ≤ popVar p (window p i xs) := by
      unfold popVar
      exact div_nonneg (sum_sq_nonneg _ _) (by exact_mod_cast Nat.zero_le p)
    have hm : sum ((window p i xs).map (fun x => x * x)) / (p : Rat) = meanOf p ((window p i xs).map (fun x => x * x)) := rfl
    rw [hv, hm, hsc]
    congr 1
    unfold maxR
    split <;> first | rfl | linarith

/-- non-vacuity: var(period 2) of 1, 3, 7 is 1 and 4 -/
example : var 2 1 [1, 3, 7] = [none, some 1, some 4] := by decide +kernel

/-- CCI: every defined value is `(tp − mean) / (0.015 · mean absolute deviation)` of the trailing window of typical
    prices — and 0 where the deviation is 0 (the guard of `calculate_cci_loop`) -/
theorem cci_def (p : Nat) (hp0 : 0 < p) (cs : List Candle) (i : Nat) (v : Rat) (h : (cci p cs)[i]? = some (some v)) :
    ∃ t, (cs.map tpOf)[i]? = some t ∧ p ≤ i + 1 ∧
      let w := window p i (cs.map tpOf)
      let md := sum (w.map (fun x => Jesse.Ind.abs (x - sum w / (p : Rat)))) / (p : Rat)
      (md = 0 → v = 0) ∧ (md ≠ 0 → v = Spec.Ind.cciOf t (sum w / (p : Rat)) md) := by
  have hi : i < (cs.map tpOf).length := by
    by_contra hc
    have : (cci p cs).length = (cs.map tpOf).length := by simp [cci, trailing, length_pmap]
    rw [List.getElem?_eq_none (by omega)] at h; cases h
  unfold cci at h
  rw [trailing_getElem? _ _ _ _ hi] at h
  by_cases hpi : i + 1 < p
  · simp [hpi] at h
  · simp only [hpi, if_false] at h
    have hw := h
    unfold cciWin at hw
    -- the last row of the window is row i
    have hlast : (window p i (cs.map tpOf)).getLast? = (cs.map tpOf)[i]? := by
      unfold window
      rw [List.getLast?_eq_getElem?]
      have hl : ((List.drop (i + 1 - p) (cs.map tpOf)).take p).length = min p ((cs.map tpOf).length - (i + 1 - p)) := by simp
      rw [hl, List.getElem?_take, List.getElem?_drop]
      have hmin : min p ((cs.map tpOf).length - (i + 1 - p)) = p := by omega
      rw [hmin, if_pos (by omega)]
      congr 1; omega
    rw [hlast, List.getElem?_eq_getElem hi] at hw
    refine ⟨(cs.map tpOf)[i], List.getElem?_eq_getElem hi, by omega, ?_⟩
    simp only at hw
    refine ⟨?_, ?_⟩
    · intro hz
      rw [if_pos hz] at hw
      exact (Option.some.inj (Option.some.inj hw)).symm
    · intro hnz
      rw [if_neg hnz] at hw
      exact (Option.some.inj (Option.some.inj hw)).symm

/-- TRIMA: the normalised triangular weights sum to one — the value is a weighted MEAN of the window -/
theorem sum_map_div (l : List Rat) (s : Rat) : sum (l.map (· / s)) = sum l / s := by
  induction l with
  | nil => simp [sum]
  | cons x xs ih =>
    have e1 : sum ((x :: xs).map (· / s)) = x / s + sum (xs.map (· / s)) := rfl
    have e2 : sum (x :: xs) = x + sum xs := rfl
    rw [e1, e2, ih]; ring

theorem trima_weights_sum_one (p : Nat) (h : sum (trimaWeights p) ≠ 0) :
    sum ((trimaWeights p).map (· / sum (trimaWeights p))) = 1 := by
  rw [sum_map_div]; exact div_self h

/-- TRIMA: every defined value is the dot product of its trailing window with the normalised triangular weights -/
theorem trima_def (p : Nat) (xs : List Rat) (i : Nat) (hi : i < xs.length) (hpi : p ≤ i + 1) :
    (trima p xs)[i]? = some (some (dot (window p i xs) ((trimaWeights p).map (· / sum (trimaWeights p))))) := by
  unfold trima
  rw [trailing_getElem? _ _ _ _ hi, if_neg (by omega)]

/-- non-vacuity: the triangular weights of periods 4 and 5 are 1 2 2 1 and 1 2 3 2 1 -/
example : trimaWeights 4 = [1, 2, 2, 1] ∧ trimaWeights 5 = [1, 2, 3, 2, 1] := by decide +kernel

/-! ### homogeneity: price-homogeneous averages scale linearly with the price -/

/-- `sma(c·x) = c·sma(x)` -/
theorem sma_homogeneous (p : Nat) (c : Rat) (xs : List Rat) :
    sma p (xs.map (c * ·)) = (sma p xs).map (oscale c) := by
  unfold sma
  rw [trailing_hom p _ c (fun w => by simp [dot_map_mul])]
  rfl

/-- `wma(c·x) = c·wma(x)` -/
theorem wma_homogeneous (p : Nat) (c : Rat) (xs : List Rat) :
    wma p (xs.map (c * ·)) = (wma p xs).map (oscale c) := by
  unfold wma
  rw [trailing_hom p _ c (fun w => by simp [dot_map_mul, mul_div_assoc])]
  rfl

/-- `ema(c·x) = c·ema(x)` (seed and recurrence are both linear) -/
theorem ema_homogeneous (p : Nat) (c : Rat) (xs : List Rat) (hp : 0 < p) :
    ema p (xs.map (c * ·)) = (ema p xs).map (oscale c) := by
  unfold ema
  rw [seeded_hom p _ c hp (fun a b => by unfold emaUpd; ring)]
  rfl

example : sma 2 ([1, 2, 4].map ((3 : Rat) * ·)) = (sma 2 [1, 2, 4]).map (oscale 3) := by decide +kernel

/-! ### the generic moving-average selector -/

/-- `ma(candles, period, matype, …)`: the if/elif chain re-read from ma.py on every run sends every
    matype to the function its docstring names (documented matypes that are not dispatched are exactly
    those for which `ma` raises), and dispatches nothing the docstring does not list. -/
theorem ma_dispatch :
    maDocstring.all (fun e => maInvalid.contains e.1 || maDispatch.any (fun d => d.1 == e.1 && d.2.1 == e.2)) = true
    ∧ maDispatch.all (fun d => maDocstring.contains (d.1, d.2.1) && !maInvalid.contains d.1) = true
    ∧ maDispatch.length ≥ 30 := by
  decide +kernel

end C15
