/-
  Proofs/Lemmas/Aggregate.lean — helper lemmas for C07: the generated aggregation function vs the
  reference, and the window decomposition.
-/
import Jesse.Store
import Spec.Aggregate

namespace AggLemmas
open Jesse Spec

theorem foldl_max_eq (xs : List Rat) (acc : Rat) :
    xs.foldl (fun a b => if a < b then b else a) acc = maxOf xs acc := by
  induction xs generalizing acc with
  | nil => rfl
  | cons x xs ih => simp only [List.foldl_cons, maxOf]; exact ih _

theorem foldl_min_eq (xs : List Rat) (acc : Rat) :
    xs.foldl (fun a b => if b < a then b else a) acc = minOf xs acc := by
  induction xs generalizing acc with
  | nil => rfl
  | cons x xs ih => simp only [List.foldl_cons, minOf]; exact ih _

theorem foldl_add_eq (xs : List Rat) (acc : Rat) :
    xs.foldl (· + ·) acc = acc + sumOf xs := by
  induction xs generalizing acc with
  | nil => simp only [List.foldl_nil, sumOf]; exact (Rat.add_zero acc).symm
  | cons x xs ih => simp only [List.foldl_cons, sumOf]; rw [ih]; rw [Rat.add_assoc]

theorem maxOf_ge_acc (xs : List Rat) (acc : Rat) : acc ≤ maxOf xs acc := by
  induction xs generalizing acc with
  | nil => exact Rat.le_refl
  | cons x xs ih =>
    simp only [maxOf]
    split
    · exact Rat.le_trans (Rat.le_of_lt ‹_›) (ih x)
    · exact ih acc

theorem maxOf_ge_mem (xs : List Rat) (acc : Rat) (y : Rat) (hy : y ∈ xs) : y ≤ maxOf xs acc := by
  induction xs generalizing acc with
  | nil => cases hy
  | cons x xs ih =>
    simp only [maxOf]
    rcases List.mem_cons.mp hy with h | h
    · subst h
      split
      · exact maxOf_ge_acc xs y
      · exact Rat.le_trans (Rat.not_lt.mp ‹_›) (maxOf_ge_acc xs acc)
    · exact ih _ h

theorem minOf_le_acc (xs : List Rat) (acc : Rat) : minOf xs acc ≤ acc := by
  induction xs generalizing acc with
  | nil => exact Rat.le_refl
  | cons x xs ih =>
    simp only [minOf]
    split
    · exact Rat.le_trans (ih x) (Rat.le_of_lt ‹_›)
    · exact ih acc

theorem minOf_le_mem (xs : List Rat) (acc : Rat) (y : Rat) (hy : y ∈ xs) : minOf xs acc ≤ y := by
  induction xs generalizing acc with
  | nil => cases hy
  | cons x xs ih =>
    simp only [minOf]
    rcases List.mem_cons.mp hy with h | h
    · subst h
      split
      · exact minOf_le_acc xs y
      · exact Rat.le_trans (minOf_le_acc xs acc) (Rat.not_lt.mp ‹_›)
    · exact ih _ h

theorem maxOf_mem (xs : List Rat) (acc : Rat) : maxOf xs acc = acc ∨ maxOf xs acc ∈ xs := by
  induction xs generalizing acc with
  | nil => left; rfl
  | cons x xs ih =>
    simp only [maxOf]
    split
    · rcases ih x with h | h
      · right; rw [h]; exact List.mem_cons_self
      · right; exact List.mem_cons_of_mem _ h
    · rcases ih acc with h | h
      · left; exact h
      · right; exact List.mem_cons_of_mem _ h

theorem minOf_mem (xs : List Rat) (acc : Rat) : minOf xs acc = acc ∨ minOf xs acc ∈ xs := by
  induction xs generalizing acc with
  | nil => left; rfl
  | cons x xs ih =>
    simp only [minOf]
    split
    · rcases ih x with h | h
      · right; rw [h]; exact List.mem_cons_self
      · right; exact List.mem_cons_of_mem _ h
    · rcases ih acc with h | h
      · left; exact h
      · right; exact List.mem_cons_of_mem _ h

/-! ### windows -/

theorem windows_nil (m : Nat) : windows m [] = [] := by
  rw [windows]; simp

theorem windows_zero (ones : List Candle) : windows 0 ones = [] := by
  rw [windows]; simp

theorem windows_step (m : Nat) (ones : List Candle) (hm : 0 < m) (hne : ones ≠ []) :
    windows m ones = ones.take m :: windows m (ones.drop m) := by
  rw [windows]
  have : ¬ (m = 0 ∨ ones = []) := by
    intro h; rcases h with h | h
    · omega
    · exact hne h
  simp [this]

theorem windows_block_append (m : Nat) (block rest : List Candle) (hm : 0 < m) (hb : block.length = m) :
    windows m (block ++ rest) = block :: windows m rest := by
  have hne : block ++ rest ≠ [] := by
    intro h
    have h0 : (block ++ rest).length = 0 := by rw [h]; rfl
    rw [List.length_append] at h0; omega
  rw [windows_step m _ hm hne]
  congr 1
  · rw [List.take_append_of_le_length (by omega), List.take_of_length_le (by omega)]
  · rw [List.drop_append_of_le_length (by omega), List.drop_of_length_le (by omega)]; simp

theorem windows_short (m : Nat) (b : List Candle) (hm : 0 < m) (hne : b ≠ []) (hb : b.length ≤ m) :
    windows m b = [b] := by
  rw [windows_step m b hm hne, List.take_of_length_le hb, List.drop_of_length_le hb, windows_nil]

/-- a list whose length is `k·m` followed by anything: the windows of the prefix, then the rest's -/
theorem windows_prefix_append (m k : Nat) (a b : List Candle) (hm : 0 < m) (ha : a.length = k * m) :
    windows m (a ++ b) = windows m a ++ windows m b := by
  induction k generalizing a with
  | zero =>
    have : a = [] := List.length_eq_zero_iff.mp (by simpa using ha)
    subst this; simp [windows_nil]
  | succ k ih =>
    have hlen : m ≤ a.length := by rw [ha]; exact Nat.le_mul_of_pos_left m (by omega)
    have hsplit : a = a.take m ++ a.drop m := (List.take_append_drop m a).symm
    have htl : (a.take m).length = m := by simp; omega
    have hdl : (a.drop m).length = k * m := by
      simp only [List.length_drop, ha]; rw [Nat.succ_mul]; omega
    rw [hsplit, List.append_assoc, windows_block_append m _ _ hm htl, windows_block_append m _ _ hm htl,
      ih (a.drop m) hdl]
    rfl

end AggLemmas
