/-
  Proofs/Lemmas/Match.lean — helper lemmas for C02: the matching loop, candidate selection and sort.
-/
import Proofs.Lemmas.Sort
import Proofs.C08

namespace MatchLemmas
open Jesse Jesse.Eng Jesse.Gen SortLemmas

variable {M : Type} [Inhabited M] (u : UserStrategy M)

theorem mem_executingOrders (e : Engine M) (sym : Nat) (c : Candle) (id : Nat) :
    id ∈ executingOrders e sym c ↔
      id ∈ Acc.getD e.w.active sym ∧ (orderOf e id).status = .active ∧ candleIncludesPrice c (orderOf e id).price := by
  unfold executingOrders
  simp [List.mem_filter]

theorem firstHit_none_not_mem (e : Engine M) (c : Candle) (l : List Nat) (h : matchLoop.firstHit e c l = none)
    (id : Nat) (hid : id ∈ l) (hact : (orderOf e id).status = .active) (hinc : candleIncludesPrice c (orderOf e id).price) : False := by
  induction l with
  | nil => cases hid
  | cons y ys ih =>
    unfold matchLoop.firstHit at h
    by_cases hy : (orderOf e y).status ≠ .active
    · rw [if_pos hy] at h
      rcases List.mem_cons.mp hid with rfl | hid
      · exact hy hact
      · exact ih h hid
    · rw [if_neg hy] at h
      by_cases hi : candleIncludesPrice c (orderOf e y).price
      · rw [if_pos (by simpa using hi)] at h; cases h
      · rw [if_neg (by simpa using hi)] at h
        rcases List.mem_cons.mp hid with rfl | hid
        · exact hi hinc
        · exact ih h hid

theorem fail_err (e : Engine M) (k : Err) : (fail e k).err ≠ none := by
  unfold fail
  by_cases h : e.err.isSome
  · simp only [h, if_true]; intro h2; simp [h2] at h
  · simp [h]

/-- how the matching loop can return without an error: untouched (nothing to hit among the given
    candidates) or after at least one fill with nothing to hit in the last re-selection -/
theorem matchLoop_returns (fuel : Nat) (e : Engine M) (sym : Nat) (cur : Candle) (cands : List Nat)
    (reselect : Engine M → Candle → List Nat) (stamp : Bool)
    (herr : (matchLoop u fuel e sym cur cands reselect stamp).1.err = none) :
    ((matchLoop u fuel e sym cur cands reselect stamp).1 = e ∧ (matchLoop u fuel e sym cur cands reselect stamp).2 = cur
        ∧ matchLoop.firstHit (matchLoop u fuel e sym cur cands reselect stamp).1 (matchLoop u fuel e sym cur cands reselect stamp).2 cands = none)
    ∨ matchLoop.firstHit (matchLoop u fuel e sym cur cands reselect stamp).1 (matchLoop u fuel e sym cur cands reselect stamp).2
        (reselect (matchLoop u fuel e sym cur cands reselect stamp).1 (matchLoop u fuel e sym cur cands reselect stamp).2) = none := by
  induction fuel generalizing e cur cands with
  | zero =>
    unfold matchLoop at herr
    exact absurd herr (fail_err e _)
  | succ f ih =>
    unfold matchLoop at herr ⊢
    by_cases he : e.err.isSome
    · simp only [he, if_true] at herr
      simp [herr] at he
    · simp only [he] at herr ⊢
      simp only [Bool.false_eq_true, if_false] at herr ⊢
      cases hf : matchLoop.firstHit e cur cands with
      | none =>
        simp only [hf] at herr ⊢
        left; simp [hf]
      | some id =>
        simp only [hf] at herr ⊢
        cases hs : splitCandle cur (orderOf e id).price with
        | none =>
          simp only [hs] at herr
          exact absurd herr (fail_err e _)
        | some ab =>
          obtain ⟨a, b⟩ := ab
          simp only [hs] at herr ⊢
          rcases ih _ b _ herr with ⟨h1, h2, h3⟩ | h
          · right
            rw [h1, h2]
            rw [h1, h2] at h3
            exact h3
          · right; exact h

theorem market_go_drained (fuel : Nat) (e : Engine M) (i : Nat)
    (h : (executePendingMarketOrders.go u fuel e i).err = none) :
    (executePendingMarketOrders.go u fuel e i).toExecute = [] := by
  induction fuel generalizing e i with
  | zero =>
    unfold executePendingMarketOrders.go at h
    exact absurd h (fail_err e _)
  | succ f ih =>
    unfold executePendingMarketOrders.go at h ⊢
    by_cases he : e.err.isSome
    · simp only [he, if_true] at h
      simp [h] at he
    · simp only [he] at h ⊢
      simp only [Bool.false_eq_true, if_false] at h ⊢
      cases hq : e.toExecute[i]? with
      | none => simp
      | some id =>
        simp only [hq] at h ⊢
        exact ih _ _ h

/-! ### the sort on a single candle -/

/-- the sort on one candle `c`, when every order is inside `c` (the filter keeps everything) -/
theorem go_single (os : List Nat) (price : Nat → Rat) (c : Candle)
    (hf : os.filter (fun id => decide (candleIncludesPrice c (price id))) = os) :
    sortExecutionOrders.go os price [c] [] =
      if os.length = 1 then os
      else if os.length > 1 then
        (if c.o > c.c then
          os.filter (fun id => price id = c.o) ++ sortedBy price false (os.filter (fun id => price id > c.o))
            ++ sortedBy price true (os.filter (fun id => ¬ (price id > c.o)))
         else
          os.filter (fun id => price id = c.o) ++ sortedBy price true (os.filter (fun id => ¬ (price id > c.o)))
            ++ sortedBy price false (os.filter (fun id => price id > c.o)))
      else [] := by
  unfold sortExecutionOrders.go
  simp only [hf, List.nil_append]
  by_cases h1 : os.length = 1
  · simp only [h1, if_true]
  · by_cases h2 : os.length > 1
    · simp only [h1, h2, if_true, if_false]
      by_cases hr : c.o > c.c
      · simp only [hr, if_true]
        unfold sortExecutionOrders.go
        simp
      · simp only [hr, if_false]
        unfold sortExecutionOrders.go
        simp
    · simp only [h1, h2, if_false]
      unfold sortExecutionOrders.go
      simp

theorem sort_single_eq (e : Engine M) (os : List Nat) (c : Candle)
    (hall : ∀ id ∈ os, candleIncludesPrice c (orderOf e id).price) :
    sortExecutionOrders e os [c] =
      if os.length = 1 then os
      else if os.length > 1 then
        (if c.o > c.c then
          os.filter (fun id => (orderOf e id).price = c.o) ++ sortedBy (fun id => (orderOf e id).price) false (os.filter (fun id => (orderOf e id).price > c.o))
            ++ sortedBy (fun id => (orderOf e id).price) true (os.filter (fun id => ¬ ((orderOf e id).price > c.o)))
         else
          os.filter (fun id => (orderOf e id).price = c.o) ++ sortedBy (fun id => (orderOf e id).price) true (os.filter (fun id => ¬ ((orderOf e id).price > c.o)))
            ++ sortedBy (fun id => (orderOf e id).price) false (os.filter (fun id => (orderOf e id).price > c.o)))
      else [] := by
  unfold sortExecutionOrders
  exact go_single os _ c (List.filter_eq_self.mpr (by intro x hx; simpa using hall x hx))

theorem mem_sort_single (e : Engine M) (os : List Nat) (c : Candle) (id : Nat)
    (hall : ∀ id ∈ os, candleIncludesPrice c (orderOf e id).price) (hid : id ∈ os) :
    id ∈ sortExecutionOrders e os [c] := by
  rw [sort_single_eq e os c hall]
  by_cases h1 : os.length = 1
  · simp [h1, hid]
  · have h2 : os.length > 1 := by
      cases os with
      | nil => cases hid
      | cons x xs =>
        cases xs with
        | nil => simp at h1
        | cons y ys => simp
    simp only [h1, h2, if_true, if_false]
    by_cases hp : (orderOf e id).price > c.o
    · split <;> simp [List.mem_append, mem_sortedBy, List.mem_filter, hid, hp]
    · split <;> simp [List.mem_append, mem_sortedBy, List.mem_filter, hid, hp]

theorem head_of_append {α} {l1 l2 : List α} {a : α} {r : List α} (h : l1 ++ l2 = a :: r) :
    (l1 ≠ [] ∧ a ∈ l1) ∨ (l1 = [] ∧ l2 = a :: r) := by
  cases l1 with
  | nil => right; exact ⟨rfl, by simpa using h⟩
  | cons x xs =>
    left
    simp only [List.cons_append, List.cons.injEq] at h
    exact ⟨by simp, by simp [h.1]⟩

theorem sorted_nil_iff (key : Nat → Rat) (d : Bool) (xs : List Nat) : sortedBy key d xs = [] ↔ xs = [] := by
  constructor
  · intro h
    apply List.eq_nil_iff_forall_not_mem.mpr
    intro z hz
    have := (mem_sortedBy key d xs z).mpr hz
    rw [h] at this; cases this
  · intro h; subst h; rfl

/-- what the head of the single-candle sort tells about all the other candidates -/
theorem head_facts (e : Engine M) (os : List Nat) (c : Candle) (id0 : Nat) (rest : List Nat)
    (hall : ∀ id ∈ os, candleIncludesPrice c (orderOf e id).price)
    (hsort : sortExecutionOrders e os [c] = id0 :: rest) :
    id0 ∈ os
    ∧ ((orderOf e id0).price ≠ c.o → ∀ id ∈ os, (orderOf e id).price ≠ c.o)
    ∧ (¬ c.o > c.c → (orderOf e id0).price > c.o → ∀ id ∈ os, (orderOf e id0).price ≤ (orderOf e id).price)
    ∧ (c.o > c.c → (orderOf e id0).price < c.o → ∀ id ∈ os, (orderOf e id).price ≤ (orderOf e id0).price) := by
  rw [sort_single_eq e os c hall] at hsort
  by_cases h1 : os.length = 1
  · simp only [h1, if_true] at hsort
    subst hsort
    refine ⟨by simp, ?_, ?_, ?_⟩
    · intro hne id hid
      have : rest = [] := by simpa using h1
      subst this
      simp at hid; subst hid; exact hne
    · intro _ _ id hid
      have : rest = [] := by simpa using h1
      subst this
      simp at hid; subst hid; exact Rat.le_refl
    · intro _ _ id hid
      have : rest = [] := by simpa using h1
      subst this
      simp at hid; subst hid; exact Rat.le_refl
  · by_cases h2 : os.length > 1
    · simp only [h1, h2, if_true, if_false] at hsort
      -- abbreviations
      generalize hP : (fun id => (orderOf e id).price) = P at hsort
      have hPid : ∀ id, (orderOf e id).price = P id := by intro id; rw [← hP]
      simp only [hPid] at hsort ⊢
      have hmem0 : id0 ∈ os := by
        by_cases hr : c.o > c.c
        · simp only [hr, if_true] at hsort
          have : id0 ∈ (os.filter (fun id => P id = c.o) ++ sortedBy P false (os.filter (fun id => P id > c.o))
              ++ sortedBy P true (os.filter (fun id => ¬ (P id > c.o)))) := by rw [hsort]; simp
          simp only [List.mem_append, mem_sortedBy, List.mem_filter] at this
          rcases this with (h | h) | h <;> exact h.1
        · simp only [hr, if_false] at hsort
          have : id0 ∈ (os.filter (fun id => P id = c.o) ++ sortedBy P true (os.filter (fun id => ¬ (P id > c.o)))
              ++ sortedBy P false (os.filter (fun id => P id > c.o))) := by rw [hsort]; simp
          simp only [List.mem_append, mem_sortedBy, List.mem_filter] at this
          rcases this with (h | h) | h <;> exact h.1
      refine ⟨hmem0, ?_, ?_, ?_⟩
      · -- (A)
        intro hne id hid heq
        have hon : os.filter (fun id => P id = c.o) ≠ [] := by
          intro hnil
          have : id ∈ os.filter (fun id => P id = c.o) := by simp [List.mem_filter, hid, heq]
          rw [hnil] at this; cases this
        by_cases hr : c.o > c.c
        · simp only [hr, if_true, List.append_assoc] at hsort
          rcases head_of_append hsort with ⟨_, hm⟩ | ⟨hnil, _⟩
          · simp only [List.mem_filter, decide_eq_true_eq] at hm; exact hne hm.2
          · exact hon hnil
        · simp only [hr, if_false, List.append_assoc] at hsort
          rcases head_of_append hsort with ⟨_, hm⟩ | ⟨hnil, _⟩
          · simp only [List.mem_filter, decide_eq_true_eq] at hm; exact hne hm.2
          · exact hon hnil
      · -- (B) rising candle, head above the open
        intro hr hgt id hid
        simp only [hr, if_false, List.append_assoc] at hsort
        rcases head_of_append hsort with ⟨_, hm⟩ | ⟨_, hs2⟩
        · simp only [List.mem_filter, decide_eq_true_eq] at hm
          rw [hm.2] at hgt; exact absurd hgt (Rat.lt_irrefl)
        · rcases head_of_append hs2 with ⟨_, hm⟩ | ⟨hbn, hs3⟩
          · simp only [mem_sortedBy, List.mem_filter, decide_eq_true_eq] at hm
            exact absurd hgt (by simpa using hm.2)
          · have hb : os.filter (fun id => ¬ (P id > c.o)) = [] := (sorted_nil_iff P true _).mp hbn
            have hab : id ∈ os.filter (fun id => P id > c.o) := by
              by_cases hp : P id > c.o
              · simp [List.mem_filter, hid, hp]
              · have : id ∈ os.filter (fun id => ¬ (P id > c.o)) := by simp [List.mem_filter, hid, hp]
                rw [hb] at this; cases this
            have hs := asc_sortedBy P (os.filter (fun id => P id > c.o))
            rw [hs3] at hs
            exact head_le_of_asc P id0 rest hs id (by rw [← hs3]; exact (mem_sortedBy P false _ id).mpr hab)
      · -- (C) falling candle, head below the open
        intro hr hlt id hid
        simp only [hr, if_true, List.append_assoc] at hsort
        rcases head_of_append hsort with ⟨_, hm⟩ | ⟨_, hs2⟩
        · simp only [List.mem_filter, decide_eq_true_eq] at hm
          rw [hm.2] at hlt; exact absurd hlt (Rat.lt_irrefl)
        · rcases head_of_append hs2 with ⟨_, hm⟩ | ⟨han, hs3⟩
          · simp only [mem_sortedBy, List.mem_filter, decide_eq_true_eq] at hm
            exact absurd hm.2 (Rat.not_lt.mpr (Rat.le_of_lt hlt))
          · have ha : os.filter (fun id => P id > c.o) = [] := (sorted_nil_iff P false _).mp han
            have hbel : id ∈ os.filter (fun id => ¬ (P id > c.o)) := by
              by_cases hp : P id > c.o
              · have : id ∈ os.filter (fun id => P id > c.o) := by simp [List.mem_filter, hid, hp]
                rw [ha] at this; cases this
              · simp [List.mem_filter, hid, hp]
            have hs := desc_sortedBy P (os.filter (fun id => ¬ (P id > c.o)))
            rw [hs3] at hs
            exact le_head_of_desc P id0 rest hs id (by rw [← hs3]; exact (mem_sortedBy P true _ id).mpr hbel)
    · simp only [h1, h2, if_false] at hsort
      cases hsort

theorem head_first_on_path (e : Engine M) (os : List Nat) (c a b : Candle) (id0 : Nat) (rest : List Nat)
    (hv : c.Valid) (hall : ∀ id ∈ os, candleIncludesPrice c (orderOf e id).price)
    (hsort : sortExecutionOrders e os [c] = id0 :: rest)
    (hsplit : splitCandle c (orderOf e id0).price = some (a, b)) :
    ∀ id ∈ os, candleIncludesPrice b (orderOf e id).price := by
  obtain ⟨hm0, hA, hB, hC⟩ := head_facts e os c id0 rest hall hsort
  intro id hid
  have h0 := hall id0 hm0
  have h1 := hall id hid
  by_cases heq : (orderOf e id0).price = c.o
  · rw [heq, C08.split_at_open] at hsplit
    simp only [Option.some.injEq, Prod.mk.injEq] at hsplit
    rw [← hsplit.2]; exact h1
  · have hne := hA heq id hid
    rw [C08.split_is_path_split c _ hv h0.1 h0.2 heq] at hsplit
    simp only [Option.some.injEq] at hsplit
    have hb : b = (Spec.pathSplit c (orderOf e id0).price).2 := by rw [hsplit]
    rw [hb]
    obtain ⟨v1, v2, v3, v4⟩ := hv
    unfold candleIncludesPrice at *
    unfold Spec.pathSplit
    by_cases hr : c.o > c.c
    · have hC' := hC hr
      by_cases hlt : (orderOf e id0).price < c.o
      · have := hC' hlt id hid
        grind
      · grind
    · have hB' := hB hr
      by_cases hgt : (orderOf e id0).price > c.o
      · have := hB' hgt id hid
        grind
      · grind

end MatchLemmas
