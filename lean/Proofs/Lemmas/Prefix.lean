/-
  Proofs/Lemmas/Prefix.lean — helper lemmas for C01: everything the simulators read from the input
  arrays at iteration `i` lies in the first `i+1` rows.
-/
import Jesse.Engine

namespace PrefixLemmas
open Jesse Jesse.Eng

/-- two families of input arrays agree on their first `n` rows (and have the same number of arrays) -/
def Agree (n : Nat) (a b : List (List Candle)) : Prop :=
  a.length = b.length ∧ ∀ s, (a.getD s []).take n = (b.getD s []).take n

theorem Agree.refl (n : Nat) (a : List (List Candle)) : Agree n a a := ⟨rfl, fun _ => rfl⟩

theorem getElem?_of_take_eq {α} {xs ys : List α} {n i : Nat} (h : xs.take n = ys.take n) (hi : i < n) :
    xs[i]? = ys[i]? := by
  have h1 : (xs.take n)[i]? = xs[i]? := by rw [List.getElem?_take]; simp [hi]
  have h2 : (ys.take n)[i]? = ys[i]? := by rw [List.getElem?_take]; simp [hi]
  rw [← h1, ← h2, h]

theorem length_min_of_take_eq {α} {xs ys : List α} {n : Nat} (h : xs.take n = ys.take n) :
    min n xs.length = min n ys.length := by
  have := congrArg List.length h
  simpa [List.length_take] using this

theorem fixedRow_agree {xs ys : List Candle} {n i : Nat} (h : xs.take n = ys.take n) (hi : i < n) :
    fixedRow xs i = fixedRow ys i := by
  unfold fixedRow
  rw [getElem?_of_take_eq h hi]
  cases ys[i]? with
  | none => rfl
  | some c =>
    simp only []
    by_cases h0 : i = 0
    · simp [h0]
    · simp only [h0, if_false]
      rw [getElem?_of_take_eq h (by omega : i - 1 < n)]

theorem set_take_agree {xs ys : List Candle} {n i : Nat} (c : Candle) (h : xs.take n = ys.take n) :
    (xs.set i c).take n = (ys.set i c).take n := by
  rw [List.take_set, List.take_set, h]

/-- a slice whose bounds lie inside `[0, n]` only depends on the first `n` rows -/
theorem slice_agree {xs ys : List Candle} {n : Nat} (a b : Nat) (hb : b ≤ n) (h : xs.take n = ys.take n) :
    Py.slice xs (some (a : Int)) (some (b : Int)) = Py.slice ys (some (a : Int)) (some (b : Int)) := by
  have hl := length_min_of_take_eq h
  have key : ∀ (zs : List Candle), Py.slice zs (some (a : Int)) (some (b : Int)) = ((zs.take n).drop a).take (b - a) := by
    intro zs
    unfold Py.slice Py.startIdx Py.stopIdx Py.clampIdx
    have ha : ¬ ((a : Int) < 0) := by omega
    have hb' : ¬ ((b : Int) < 0) := by omega
    simp only [ha, hb', if_false, Int.toNat_natCast]
    by_cases h1 : a < zs.length
    · by_cases h2 : b < zs.length
      · simp only [h1, h2, if_true]
        rw [List.drop_take, List.take_take]
        congr 1; omega
      · simp only [h1, h2, if_true, if_false]
        rw [List.drop_take, List.take_take]
        have : zs.length ≤ b := by omega
        -- both take everything that is left
        have e1 : (zs.drop a).take (zs.length - a) = zs.drop a := List.take_of_length_le (by simp)
        have e2 : (zs.drop a).take (min (b - a) (n - a)) = zs.drop a := List.take_of_length_le (by simp only [List.length_drop]; omega)
        rw [e1, e2]
    · have hz : zs.length ≤ a := by omega
      simp only [h1, if_false]
      have e1 : zs.drop zs.length = [] := List.drop_of_length_le (Nat.le_refl _)
      have e2 : (zs.take n).drop a = [] := List.drop_of_length_le (by simp only [List.length_take]; omega)
      rw [e1, e2]; simp
  rw [key xs, key ys, h]

theorem agree_set (n : Nat) (a b : List (List Candle)) (s : Nat) (x y : List Candle) (h : Agree n a b)
    (hxy : x.take n = y.take n) : Agree n (a.set s x) (b.set s y) := by
  obtain ⟨hl, hs⟩ := h
  refine ⟨by simp [hl], ?_⟩
  intro t
  by_cases hst : s = t
  · subst hst
    by_cases hlt : s < a.length
    · have hlt' : s < b.length := by omega
      simp [List.getD_eq_getElem?_getD, hlt, hlt', hxy]
    · have hlt' : ¬ s < b.length := by omega
      have e1 : (a.set s x).getD s [] = a.getD s [] := by
        simp [List.getD_eq_getElem?_getD, List.getElem?_set, hlt]
      have e2 : (b.set s y).getD s [] = b.getD s [] := by
        simp [List.getD_eq_getElem?_getD, List.getElem?_set, hlt']
      rw [e1, e2]; exact hs s
  · have e1 : (a.set s x).getD t [] = a.getD t [] := by
      simp [List.getD_eq_getElem?_getD, List.getElem?_set, hst]
    have e2 : (b.set s y).getD t [] = b.getD t [] := by
      simp [List.getD_eq_getElem?_getD, List.getElem?_set, hst]
    rw [e1, e2]; exact hs t

end PrefixLemmas
