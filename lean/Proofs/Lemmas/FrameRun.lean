/-
  Proofs/Lemmas/FrameRun.lean — the frame facts of Proofs/Lemmas/Frame.lean lifted to whole strategy steps,
  minutes, chunks and runs of both simulators (for C05: order lifecycle at engine level).
-/
import Proofs.Lemmas.Compose

namespace FrameLemmas
open Jesse Jesse.Eng Jesse.Gen Jesse.Acc

variable {M : Type} [Inhabited M] (u : UserStrategy M)

theorem pendingGo_ext (fuel : Nat) (e : Engine M) (i : Nat) : EExt e (executePendingMarketOrders.go u fuel e i) := by
  induction fuel generalizing e i with
  | zero => unfold executePendingMarketOrders.go; exact fail_ext _ _
  | succ f ih =>
    unfold executePendingMarketOrders.go
    split
    · exact EExt.refl _
    · split
      · exact EExt.of_w rfl
      · exact EExt.trans (executeOrder_ext u _ _) (ih _ _)

theorem pending_ext (fuel : Nat) (e : Engine M) : EExt e (executePendingMarketOrders u fuel e) := by
  unfold executePendingMarketOrders
  split
  · exact EExt.refl _
  · exact pendingGo_ext u _ _ _

theorem entryExits_ext (e : Engine M) (r : Nat) (long spot : Bool) (d : Option Rows) (isStop : Bool) :
    EExt e (entryExits e r long spot d isStop) := by
  unfold entryExits
  split
  · split
    · exact fail_ext _ _
    · split
      · exact fail_ext _ _
      · exact setStrat_ext _ _ _
  · exact EExt.refl _

theorem executeEntry_ext (e : Engine M) (r : Nat) (long spot : Bool) : EExt e (executeEntry u e r long spot) := by
  unfold executeEntry
  cases long
  all_goals
    simp only [Bool.false_eq_true, if_false, if_true]
    have h1 := runHook_ext e r
    generalize hg : runHook e r _ _ = e1
    have h1' : EExt e e1 := by rw [← hg]; exact h1 _ _
    split
    · exact EExt.refl _
    · split
      · exact EExt.trans h1' (fail_ext _ _)
      · split
        · exact EExt.trans h1' (fail_ext _ _)
        · have h2 : ∀ f, EExt e (setStrat e1 r f) := fun f => EExt.trans h1' (setStrat_ext e1 r f)
          have h3 : ∀ f l d b, EExt e (entryExits (setStrat e1 r f) r l spot d b) := fun f l d b => EExt.trans (h2 f) (entryExits_ext _ r l spot d b)
          split
          · exact h3 _ _ _ _
          · have h4 : ∀ f l d b l' d' b', EExt e (entryExits (entryExits (setStrat e1 r f) r l spot d b) r l' spot d' b') :=
              fun f l d b l' d' b' => EExt.trans (h3 f l d b) (entryExits_ext _ r l' spot d' b')
            split
            · exact h4 _ _ _ _ _ _ _
            · exact EExt.trans (h4 _ _ _ _ _ _ _) (submitEntries_ext _ _ _ _)

theorem checkCancel_ext (e : Engine M) (r : Nat) : EExt e (checkCancel u e r) := by
  unfold checkCancel
  dsimp only
  split
  · split
    · exact EExt.trans (logE_ext _ _) (executeCancel_ext _ _)
    · exact logE_ext _ _
  · exact EExt.refl _

theorem checkUpdate_ext (e : Engine M) (r : Nat) : EExt e (checkUpdate u e r) := by
  unfold checkUpdate
  split
  · exact EExt.trans (runHook_ext _ _ _ _) (detectModifications_ext _ _)
  · exact EExt.refl _

theorem checkEntry_ext (e : Engine M) (r : Nat) (spot : Bool) : EExt e (checkEntry u e r spot) := by
  unfold checkEntry
  dsimp only
  have h4 := resetStrategy_ext e r
  generalize resetStrategy e r = e4 at *
  have h5 : ∀ ev, EExt e (logE e4 ev) := fun ev => EExt.trans h4 (logE_ext _ _)
  split
  · exact EExt.trans (h5 _) (fail_ext _ _)
  · have h6 : ∀ ev ev', EExt e (logE (logE e4 ev) ev') := fun ev ev' => EExt.trans (h5 ev) (logE_ext _ _)
    split
    · exact EExt.trans (h6 _ _) (fail_ext _ _)
    · split
      · exact EExt.trans (h6 _ _) (executeEntry_ext u _ _ _ _)
      · split
        · exact EExt.trans (h6 _ _) (executeEntry_ext u _ _ _ _)
        · exact h6 _ _

theorem check_ext (fuel : Nat) (e : Engine M) (r : Nat) : EExt e (check u fuel e r) := by
  unfold check
  dsimp only
  have h3 : EExt e (executePendingMarketOrders u fuel (checkUpdate u (checkCancel u e r) r)) :=
    EExt.trans (EExt.trans (checkCancel_ext u e r) (checkUpdate_ext u _ r)) (pending_ext u fuel _)
  generalize executePendingMarketOrders u fuel (checkUpdate u (checkCancel u e r) r) = e3 at *
  split
  · exact EExt.refl _
  · split
    · exact h3
    · split
      · exact EExt.trans h3 (checkEntry_ext u _ _ _)
      · exact h3

theorem executeStrategy_ext (fuel : Nat) (e : Engine M) (r : Nat) : EExt e (executeStrategy u fuel e r) := by
  unfold executeStrategy
  dsimp only
  have h2 : EExt e (check u fuel (beforeStep u e r) r) :=
    EExt.trans (EExt.of_w rfl : EExt e (beforeStep u e r)) (check_ext u fuel _ r)
  split
  · exact EExt.refl _
  · split
    · exact h2
    · exact EExt.trans h2 (EExt.of_w rfl : EExt _ (afterStep u _ r))


/-! ### matching -/

theorem setCurrentPrice_ext (e : Engine M) (sym : Nat) (p : Rat) : EExt e (setCurrentPrice e sym p) :=
  setPrice_ext _ _ _

theorem addCandle_ext (e : Engine M) (sym tf : Nat) (c : Candle) : EExt e (addCandle e sym tf c) := EExt.of_w rfl

theorem matchLoop_ext (fuel : Nat) : ∀ (e : Engine M) (sym : Nat) (cur : Candle) (cands : List Nat)
    (resel : Engine M → Candle → List Nat) (st : Bool), EExt e (matchLoop u fuel e sym cur cands resel st).1 := by
  induction fuel with
  | zero => intro e sym cur cands resel st; unfold matchLoop; exact fail_ext _ _
  | succ f ih =>
    intro e sym cur cands resel st
    unfold matchLoop
    dsimp only
    split
    · exact EExt.refl _
    · split
      · exact EExt.refl _
      · split
        · exact fail_ext _ _
        · rename_i a b hs
          refine EExt.trans ?_ (ih _ _ _ _ _ _)
          refine EExt.trans ?_ (executeOrder_ext u _ _)
          refine EExt.trans (ComposeLemmas.updatePartialCandle_w e sym a) ?_
          split
          · exact EExt.trans (setCurrentPrice_ext _ _ _) (EExt.of_w rfl)
          · exact setCurrentPrice_ext _ _ _

theorem checkLiquidation_ext (e : Engine M) (sym : Nat) (c : Candle) : EExt e (checkLiquidation u e sym c) := by
  unfold checkLiquidation
  dsimp only
  repeat' split
  all_goals first
    | exact EExt.refl _
    | (rename_i k w' h
       exact EExt.trans (show EExt e { e with w := w' } from submit_err_ext h) (fail_ext _ _))
    | (rename_i w' h _ last hl
       refine EExt.trans ?_ (executeOrder_ext u _ _)
       refine EExt.trans ?_ (ComposeLemmas.updatePartialCandle_w _ sym last)
       exact EExt.trans (show EExt e { e with w := w', via := e.via ++ [none], storage := upd e.storage sym (· ++ [e.w.orders.length]), liquidations := e.liquidations + 1 } from submit_ok_ext h)
          (EExt.trans (logE_ext _ _) (logE_ext _ _)))
    | (rename_i w' h _ hl
       refine EExt.trans ?_ (fail_ext _ _)
       exact EExt.trans (show EExt e { e with w := w', via := e.via ++ [none], storage := upd e.storage sym (· ++ [e.w.orders.length]), liquidations := e.liquidations + 1 } from submit_ok_ext h)
          (EExt.trans (logE_ext _ _) (logE_ext _ _)))

theorem simulateMinute_ext (fuel : Nat) (e : Engine M) (sym : Nat) (real : Candle) : EExt e (simulateMinute u fuel e sym real) := by
  unfold simulateMinute
  dsimp only
  split
  · exact EExt.refl _
  · have h := matchLoop_ext u fuel e sym real
      ((fun (e : Engine M) (c : Candle) => if (executingOrders e sym c).length > 1 then sortExecutionOrders e (executingOrders e sym c) [c] else executingOrders e sym c) e real)
      (fun (e : Engine M) (c : Candle) => if (executingOrders e sym c).length > 1 then sortExecutionOrders e (executingOrders e sym c) [c] else executingOrders e sym c) false
    revert h
    generalize matchLoop u fuel e sym real _ _ false = p
    intro h
    obtain ⟨e1, c'⟩ := p
    dsimp only at h ⊢
    split
    · exact h
    · exact EExt.trans h (EExt.trans (EExt.trans (addCandle_ext e1 sym 1 real) (setCurrentPrice_ext _ _ _)) (checkLiquidation_ext u _ _ _))

theorem perMinute_ext (fuel : Nat) (sym : Nat) (real : Candle) (rest : List Candle) :
    ∀ (prev : Option Candle) (e : Engine M) (cands : List Nat), EExt e (simulateChunk.perMinute u fuel sym real rest prev e cands) := by
  induction rest with
  | nil => intro prev e cands; unfold simulateChunk.perMinute; exact EExt.refl _
  | cons c more ih =>
    intro prev e cands
    unfold simulateChunk.perMinute
    dsimp only
    split
    · exact EExt.refl _
    · have key : ∀ cur : Candle, EExt e
          (match matchLoop u fuel e sym cur cands (chunkReselect sym real c more) true with
           | (e1, cur') =>
             if e1.err.isSome then e1 else
             simulateChunk.perMinute u fuel sym real more (some c) (setCurrentPrice (addCandle e1 sym 1 c) sym cur'.c)
               (if e1.log.length = e.log.length then cands else chunkReselect sym real c more e1 cur')) := by
        intro cur
        have h := matchLoop_ext u fuel e sym cur cands (chunkReselect sym real c more) true
        revert h
        generalize matchLoop u fuel e sym cur cands (chunkReselect sym real c more) true = p
        intro h
        obtain ⟨e1, c'⟩ := p
        dsimp only at h ⊢
        split
        · exact h
        · exact EExt.trans h (EExt.trans (EExt.trans (addCandle_ext e1 sym 1 c) (setCurrentPrice_ext _ _ _)) (ih _ _ _))
      exact key _

theorem simulateChunk_ext (fuel : Nat) (e : Engine M) (sym : Nat) (cs : List Candle) : EExt e (simulateChunk u fuel e sym cs) := by
  unfold simulateChunk
  dsimp only
  split
  · exact EExt.refl _
  · split
    · exact fail_ext _ _
    · rename_i real hreal
      have h1 : EExt e (if (executingOrders e sym real).length > 0 then
          simulateChunk.perMinute u fuel sym real cs none e
            (if (executingOrders e sym real).length > 1 then sortExecutionOrders e (executingOrders e sym real) (fixChunk none cs) else executingOrders e sym real)
          else e) := by
        split
        · exact perMinute_ext u fuel sym real cs _ _ _
        · exact EExt.refl _
      revert h1
      generalize (if (executingOrders e sym real).length > 0 then
          simulateChunk.perMinute u fuel sym real cs none e
            (if (executingOrders e sym real).length > 1 then sortExecutionOrders e (executingOrders e sym real) (fixChunk none cs) else executingOrders e sym real)
          else e) = e1
      intro h1
      split
      · exact h1
      · split
        · exact EExt.trans h1 (fail_ext _ _)
        · rename_i short' hs
          have h2 : EExt e1 (checkLiquidation u { e1 with stores := upd e1.stores sym (fun s => { s with short := short' }), time := real.ts + 60000 * cs.length } sym real) :=
            EExt.trans (b := { e1 with stores := upd e1.stores sym (fun s => { s with short := short' }), time := real.ts + 60000 * cs.length }) (EExt.of_w rfl) (checkLiquidation_ext u _ _ _)
          split
          · exact EExt.trans h1 (EExt.trans h2 (setCurrentPrice_ext _ _ _))
          · exact EExt.trans h1 h2

/-! ### the simulators -/

theorem saveDaily_ext (e : Engine M) : EExt e (saveDaily e) := EExt.of_w rfl

theorem terminate_ext (fuel : Nat) (e : Engine M) (r : Nat) : EExt e (terminate u fuel e r) := by
  unfold terminate
  dsimp only
  split
  · exact EExt.refl _
  · have h3 : EExt e (executePendingMarketOrders u fuel (detectModifications (runHook e r "before_terminate" (u.beforeTerminate e r)) r)) :=
      EExt.trans (runHook_ext _ _ _ _) (EExt.trans (detectModifications_ext _ _) (pending_ext u _ _))
    revert h3
    generalize executePendingMarketOrders u fuel (detectModifications (runHook e r "before_terminate" (u.beforeTerminate e r)) r) = e3
    intro h3
    split
    · exact h3
    · split
      · refine EExt.trans h3 (EExt.trans ?_ (brokerSubmit_ext _ _ _ _))
        split
        · refine EExt.trans ?_ (foldl_ext (fun e id => cancelOrder e id) (fun e id => cancelOrder_ext e id) _ _)
          exact EExt.of_w rfl
        · exact EExt.refl _
      · split
        · exact EExt.trans h3 (executeCancel_ext _ _)
        · exact h3

theorem tfFold_ext {α} (l : List α) (g : Engine M → α → Engine M) (hg : ∀ e x, EExt e (g e x)) (e0 e : Engine M) (h : EExt e0 e) :
    EExt e0 (l.foldl g e) := EExt.trans h (foldl_ext g hg l e)

theorem symStep_ext (fuel i : Nat) (acc : Engine M × List (List Candle)) (sym : Nat) : EExt acc.1 (symStep u fuel i acc sym).1 := by
  unfold symStep
  dsimp only
  split
  · exact EExt.refl _
  · split
    · exact fail_ext _ _
    · rename_i c hc
      refine tfFold_ext _ _ ?_ _ _ (EExt.trans (addCandle_ext _ _ _ _) (simulateMinute_ext u _ _ _ _))
      intro e tf
      try dsimp only
      split
      · split
        · exact addCandle_ext _ _ _ _
        · exact fail_ext _ _
      · exact EExt.refl _

theorem symSkip_ext (fuel i step : Nat) (acc : Engine M × List (List Candle)) (sym : Nat) : EExt acc.1 (symSkip u fuel i step acc sym).1 := by
  unfold symSkip
  dsimp only
  split
  · exact EExt.refl _
  · refine tfFold_ext _ _ ?_ _ _ (simulateChunk_ext u _ _ _ _)
    intro e tf
    try dsimp only
    split
    · split
      · exact addCandle_ext _ _ _ _
      · exact fail_ext _ _
    · exact EExt.refl _

theorem routesStep_ext (fuel : Nat) (e : Engine M) (i b : Nat) : EExt e (routesStep u fuel e i b) := by
  unfold routesStep
  dsimp only
  have h2 : EExt e (executePendingMarketOrders u fuel ((List.range e.cfg.routes.length).foldl (fun e r =>
      if e.err.isSome then e else
      { (if (routeOf e r).tf = 1 ∨ b % (routeOf e r).tf = 0 then executeStrategy u fuel e r else e) with
        w := Acc.updateActive (if (routeOf e r).tf = 1 ∨ b % (routeOf e r).tf = 0 then executeStrategy u fuel e r else e).w (routeOf e r).sym }) e)) := by
    refine EExt.trans (foldl_ext _ ?_ _ _) (pending_ext u _ _)
    intro x r
    dsimp only
    split
    · exact EExt.refl _
    · refine EExt.trans (?_ : EExt x (if (routeOf x r).tf = 1 ∨ b % (routeOf x r).tf = 0 then executeStrategy u fuel x r else x)) (updateActive_ext _ _)
      split
      · exact executeStrategy_ext u _ _ _
      · exact EExt.refl _
  split
  · exact EExt.trans h2 (saveDaily_ext _)
  · exact h2

theorem pairFold_ext {α} (g : Engine M × List (List Candle) → α → Engine M × List (List Candle))
    (hg : ∀ acc x, EExt acc.1 (g acc x).1) (l : List α) (acc : Engine M × List (List Candle)) :
    EExt acc.1 (l.foldl g acc).1 := by
  induction l generalizing acc with
  | nil => exact EExt.refl _
  | cons x xs ih => exact EExt.trans (hg acc x) (ih (g acc x))

theorem stepAt_ext (fuel : Nat) (inputs : List (List Candle)) (e : Engine M) (i : Nat) : EExt e (stepAt u fuel inputs e i).1 := by
  unfold stepAt
  dsimp only
  split
  · exact EExt.refl _
  · refine EExt.trans ?_ (routesStep_ext u _ _ _ _)
    exact EExt.trans (EExt.of_w rfl : EExt e { e with time := ((((inputs.getD 0 [])[i]?).map (·.ts)).getD 0) + 60000 })
      (pairFold_ext _ (symStep_ext u fuel i) _ ({ e with time := ((((inputs.getD 0 [])[i]?).map (·.ts)).getD 0) + 60000 }, inputs))

theorem skipAt_ext (fuel : Nat) (inputs : List (List Candle)) (e : Engine M) (i step : Nat) : EExt e (skipAt u fuel inputs e i step).1 := by
  unfold skipAt
  dsimp only
  split
  · exact EExt.refl _
  · refine EExt.trans ?_ (routesStep_ext u _ _ _ _)
    exact pairFold_ext _ (symSkip_ext u fuel i step) _ (e, inputs)

theorem finishRun_ext (fuel : Nat) (e : Engine M) : EExt e (finishRun u fuel e) := by
  unfold finishRun
  dsimp only
  have h1 : EExt e ((List.range e.cfg.routes.length).foldl (fun e r => executePendingMarketOrders u fuel (terminate u fuel e r)) e) :=
    foldl_ext _ (fun x r => EExt.trans (terminate_ext u fuel x r) (pending_ext u _ _)) _ _
  split
  · exact h1
  · exact EExt.trans h1 (saveDaily_ext _)

theorem runStepN_ext (fuel : Nat) (inputs : List (List Candle)) (e : Engine M) (n : Nat) : EExt e (runStepN u fuel inputs e n).1 := by
  unfold runStepN
  dsimp only
  refine EExt.trans (EExt.of_w rfl : EExt e (saveDaily { e with time := (((inputs.getD 0 [])[0]?).map (·.ts)).getD 0 })) ?_
  exact pairFold_ext _ (fun acc i => stepAt_ext u fuel acc.2 acc.1 i) _ (_, inputs)

theorem runStep_ext (fuel : Nat) (inputs : List (List Candle)) (e : Engine M) : EExt e (runStep u fuel inputs e) :=
  EExt.trans (runStepN_ext u fuel inputs e _) (finishRun_ext u fuel _)

theorem runSkipN_ext (fuel : Nat) (inputs : List (List Candle)) (e : Engine M) (step k : Nat) : EExt e (runSkipN u fuel inputs e step k).1 := by
  unfold runSkipN
  dsimp only
  refine EExt.trans (EExt.of_w rfl : EExt e (saveDaily { e with time := (((inputs.getD 0 [])[0]?).map (·.ts)).getD 0 })) ?_
  exact pairFold_ext _ (fun acc j => skipAt_ext u fuel acc.2 acc.1 _ _) _ (_, inputs)

theorem runSkip_ext (fuel : Nat) (inputs : List (List Candle)) (e : Engine M) : EExt e (runSkip u fuel inputs e) := by
  unfold runSkip
  dsimp only
  split
  · exact EExt.trans (EExt.of_w rfl : EExt e (saveDaily { e with time := (((inputs.getD 0 [])[0]?).map (·.ts)).getD 0 })) (fail_ext _ _)
  · exact EExt.trans (runSkipN_ext u fuel inputs e _ _) (finishRun_ext u fuel _)

end FrameLemmas
