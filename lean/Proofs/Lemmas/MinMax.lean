/-
  Proofs/Lemmas/MinMax.lean — the extrema detector is prefix-stable except for its last `order` rows.
-/
import Proofs.Lemmas.Causal
import Jesse.Ind.Off

namespace Jesse.Ind

theorem all_congr_mem {α} (l : List α) (f g : α → Bool) (h : ∀ x ∈ l, f x = g x) : l.all f = l.all g := by
  induction l with
  | nil => rfl
  | cons a r ih =>
    simp only [List.all_cons]
    rw [h a List.mem_cons_self, ih (fun x hx => h x (List.mem_cons_of_mem _ hx))]

theorem clipIdx_of_lt (n : Nat) (i : Int) (h0 : 0 ≤ i) (h : i.toNat < n) : clipIdx n i = i.toNat := by
  unfold clipIdx
  rw [if_neg (by omega), if_neg (by omega)]

theorem clipIdx_neg (n : Nat) (i : Int) (h : i < 0) : clipIdx n i = 0 := by
  unfold clipIdx; rw [if_pos h]

/-- a row at least `order` rows away from the end of a prefix sees the same neighbours in the prefix
    and in the full series -/
theorem isExtremum_take (lt : Bool) (o : Nat) (xs : List Rat) (k i : Nat) (hk : k < xs.length) (hi : i + o < k) :
    isExtremum lt o (xs.take k) i = isExtremum lt o xs i := by
  unfold isExtremum
  apply all_congr_mem
  intro j hj
  have hj' : j < o := by simpa using hj
  have hlen : (xs.take k).length = k := by rw [List.length_take]; omega
  rw [hlen]
  have e0 : (xs.take k)[i]? = xs[i]? := by rw [List.getElem?_take, if_pos (by omega)]
  have hup1 : clipIdx k ((i : Int) + (j + 1 : Nat)) = i + j + 1 := by
    rw [clipIdx_of_lt _ _ (by omega) (by omega)]; omega
  have hup2 : clipIdx xs.length ((i : Int) + (j + 1 : Nat)) = i + j + 1 := by
    rw [clipIdx_of_lt _ _ (by omega) (by omega)]; omega
  have e1 : (xs.take k)[clipIdx k ((i : Int) + (j + 1 : Nat))]? = xs[clipIdx xs.length ((i : Int) + (j + 1 : Nat))]? := by
    rw [hup1, hup2, List.getElem?_take, if_pos (by omega)]
  have e2 : (xs.take k)[clipIdx k ((i : Int) - (j + 1 : Nat))]? = xs[clipIdx xs.length ((i : Int) - (j + 1 : Nat))]? := by
    by_cases hneg : (i : Int) - (j + 1 : Nat) < 0
    · rw [clipIdx_neg _ _ hneg, clipIdx_neg _ _ hneg, List.getElem?_take, if_pos (by omega)]
    · have h1 : clipIdx k ((i : Int) - (j + 1 : Nat)) = ((i : Int) - (j + 1 : Nat)).toNat :=
        clipIdx_of_lt _ _ (by omega) (by omega)
      have h2 : clipIdx xs.length ((i : Int) - (j + 1 : Nat)) = ((i : Int) - (j + 1 : Nat)).toNat :=
        clipIdx_of_lt _ _ (by omega) (by omega)
      rw [h1, h2, List.getElem?_take, if_pos (by omega)]
  rw [e0, e1, e2]

/-- `extrema` computed on the prefix `xs[:k]` agrees with the full result on all rows but the last `order` ones -/
theorem extrema_take (lt : Bool) (o : Nat) (xs : List Rat) (k : Nat) :
    (extrema lt o (xs.take k)).take (k - o) = (extrema lt o xs).take (k - o) := by
  by_cases hk : k < xs.length
  · unfold extrema imap
    rw [← List.map_take, ← List.map_take, List.take_range, List.take_range, List.length_take]
    have h1 : min (k - o) (min k xs.length) = k - o := by omega
    have h2 : min (k - o) xs.length = k - o := by omega
    rw [h1, h2]
    apply List.map_congr_left
    intro i hi
    have hi' : i < k - o := by simpa using hi
    have e := isExtremum_take lt o xs k i hk (by omega)
    have e0 : (xs.take k)[i]? = xs[i]? := by rw [List.getElem?_take, if_pos (by omega)]
    show (if isExtremum lt o (xs.take k) i = true then (xs.take k)[i]? else none)
        = (if isExtremum lt o xs i = true then xs[i]? else none)
    rw [e, e0]
  · have : xs.take k = xs := List.take_of_length_le (by omega)
    rw [this]

theorem ffill_take (ys : Ser) (m : Nat) : (ffill ys).take m = ffill (ys.take m) := scanState_take _ _ _ _

end Jesse.Ind
